"""C07 — HAB image: layout round trip, CSF authenticates its blocks, encryption inverts.

Bounded exhaustive enumeration of executions of the real builder (`HabContainer.load_from_config` / `export` /
`parse`, and `nxpimage hab export / parse` through click's CliRunner) against `vf.ref.hab_ref` (independent reader
of the exported bytes: own IVT / boot data / DCD / XMCD / CSF walker, own SRK-table hash, `openssl verify`,
`openssl cms -verify`, AES-CCM through `cryptography`'s AEAD, interval arithmetic for block coverage).

Case families (each enumerated completely; see enumerate_cases):
  base     every (family, boot device) the database offers x {plain, authenticated, encrypted} at the base config
  lat      on one (thorough: up to three) representative(s) per layout class: every assignment of DIMS with <= k
           departures from the base x applicable image kinds (quick k=1, thorough k=2), plus the full-product groups
           GROUPS; cases with <= 1 departure carry the region-wise tamper sweep (quick: base + the departures in
           TAMPER_LAYOUT_DIMS on every class, those in TAMPER_DIMS_QUICK on the first class)
  cli      `nxpimage hab export` (YAML and BD command files) + `nxpimage hab parse`, per class x kind
Before the enumeration the reader is calibrated on the repository's golden HAB binaries and on the CST-made SRK
tables / fuse files (w_golden).

Oracle clauses (ids C07.<name>): see CLAUSES.
"""
from __future__ import annotations

import itertools
import os
import shutil
import struct
import tempfile
from typing import Any, Optional

from vf import core, fixtures

LEVEL = "exploration"

CLAUSES = {
    "C07.layout-ivt": "an IVT field (self, entry, dcd, boot data, csf, reserved) differs from the real position / the value given (disc = field)",
    "C07.layout-bdt": "boot data start / length / plugin differ from the real load address / size of the image (disc = field)",
    "C07.layout-bytes": "the bytes at the real position of a segment differ from what was given, or a gap is not fill (disc = segment)",
    "C07.parse-raises": "HabContainer.parse raises on the image SPSDK built (disc = kind:exception@site)",
    "C07.parse-segment": "a segment returned by HabContainer.parse differs from the bytes of the image / from what was given (disc = segment)",
    "C07.parse-reexport": "parse(export).export() differs from the exported image",
    "C07.csf-structure": "the independent CSF walker cannot read the CSF SPSDK built (disc = stage)",
    "C07.csf-commands": "the command list in the CSF differs from the sections given (disc = what)",
    "C07.srk-table": "SRK table: SPSDK's table from the certificates differs from the own encoding, or the table in the CSF is not the one given",
    "C07.srk-fuses": "own SHA-256 over the SRK entry digests differs from SrkTable.export_fuses() / RotSrkTableHab.calculate_hash()",
    "C07.key-chain": "an installed key does not chain to the SRK selected by the source index (openssl verify / key-slot replay; disc = stage)",
    "C07.csf-signature": "openssl cms -verify fails for the CSF signature over exactly CSF header+commands",
    "C07.image-signature": "openssl cms -verify fails for the image signature over exactly the concatenation of the listed blocks",
    "C07.coverage": "the union of the listed blocks does not cover a segment (disc = segment)",
    "C07.decrypt": "own AES-CCM decryption of the listed blocks with the DEK, nonce and MAC from the CSF does not restore the application (disc = what)",
    "C07.dek-file": "the DEK file the builder writes / reads is not the key the image was encrypted with (disc = what)",
    "C07.tamper-accepted": "the ROM replay still authenticates an image with a flipped bit inside a segment the property says is covered (disc = region)",
    "C07.cli": "nxpimage hab export / parse disagrees with the API path / the own reader (disc = what)",
    "C07.shared-state": "a base configuration is refused in a process that built other images before, and builds in a fresh process",
}

KINDS = ("plain", "auth", "enc")
FLAGS = {"plain": 0x0, "auth": 0x8, "enc": 0xC}
CSF_AREA = 0x2000       # space the builders reserve for the CSF
DEK_BLOB_AREA = 0x200   # space counted in the boot-data length for the wrapped DEK of an encrypted image
PARSER_APP_OFFSETS = (0x100, 0x400, 0xC00, 0x1000, 0x2000)  # documented search list of the parser (AppHabSegment.parse)

# IVT offset / initial load region size per boot device (i.MX RT reference manuals, "Image Vector Table offset and
# initial load region size": FlexSPI NOR 4 KB / 8 KB, NAND / SD / eMMC 1 KB / 4 KB; serial downloader images start with the IVT)
RM_LAYOUT = {"flexspi_nor": (0x1000, 0x2000), "serial_downloader": (0x0, 0x400)}
RM_LAYOUT_OTHER = (0x400, 0x1000)
CLASS_START = {0x1000: 0x60000000, 0x0: 0x20200000, 0x400: 0x80000000}

TS_BASE = "16/05/2023 12:34:08"

# ---------------------------------------------------------------------------------------------
# dimensions (first value = base)

DIMS: dict = {
    "size": [0x2345, 4, 8, 0x1000 - 4, 0x1000, 0x1004],
    "start": ["class", 0x1000, 0x30000000, 0xFFFFC000],
    "ivt": ["db", 0x400, 0x1000, 0x0],
    "ils": ["db", 0x1000, 0x2000, 0x400, 0x3000, 0x1800],
    "fam": ["given", "absent"],
    "entry": ["reset", "same", "+0x100", "-0x100"],
    "dcd": [None, "1cmd", "2cmd", "chk0"],
    "xmcd": [None, "flexspi0", "semc0", "flexspi1", "semc1"],
    "ts": [TS_BASE, "01/01/2000 00:00:00", "31/12/2049 23:59:59", None],
    # one curve / key size for the whole tree SRK -> CSF, IMG; "p521" is made at run time from the P-521 keys of the fixture
    # pool (p521_tree): one SRK, CSF and IMG keys with a leading-zero X / Y coordinate
    "pki": ["rsa2048", "rsa4096", "p256", "p384", "p521"],
    # count:index; "4h" = table of four entries in which the three keys not selected are given as hash-only entries
    "srk": ["4:0", "4:1", "4:2", "4:3", "1:0", "2:0", "2:1", "3:0", "3:1", "3:2", "4h:0", "4h:3"],
    # command set + key supply.  Key supply: base = private key files named; autodetect = no key named, found next to the
    # certificate (X_crt.pem -> X_key.pem); autodetect-cst = the same with the legacy CST directory layout crts/ + keys/;
    # signprovider = "type=file;file_path=..." strings; nocak / nocak-autodetect = fast authentication with the SRK key
    "cmdset": ["base", "set_engine", "unlock_snvs", "unlock_caam", "unlock_ocotp", "unlock_ocotp_uid", "set+unlock",
               "nocak", "autodetect", "signprovider", "autodetect-cst", "nocak-autodetect"],
    "hver": ["4.2", "4.0", "4.1", "4.3", "4.5", 0x42],
    "heng": ["ANY", "DCP", "CAAM", "SW", "SAHARA", "RTIC"],
    "deng": ["ANY:0", "DCP:0", "CAAM:0", "CAAM:8", "SW:0"],
    "imgidx": [2, 4, 3, 5],
    "mac": [16, 4, 8, 6, 10, 12, 14],
    "deklen": [256, 128, 192],
    "dek": ["given", "generated", "regenerated"],
    "nonce": ["given13", "generated", "given12", "given11"],
    "skidx": ["0:0", "1:0", "2:0", "3:0", "0:1", "0:2", "0:3"],
    "deceng": ["ANY", "CAAM"],
}
THOROUGH_EXTRA = {"size": [0x10, 0x11, 0x10010]}
DIM_KINDS = {
    "ts": ("auth", "enc"), "pki": ("auth", "enc"), "srk": ("auth", "enc"), "cmdset": ("auth", "enc"),
    "hver": ("auth", "enc"), "heng": ("auth", "enc"), "deng": ("auth", "enc"), "imgidx": ("auth", "enc"),
    "mac": ("enc",), "deklen": ("enc",), "dek": ("enc",), "nonce": ("enc",), "skidx": ("enc",), "deceng": ("enc",),
}
# quick tier: the tamper sweep runs on the base and on single departures in the dimensions that change which bytes are
# listed / where the CSF data sits (thorough: on every case with <= 1 departure)
TAMPER_DIMS_QUICK = {"size", "ivt", "ils", "dcd", "xmcd", "pki", "srk", "cmdset", "imgidx", "mac", "nonce"}
# full-product groups (always complete, other dimensions at base)
# (thorough: k = 2 already contains every pair, so only the triple adds cases there; quick: pki x srk on the first class only)
GROUPS = [("ivt", "ils", "fam"), ("dcd", "xmcd"), ("pki", "srk"), ("pki", "cmdset")]
GROUPS_FIRST_CLASS_ONLY_QUICK = {("pki", "srk"), ("pki", "cmdset")}
# a group may be restricted to some values of a dimension: (key type of the tree) x (every way of supplying the signing keys)
KEY_SUPPLY = ["base", "autodetect", "autodetect-cst", "signprovider", "nocak", "nocak-autodetect"]
GROUP_VALUES = {(("pki", "cmdset"), "cmdset"): KEY_SUPPLY}
TAMPER_LAYOUT_DIMS = {"size", "ivt", "ils", "dcd", "xmcd"}


def dims_for(tier: str) -> dict:
    d = {n: list(v) for n, v in DIMS.items()}
    if tier != "quick":
        for n, extra in THOROUGH_EXTRA.items():
            d[n] += extra
    return d


def lattice(dims: dict, k: int) -> list:
    names = list(dims)
    out: list = [{}]
    for r in range(1, k + 1):
        for combo in itertools.combinations(names, r):
            for vals in itertools.product(*[dims[n][1:] for n in combo]):
                out.append(dict(zip(combo, vals)))
    return out


def group_products(dims: dict, groups: list) -> list:
    out = []
    for g in groups:
        for vals in itertools.product(*[[v for v in dims[n] if v in GROUP_VALUES.get((g, n), dims[n])] for n in g]):
            dep = {n: v for n, v in zip(g, vals) if v != dims[n][0]}
            if len(dep) >= 2:
                out.append(dep)
    return out


def applicable(dep: dict, kind: str) -> bool:
    if not all(kind in DIM_KINDS.get(n, KINDS) for n in dep):
        return False
    if str(dep.get("cmdset", "")).startswith("nocak") and "imgidx" in dep:
        return False  # fast authentication installs no image key
    return True


# ---------------------------------------------------------------------------------------------
# input material (own encoders, written from the HAB4 structure descriptions)


def hdr(tag: int, length: int, par: int) -> bytes:
    return struct.pack(">BHB", tag, length, par)


def dcd_bytes(variant: str) -> bytes:
    wr1 = hdr(0xCC, 12, 0x04) + struct.pack(">2L", 0x400FC068, 0xFFFFFFFF)
    wr2 = hdr(0xCC, 20, 0x1C) + struct.pack(">4L", 0x401F8014, 0x000000E1, 0x402F0000, 0x10000004)
    chk = hdr(0xCF, 16, 0x0C) + struct.pack(">3L", 0x402F003C, 0x00000001, 5)
    chk0 = hdr(0xCF, 16, 0x14) + struct.pack(">3L", 0x402F003C, 0x00000001, 0)  # poll count 0 = behaves as NOP
    body = {"1cmd": wr1, "2cmd": wr2 + chk, "chk0": wr1 + chk0}[variant]
    return hdr(0xD2, 4 + len(body), 0x41) + body


def xmcd_bytes(variant: str, seed: int) -> bytes:
    interface, instance, btype, n = {"flexspi0": (0, 0, 0, 4), "semc0": (1, 0, 0, 13), "flexspi1": (0, 1, 0, 4),
                                     "semc1": (1, 1, 1, 0x4C)}[variant]
    size = 4 + n
    word = 0xC << 28 | 0 << 24 | interface << 20 | instance << 16 | btype << 12 | size
    payload = bytearray(core.seeded_bytes(seed, f"xmcd|{variant}", n))
    return struct.pack("<L", word) + bytes(payload)


def app_bytes(seed: int, size: int, reset: int) -> bytes:
    b = bytearray(core.seeded_bytes(seed, f"app|{size}", size))
    if size >= 4:
        b[0:4] = struct.pack("<L", 0x20010000)
    if size >= 8:
        b[4:8] = struct.pack("<L", reset)
    return bytes(b)


# ---------------------------------------------------------------------------------------------
# per-process caches

_CACHE: dict = {}
_SEED = 0


def _hab_index() -> dict:
    if "hi" not in _CACHE:
        hi = dict(fixtures.hab_index())
        hi["p521"] = p521_tree()
        _CACHE["hi"] = hi
    return _CACHE["hi"]


def _fx(rel: str) -> str:
    """Path of a PKI file: relative names live in the committed fixture pool, absolute ones in the run-time tree."""
    return rel if os.path.isabs(rel) else fixtures.path(rel)


def _der(rel: str) -> bytes:
    key = ("der", rel)
    if key not in _CACHE:
        from vf.ref import hab_ref

        _CACHE[key] = hab_ref.der_of_pem(open(_fx(rel), "rb").read())
    return _CACHE[key]


def _der_len(n: int) -> bytes:
    return bytes([n]) if n < 0x80 else bytes([0x80 | ((n.bit_length() + 7) // 8)]) + n.to_bytes((n.bit_length() + 7) // 8, "big")


def _resign_deterministic(cert, issuer_key):
    """The same certificate with an RFC 6979 (deterministic) ECDSA signature, so that the run-time tree is byte-identical
    in every process and run; falls back to the certificate as built when the backend cannot sign deterministically."""
    from cryptography import x509
    from cryptography.hazmat.primitives import hashes, serialization
    from cryptography.hazmat.primitives.asymmetric import ec

    try:
        tbs = cert.tbs_certificate_bytes
        sig = issuer_key.sign(tbs, ec.ECDSA(hashes.SHA512(), deterministic_signing=True))
    except Exception:  # noqa  (UnsupportedAlgorithm / TypeError on older backends)
        return cert
    der = cert.public_bytes(serialization.Encoding.DER)

    def tlv(off: int) -> tuple:
        ln = der[off + 1]
        if ln & 0x80:
            k = ln & 0x7F
            return off + 2 + k, int.from_bytes(der[off + 2:off + 2 + k], "big")
        return off + 2, ln

    cs, _ = tlv(0)
    if der[cs:cs + len(tbs)] != tbs:
        return cert
    a0 = cs + len(tbs)
    acs, acl = tlv(a0)
    body = tbs + der[a0:acs + acl] + b"\x03" + _der_len(len(sig) + 1) + b"\x00" + sig
    return x509.load_der_x509_certificate(b"\x30" + _der_len(len(body)) + body)


def p521_tree() -> list:
    """HAB PKI on secp521r1, made from the P-521 private keys of the committed fixture pool (no entropy needed):
    SRK1 (CA, self-signed) -> CSF1, IMG1 (leaves).  Same naming as fixtures/hab (X_crt.pem next to X_key.pem).
    -> [entry] shaped like fixtures.hab_index()[kind] with absolute paths."""
    import datetime

    from cryptography import x509
    from cryptography.hazmat.primitives import hashes, serialization
    from cryptography.x509.oid import NameOID

    base = os.environ.get("VERIF_WORKDIR") or tempfile.gettempdir()
    d = os.path.join(base, "c07-pki-p521")
    names = {"srk": "p521_SRK1", "csf": "p521_CSF1", "img": "p521_IMG1"}
    entry = {f"{r}_{w}": os.path.join(d, f"{n}_{'crt' if w == 'cert' else 'key'}.pem") for r, n in names.items() for w in ("cert", "key")}
    if all(os.path.exists(x) for x in entry.values()):
        return [entry]
    os.makedirs(d, exist_ok=True)
    keys = {r: serialization.load_pem_private_key(fixtures.read(f"keys/{k}.pem"), None)
            for r, k in (("srk", "p521_0"), ("csf", "p521_x0"), ("img", "p521_y0"))}
    nb = datetime.datetime(2020, 1, 1, tzinfo=datetime.timezone.utc)
    na = datetime.datetime(2070, 1, 1, tzinfo=datetime.timezone.utc)

    def name(cn: str):
        return x509.Name([x509.NameAttribute(NameOID.COMMON_NAME, cn), x509.NameAttribute(NameOID.ORGANIZATION_NAME, "verif")])

    def mk(role: str, serial: int):
        ca = role == "srk"
        b = (x509.CertificateBuilder().subject_name(name(names[role])).issuer_name(name(names["srk"]))
             .public_key(keys[role].public_key()).serial_number(serial).not_valid_before(nb).not_valid_after(na)
             .add_extension(x509.BasicConstraints(ca=ca, path_length=None), critical=True))
        if ca:
            b = b.add_extension(x509.KeyUsage(digital_signature=True, content_commitment=False, key_encipherment=False,
                                              data_encipherment=False, key_agreement=False, key_cert_sign=True, crl_sign=True,
                                              encipher_only=False, decipher_only=False), critical=False)
        return _resign_deterministic(b.sign(keys["srk"], hashes.SHA512()), keys["srk"])

    for i, role in enumerate(("srk", "csf", "img")):
        for path, content in ((entry[f"{role}_cert"], mk(role, 5210 + i).public_bytes(serialization.Encoding.PEM)),
                              (entry[f"{role}_key"], keys[role].private_bytes(serialization.Encoding.PEM, serialization.PrivateFormat.PKCS8,
                                                                             serialization.NoEncryption()))):
            tmp = f"{path}.{os.getpid()}.tmp"
            with open(tmp, "wb") as f:
                f.write(content)
            os.replace(tmp, path)  # atomic: several processes may build the (identical) tree at the same time
    return [entry]


def _layout_table() -> dict:
    """(family, device) -> (ivt offset, initial load size) as the database gives them (class key, DESIGN 1.9)."""
    if "layout" not in _CACHE:
        from spsdk.image.hab.hab_container import HabContainer
        from spsdk.utils.database import DatabaseManager, get_db

        t = {}
        for fam in sorted(HabContainer.get_supported_families()):
            db = get_db(fam)
            for dev in HabContainer.get_boot_devices(fam):
                ivt = db.get_int(DatabaseManager.BOOTABLE_IMAGE, ["mem_types", dev, "segments", "hab_container"])
                ils = db.get_int(DatabaseManager.HAB, ["mem_types", dev, "initial_load_size"])
                t[(fam, dev)] = (ivt, ils)
        _CACHE["layout"] = t
    return _CACHE["layout"]


def srk_table_file(pki: str, count: int, td: str, hashed_except: Optional[int] = None) -> tuple:
    """SRK table made by SPSDK's own generator from the fixture certificates -> (path, bytes, fuses SPSDK reports)."""
    key = ("srk", pki, count, hashed_except)
    if key not in _CACHE:
        ents = _hab_index()[pki][:count]
        if hashed_except is None:
            from spsdk.utils.crypto.rot import RotSrkTableHab

            rot = RotSrkTableHab([_fx(e["srk_cert"]) for e in ents])
            _CACHE[key] = (rot.export(), rot.calculate_hash())
        else:
            from spsdk.crypto.certificate import Certificate
            from spsdk.image.secret import SrkItem, SrkTable

            tbl = SrkTable(version=0x40)
            for i, e in enumerate(ents):
                item = SrkItem.from_certificate(Certificate.parse(open(_fx(e["srk_cert"]), "rb").read()))
                tbl.append(item if i == hashed_except else item.hashed_entry())
            _CACHE[key] = (tbl.export(), tbl.export_fuses())
    blob, fuses = _CACHE[key]
    p = os.path.join(td, "srk_table.bin")
    with open(p, "wb") as f:
        f.write(blob)
    return p, blob, fuses


# ---------------------------------------------------------------------------------------------
# case -> parameters -> configuration


class Skip(Exception):
    """The combination is outside the stated input space (not enumerated as a legal input)."""


def resolve(case: dict) -> dict:
    dep = case.get("h", {})
    p = {n: dep.get(n, vals[0]) for n, vals in DIMS.items()}
    p["kind"] = case["k"]
    p["family"], p["device"] = case["f"], case["d"]
    db_ivt, db_ils = _layout_table()[(p["family"], p["device"])]
    p["db_ivt"], p["db_ils"] = db_ivt, db_ils
    p["ivt_off"] = db_ivt if p["ivt"] == "db" else p["ivt"]
    p["ils_v"] = db_ils if p["ils"] == "db" else p["ils"]
    p["app_off"] = p["ils_v"] - p["ivt_off"]
    if p["app_off"] < 0x100:
        raise Skip("initial load size leaves no room for IVT + boot data + DCD/XMCD")
    p["start_v"] = CLASS_START.get(db_ivt, 0x80000000) if p["start"] == "class" else p["start"]
    if p["start_v"] + p["ivt_off"] == 0:
        raise Skip("IVT at address 0")
    app_addr = p["start_v"] + p["ils_v"]
    p["reset"] = ((app_addr + 0x2D0) | 1) & 0xFFFFFFFF
    p["entry_v"] = {"reset": None, "same": p["reset"], "+0x100": (p["reset"] + 0x100) & 0xFFFFFFFF,
                    "-0x100": (p["reset"] - 0x100) & 0xFFFFFFFF}[p["entry"]]
    cnt, idx = p["srk"].split(":")
    p["srk_hashed"] = cnt.endswith("h")
    p["srk_count"], p["srk_index"] = int(cnt.rstrip("h")), int(idx)
    if p["kind"] != "plain":
        avail = len(_hab_index()[p["pki"]])
        if p["srk_count"] > avail:
            if p["srk"] != DIMS["srk"][0]:
                raise Skip(f"the {p['pki']} tree has {avail} SRK(s)")
            p["srk_count"] = avail  # base table of a smaller tree: all its SRKs
    tgt, ver = (int(x) for x in p["skidx"].split(":"))
    p["sk_tgt"], p["sk_ver"] = tgt, ver
    eng, cfg = p["deng"].split(":")
    p["deng_eng"], p["deng_cfg"] = eng, int(cfg)
    return p


def sec(i: int, **kw: Any) -> dict:
    return {"section_id": i, "options": [{k: v} for k, v in kw.items()], "commands": []}


def build_config(p: dict, seed: int, td: str) -> tuple:
    """Writes the input files into td and returns (config dict in the BD-parser shape, given)."""
    kind = p["kind"]
    app = app_bytes(seed, p["size"], p["reset"])
    app_path = os.path.join(td, "app.bin")
    with open(app_path, "wb") as f:
        f.write(app)
    opts: dict = {"flags": FLAGS[kind], "startAddress": p["start_v"]}
    if p["fam"] == "given":
        opts["family"] = p["family"]
        opts["bootDevice"] = p["device"]
    if p["ivt"] != "db" or p["fam"] == "absent":
        opts["ivtOffset"] = p["ivt_off"]
    if p["ils"] != "db" or p["fam"] == "absent":
        opts["initialLoadSize"] = p["ils_v"]
    if p["entry_v"] is not None:
        opts["entryPointAddress"] = p["entry_v"]
    given: dict = {"app": app, "dcd": None, "xmcd": None, "kind": kind}
    if p["dcd"]:
        given["dcd"] = dcd_bytes(p["dcd"])
        opts["DCDFilePath"] = os.path.join(td, "dcd.bin")
        with open(opts["DCDFilePath"], "wb") as f:
            f.write(given["dcd"])
    if p["xmcd"]:
        given["xmcd"] = xmcd_bytes(p["xmcd"], seed)
        opts["XMCDFilePath"] = os.path.join(td, "xmcd.bin")
        with open(opts["XMCDFilePath"], "wb") as f:
            f.write(given["xmcd"])
    sections: list = []
    if kind != "plain":
        if p["ts"] is not None:
            opts["signatureTimestamp"] = p["ts"]
        ents = _hab_index()[p["pki"]]
        e = ents[p["srk_index"]]
        srk_path, srk_blob, srk_fuses = srk_table_file(p["pki"], p["srk_count"], td, p["srk_index"] if p["srk_hashed"] else None)
        given.update(srk_blob=srk_blob, srk_fuses_reported=srk_fuses,
                     srk_ders=[_der(x["srk_cert"]) for x in ents[:p["srk_count"]]],
                     csf_der=_der(e["csf_cert"]), img_der=_der(e["img_cert"]), srk_der=_der(e["srk_cert"]),
                     srk_hashed_except=p["srk_index"] if p["srk_hashed"] else None)
        cs = p["cmdset"]
        nocak = cs.startswith("nocak")
        named = cs not in ("autodetect", "autodetect-cst", "nocak-autodetect", "signprovider")
        crt = {r: _fx(e[f"{r}_cert"]) for r in ("srk", "csf", "img")}
        if cs == "autodetect-cst":
            # legacy CST layout: certificates in crts/, private keys in keys/ (X_crt.pem -> ../keys/X_key.pem)
            os.makedirs(os.path.join(td, "crts"))
            os.makedirs(os.path.join(td, "keys"))
            for r in ("csf", "img"):
                stem = os.path.basename(crt[r])[:-len("_crt.pem")]
                shutil.copyfile(crt[r], os.path.join(td, "crts", stem + "_crt.pem"))
                shutil.copyfile(_fx(e[f"{r}_key"]), os.path.join(td, "keys", stem + "_key.pem"))
                crt[r] = os.path.join(td, "crts", stem + "_crt.pem")
        sections.append(sec(20, Header_Version=p["hver"], Header_HashAlgorithm="sha256", Header_Engine=p["heng"],
                            Header_EngineConfiguration=0, Header_CertificateFormat="x509", Header_SignatureFormat="CMS"))
        sections.append(sec(21, InstallSRK_Table=srk_path, InstallSRK_SourceIndex=p["srk_index"]))
        csf_key, img_key = _fx(e["csf_key"]), _fx(e["img_key"])
        if nocak:
            sections.append(sec(23, InstallNOCAK_File=crt["srk"], InstallNOCAK_CertificateFormat="x509"))
            csf_key = img_key = _fx(e["srk_key"])
        else:
            sections.append(sec(22, InstallCSFK_File=crt["csf"], InstallCSFK_CertificateFormat="x509"))
        if not named and cs != "signprovider":
            sections.append(sec(24))
        elif cs == "signprovider":
            sections.append(sec(24, AuthenticateCsf_SignProvider=f"type=file;file_path={csf_key}"))
        else:
            sections.append(sec(24, AuthenticateCsf_PrivateKeyFile=csf_key))
        img_slot = 0 if nocak else p["imgidx"]
        if not nocak:
            sections.append(sec(25, InstallKey_File=crt["img"], InstallKey_VerificationIndex=0,
                                InstallKey_TargetIndex=img_slot))
        ad = dict(AuthenticateData_VerificationIndex=img_slot, AuthenticateData_Engine=p["deng_eng"],
                  AuthenticateData_EngineConfiguration=p["deng_cfg"])
        if cs == "signprovider":
            ad["AuthenticateData_SignProvider"] = f"type=file;file_path={img_key}"
        elif named:
            ad["AuthenticateData_PrivateKeyFile"] = img_key
        sections.append(sec(26, **ad))
        given.update(nocak=nocak, img_slot=img_slot)
        extra: list = []
        if cs in ("set_engine", "set+unlock"):
            extra.append(("set", sec(31, SetEngine_HashAlgorithm="sha256", SetEngine_Engine="DCP", SetEngine_EngineConfiguration="0")))
        if cs in ("unlock_snvs", "set+unlock"):
            extra.append(("unlk", sec(33, Unlock_Engine="SNVS", Unlock_Features="ZMK WRITE, LP SWR")))
        if cs == "unlock_caam":
            extra.append(("unlk", sec(33, Unlock_Engine="CAAM", Unlock_Features="MID, RNG, MFG")))
        if cs == "unlock_ocotp":
            extra.append(("unlk", sec(33, Unlock_Engine="OCOTP", Unlock_Features="SRK REVOKE")))
        if cs == "unlock_ocotp_uid":
            extra.append(("unlk", sec(33, Unlock_Engine="OCOTP", Unlock_Features="JTAG, SRK REVOKE",
                                      Unlock_UID="0x1, 0x23, 0x45, 0x67, 0x89, 0xab, 0xcd, 0xef")))
        if kind == "enc":
            dek_len = p["deklen"] // 8
            dek_path = os.path.join(td, "dek.bin")
            sk = dict(SecretKey_Name=dek_path, SecretKey_Length=p["deklen"], SecretKey_VerifyIndex=p["sk_ver"],
                      SecretKey_TargetIndex=p["sk_tgt"])
            if p["dek"] == "given":
                given["dek"] = core.seeded_bytes(seed, "dek", dek_len)
                with open(dek_path, "wb") as f:
                    f.write(given["dek"])
                sk["SecretKey_ReuseDek"] = 1
            else:
                given["dek"] = None
                if p["dek"] == "regenerated":  # a key file of an earlier build is there and is not to be reused
                    given["dek_before"] = core.seeded_bytes(seed, "old-dek", dek_len)
                    with open(dek_path, "wb") as f:
                        f.write(given["dek_before"])
            given["dek_path"] = dek_path
            given["dek_len"] = dek_len
            sections.append(sec(27, **sk))
            dd = dict(Decrypt_Engine=p["deceng"], Decrypt_EngineConfiguration="0", Decrypt_VerifyIndex=p["sk_tgt"],
                      Decrypt_MacBytes=p["mac"])
            if p["nonce"] != "generated":
                n = int(p["nonce"][5:])
                given["nonce"] = core.seeded_bytes(seed, "nonce", n)
                npath = os.path.join(td, "nonce.bin")
                with open(npath, "wb") as f:
                    f.write(given["nonce"])
                dd["Decrypt_Nonce"] = npath
            else:
                given["nonce"] = None
            sections.append(sec(28, **dd))
        sections += [s for _, s in extra]
        given["extra"] = [n for n, _ in extra]
    cfg = {"options": opts, "sources": {"elfFile": app_path}, "sections": sections}
    return cfg, given


def _site(exc: BaseException) -> str:
    tb = exc.__traceback__
    name = "?"
    while tb is not None:
        fn = tb.tb_frame.f_code.co_filename
        if os.sep + "spsdk" + os.sep in fn:
            name = os.path.basename(fn)[:-3] + "." + tb.tb_frame.f_code.co_name
        tb = tb.tb_next
    return name


# ---------------------------------------------------------------------------------------------
# the oracle on one exported image

ENGINES = {"ANY": 0x00, "SAHARA": 0x06, "RTIC": 0x05, "DCP": 0x1B, "CAAM": 0x1D, "SNVS": 0x1E, "OCOTP": 0x21, "SW": 0xFF}


def expected_version(hver: Any) -> int:
    if isinstance(hver, int):
        return hver
    major, minor = hver.split(".")
    return int(major) << 4 | int(minor)


def both_at_0x40(given: dict) -> bool:
    """DCD and XMCD both given: the builder has one place (IVT + 0x40) for either of them."""
    return given["dcd"] is not None and given["xmcd"] is not None


def report_unreadable(p: dict, given: dict, img: dict, viol: list) -> None:
    for seg, stage, msg in img["errors"]:
        if seg in ("dcd", "xmcd"):
            if both_at_0x40(given):
                continue  # reported once as layout-bytes [dcd-xmcd-overlap]
            viol.append(("C07.layout-bytes", f"{seg}-unreadable", f"{stage}: {msg}"))
        else:
            viol.append(("C07.csf-structure", f"{p['kind']}:{stage}", msg[:300]))


def check_layout(p: dict, given: dict, data: bytes, img: dict, viol: list) -> dict:
    """Clauses layout-ivt / layout-bdt / layout-bytes.  Returns the real positions (own computation from the input)."""
    H = _href()
    kind = p["kind"]
    ivt = img["ivt"]
    self_addr = (p["start_v"] + p["ivt_off"]) & 0xFFFFFFFF
    app = given["app"]
    app_off = p["app_off"]
    app_len = len(app) if kind == "plain" else (len(app) + 15) // 16 * 16  # authenticated data is processed in 16-byte units
    pos = {"self": self_addr, "app_off": app_off, "app_len": app_len}

    def bad(clause: str, disc: str, msg: str) -> None:
        viol.append((clause, disc, msg))

    if ivt["self"] != self_addr:
        bad("C07.layout-ivt", "self", f"self 0x{ivt['self']:X}, image start 0x{p['start_v']:X} + IVT offset 0x{p['ivt_off']:X}")
    want_entry = p["entry_v"] if p["entry_v"] is not None else (struct.unpack_from("<L", app, 4)[0] if len(app) >= 8 else None)
    if want_entry is not None and ivt["entry"] != want_entry:
        bad("C07.layout-ivt", "entry", f"entry 0x{ivt['entry']:X}, expected 0x{want_entry:X}")
    if ivt["boot_data"] != ivt["self"] + H.IVT_SIZE:
        bad("C07.layout-ivt", "boot_data", f"boot data pointer 0x{ivt['boot_data']:X}, boot data is at self + 0x20")
    if ivt["reserved1"] or ivt["reserved2"]:
        bad("C07.layout-ivt", "reserved", "reserved IVT words not zero")
    if p["ivt"] == "db" and p["ils"] == "db" and p["fam"] == "given":
        rm = RM_LAYOUT.get(p["device"], RM_LAYOUT_OTHER)
        if (p["db_ivt"], p["db_ils"]) != rm:
            bad("C07.layout-ivt", "device-table", f"{p['family']}/{p['device']}: database IVT offset / initial load size "
                f"0x{p['db_ivt']:X}/0x{p['db_ils']:X}, reference manual 0x{rm[0]:X}/0x{rm[1]:X}")
    # DCD
    dcd = given["dcd"]
    bd_end = img["boot_data"]["off"] + H.BOOT_DATA_SIZE
    if both_at_0x40(given):
        # one defect, one discriminator: the dependent DCD / XMCD clauses (bytes, coverage, parse) are not evaluated
        bad("C07.layout-bytes", "dcd-xmcd-overlap", f"DCD ({len(dcd)} bytes) and XMCD ({len(given['xmcd'])} bytes) are both "
            f"placed at IVT+0x40: image holds {data[0x40:0x48].hex()}.., DCD file {dcd[:8].hex()}.., XMCD file {given['xmcd'][:8].hex()}..")
    elif dcd is None:
        if ivt["dcd"]:
            bad("C07.layout-ivt", "dcd", f"DCD pointer 0x{ivt['dcd']:X} without a DCD")
    else:
        # real position = where the bytes of the DCD file are, between boot data and application
        real = data.find(dcd, bd_end, app_off + len(dcd))
        if real < 0 or real + len(dcd) > app_off:
            at = ivt["dcd"] - ivt["self"]
            got = data[at:at + len(dcd)] if 0 <= at < len(data) else b""
            bad("C07.layout-bytes", "dcd", f"the DCD file is not in the image before the application; the DCD pointer leads to "
                f"IVT+0x{at:X} ({_firstdiff(got, dcd)})")
            real = at if 0 <= at < app_off else 0x40
        elif ivt["dcd"] != ivt["self"] + real:
            bad("C07.layout-ivt", "dcd", f"DCD pointer 0x{ivt['dcd']:X}, the DCD is at self + 0x{real:X}")
        pos["dcd"] = (real, len(dcd))
    xm = given["xmcd"]
    if xm is not None and not both_at_0x40(given):
        if data[H.XMCD_OFFSET:H.XMCD_OFFSET + len(xm)] != xm:
            bad("C07.layout-bytes", "xmcd", f"bytes at IVT+0x40 differ from the XMCD file ({_firstdiff(data[0x40:0x40 + len(xm)], xm)})")
        pos["xmcd"] = (H.XMCD_OFFSET, len(xm))
    # application
    if kind != "enc":
        got = data[app_off:app_off + len(app)]
        if got != app:
            bad("C07.layout-bytes", "app", f"bytes at IVT+0x{app_off:X} differ from the application ({_firstdiff(got, app)})")
        if any(data[app_off + len(app):app_off + app_len]):
            bad("C07.layout-bytes", "app-pad", "padding of the application to 16 bytes is not zero")
    # CSF pointer + boot data
    bd = img["boot_data"]
    if kind == "plain":
        if ivt["csf"]:
            bad("C07.layout-ivt", "csf", f"CSF pointer 0x{ivt['csf']:X} in a plain image")
        end = app_off + len(app)
        if len(data) != end:
            bad("C07.layout-bytes", "size", f"image has 0x{len(data):X} bytes, application ends at 0x{end:X}")
        want_len = p["ivt_off"] + len(data)
    else:
        csf = img["csf"]
        if csf is None:
            bad("C07.layout-ivt", "csf", "no CSF pointer in an authenticated image")
            want_len = None
        else:
            if csf["off"] < app_off + app_len:
                bad("C07.layout-ivt", "csf", f"CSF at IVT+0x{csf['off']:X} overlaps the application (ends at 0x{app_off + app_len:X})")
            if csf["off"] % 4:
                bad("C07.layout-ivt", "csf", "CSF not word aligned")
            if any(data[app_off + app_len:csf["off"]]):
                bad("C07.layout-bytes", "fill", "gap between application and CSF is not zero fill")
            if csf["extent"] > CSF_AREA or csf["off"] + CSF_AREA != len(data):
                bad("C07.layout-bytes", "csf-area", f"CSF at 0x{csf['off']:X} needs 0x{csf['extent']:X} bytes, image has 0x{len(data):X}")
            pos["csf_off"] = csf["off"]
            want_len = p["ivt_off"] + len(data) + (DEK_BLOB_AREA if kind == "enc" else 0)
    if bd["start"] != p["start_v"]:
        bad("C07.layout-bdt", "start", f"boot data start 0x{bd['start']:X}, image start address 0x{p['start_v']:X}")
    if want_len is not None and bd["length"] != want_len:
        bad("C07.layout-bdt", "length", f"boot data length 0x{bd['length']:X}, real size 0x{want_len:X} "
            f"(IVT offset 0x{p['ivt_off']:X} + 0x{len(data):X} exported bytes{' + 0x200 DEK blob' if kind == 'enc' else ''})")
    if bd["plugin"]:
        bad("C07.layout-bdt", "plugin", "plugin flag set")
    # gaps before the application are fill
    used = [(0, H.IVT_SIZE), (bd["off"], bd["off"] + H.BOOT_DATA_SIZE)]
    for k_ in ("dcd", "xmcd"):
        if k_ in pos:
            used.append((pos[k_][0], pos[k_][0] + pos[k_][1]))
    if both_at_0x40(given):
        used.append((0x40, 0x40 + max(len(dcd), len(given["xmcd"]))))
    cur = 0
    for a, b in H.union([list(x) for x in used]):
        if any(data[cur:min(a, app_off)]):
            bad("C07.layout-bytes", "fill", f"bytes 0x{cur:X}..0x{a:X} before the application are not zero fill")
        cur = max(cur, b)
    if cur < app_off and any(data[cur:app_off]):
        bad("C07.layout-bytes", "fill", f"bytes 0x{cur:X}..0x{app_off:X} before the application are not zero fill")
    if H.overlaps([list(x) for x in used] + [[app_off, app_off + app_len]]):
        bad("C07.layout-bytes", "overlap", f"segments overlap: {used}, application at 0x{app_off:X}")
    return pos


def _firstdiff(a: bytes, b: bytes) -> str:
    i = next((i for i, (x, y) in enumerate(zip(a, b)) if x != y), min(len(a), len(b)))
    return f"first difference at +0x{i:X}: image {a[i:i + 8].hex()} given {b[i:i + 8].hex()}"


def _href():
    from vf.ref import hab_ref

    return hab_ref


def check_csf_commands(p: dict, given: dict, img: dict, viol: list) -> None:
    """Clause csf-commands: the command list in the bytes is what the sections describe."""
    H = _href()
    csf = img["csf"]
    kind = p["kind"]
    ver = expected_version(p["hver"])
    cmds = csf["commands"]

    def bad(disc: str, msg: str) -> None:
        viol.append(("C07.csf-commands", disc, msg))

    if csf["version"] != ver:
        bad("header-version", f"CSF header version 0x{csf['version']:02X}, Header_Version gives 0x{ver:02X}")
    want: list = [("ins_key", "srk")]
    if not given["nocak"]:
        want.append(("ins_key", "csfk"))
    want.append(("aut_dat", "csf"))
    if not given["nocak"]:
        want.append(("ins_key", "imgk"))
    want.append(("aut_dat", "img"))
    if kind == "enc":
        want += [("ins_key", "secret"), ("aut_dat", "decrypt")]
    want += [(n, n) for n in given["extra"]]
    if [c["name"] for c in cmds] != [w[0] for w in want]:
        bad("sequence", f"commands {[c['name'] for c in cmds]}, sections give {[w[1] for w in want]}")
        return
    heng = ENGINES[p["heng"]]
    for c, (_, role) in zip(cmds, want):
        if role == "srk":
            if (c["flags"], c["pcl"], c["src"], c["tgt"]) != (0, H.PCL_SRK, p["srk_index"], 0):
                bad("install-srk", f"flags {c['flags']} pcl 0x{c['pcl']:02X} src {c['src']} tgt {c['tgt']}; source index given {p['srk_index']}")
            if c["srk_table"]["raw"] != given["srk_blob"]:
                viol.append(("C07.srk-table", "in-csf", "SRK table in the CSF differs from the table file given"))
        elif role == "csfk":
            if (c["flags"] & H.INS_CSF, c["pcl"], c["src"], c["tgt"]) != (H.INS_CSF, H.PCL_X509, 0, 1):
                bad("install-csfk", f"flags {c['flags']} pcl 0x{c['pcl']:02X} src {c['src']} tgt {c['tgt']}")
            if c["cert_der"] != given["csf_der"]:
                bad("install-csfk", "certificate in the CSF differs from InstallCSFK_File")
            if c["blob_version"] != ver:
                bad("data-version", f"certificate header version 0x{c['blob_version']:02X}")
        elif role == "imgk":
            if (c["flags"], c["pcl"], c["src"], c["tgt"]) != (0, H.PCL_X509, 0, given["img_slot"]):
                bad("install-key", f"flags {c['flags']} pcl 0x{c['pcl']:02X} src {c['src']} tgt {c['tgt']}; target given {given['img_slot']}")
            if c["cert_der"] != given["img_der"]:
                bad("install-key", "certificate in the CSF differs from InstallKey_File")
        elif role == "csf":
            if (c["flags"], c["key"], c["pcl"], c["eng"], c["blocks"]) != (0, 1, H.PCL_CMS, heng, []):
                bad("authenticate-csf", f"flags {c['flags']} key {c['key']} pcl 0x{c['pcl']:02X} eng 0x{c['eng']:02X} blocks {c['blocks']}")
            if c["blob_version"] != ver:
                bad("data-version", f"signature header version 0x{c['blob_version']:02X}")
        elif role == "img":
            if (c["flags"], c["key"], c["pcl"], c["eng"], c["cfg"]) != (0, given["img_slot"], H.PCL_CMS, ENGINES[p["deng_eng"]], p["deng_cfg"]):
                bad("authenticate-data", f"flags {c['flags']} key {c['key']} pcl 0x{c['pcl']:02X} eng 0x{c['eng']:02X} cfg {c['cfg']}")
        elif role == "secret":
            if (c["flags"] & H.INS_ABS, c["pcl"], c["src"], c["tgt"]) != (H.INS_ABS, H.PCL_BLOB, p["sk_ver"], p["sk_tgt"]):
                bad("install-secret-key", f"flags {c['flags']} pcl 0x{c['pcl']:02X} src {c['src']} tgt {c['tgt']}")
        elif role == "decrypt":
            if (c["flags"], c["key"], c["pcl"], c["eng"], c["cfg"]) != (0, p["sk_tgt"], H.PCL_AEAD, ENGINES[p["deceng"]], 0):
                bad("decrypt-data", f"flags {c['flags']} key {c['key']} pcl 0x{c['pcl']:02X} eng 0x{c['eng']:02X} cfg {c['cfg']}")
            if len(c["mac"]) != p["mac"]:
                bad("mac-length", f"MAC has {len(c['mac'])} bytes, Decrypt_MacBytes = {p['mac']}")
            if given.get("nonce") is not None and c["nonce"] != given["nonce"]:
                bad("nonce", "nonce in the CSF differs from the Decrypt_Nonce file")
        elif role == "set":
            if (c["itm"], c["alg"], c["eng"], c["cfg"]) != (0x03, H.ALG_SHA256, ENGINES["DCP"], 0):
                bad("set-engine", f"itm {c['itm']} alg 0x{c['alg']:02X} eng 0x{c['eng']:02X} cfg {c['cfg']}")
        elif role == "unlk":
            cs = p["cmdset"]
            exp = {"unlock_snvs": (ENGINES["SNVS"], 3, None), "set+unlock": (ENGINES["SNVS"], 3, None),
                   "unlock_caam": (ENGINES["CAAM"], 7, None), "unlock_ocotp": (ENGINES["OCOTP"], 2, None),
                   "unlock_ocotp_uid": (ENGINES["OCOTP"], 0xA, 0x0123456789ABCDEF)}[cs]
            if (c["eng"], c["features"], c["uid"]) != exp:
                bad("unlock", f"engine 0x{c['eng']:02X} features 0x{c['features']:X} uid {c['uid']}; given {exp}")


def check_authentication(p: dict, given: dict, data: bytes, img: dict, pos: dict, viol: list, count: dict) -> Optional[dict]:
    """Clauses srk-fuses, key-chain, csf-signature, image-signature, coverage, decrypt, dek-file."""
    H = _href()
    kind = p["kind"]
    csf = img["csf"]
    dek = None
    if kind == "enc":
        dp = given["dek_path"]
        if not os.path.exists(dp):
            viol.append(("C07.dek-file", "missing", "no DEK file after the build"))
        else:
            dek = open(dp, "rb").read()
            if len(dek) != given["dek_len"]:
                viol.append(("C07.dek-file", "length", f"DEK file has {len(dek)} bytes, SecretKey_Length = {given['dek_len'] * 8}"))
            if given.get("dek_before") is not None and dek == given["dek_before"]:
                viol.append(("C07.dek-file", "not-regenerated", "SecretKey_ReuseDek not set, yet the key file of the earlier build is still in place"))
            if given["dek"] is not None and dek != given["dek"]:
                viol.append(("C07.dek-file", "overwritten", "the DEK file given with SecretKey_ReuseDek was changed by the build"))
    rom = H.authenticate(data, img, given["srk_ders"], dek)
    # SRK table hash
    if rom["fuses"] is None:
        viol.append(("C07.key-chain", "no-install-srk", "no Install SRK command"))
    else:
        if rom["fuses"] != given["srk_fuses_reported"]:
            viol.append(("C07.srk-fuses", "rot", f"own hash {rom['fuses'].hex()}, RotSrkTableHab.calculate_hash() {given['srk_fuses_reported'].hex()}"))
        own_table = H.srk_table_of_certs(given["srk_ders"], hashed_except=given["srk_hashed_except"])
        # replacing entries by their digests must not change the fuse value
        if rom["fuses"] != H.srk_fuses(H.read_srk_table(H.srk_table_of_certs(given["srk_ders"]))["entries"]):
            viol.append(("C07.srk-fuses", "hashed-entries", "SRK hash of the table with hash-only entries differs from the hash of the full table"))
        if own_table != given["srk_blob"]:
            viol.append(("C07.srk-table", "generator", "SRK table exported by SPSDK differs from the own encoding of the certificates' keys "
                         f"({_firstdiff(given['srk_blob'], own_table)})"))
    for stage, msg in rom["fails"]:
        clause = {"csf-signature": "C07.csf-signature", "image-signature": "C07.image-signature", "decrypt": "C07.decrypt"}.get(stage, "C07.key-chain")
        disc = {"csf-signature": "cms", "image-signature": "cms", "decrypt": "ccm"}.get(stage, stage)
        viol.append((clause, disc, msg))
    if rom["csf_sig_ok"] is None:
        viol.append(("C07.csf-signature", "absent", "no Authenticate Data command for the CSF"))
    if rom["img_sig_ok"] is None:
        viol.append(("C07.image-signature", "absent", "no Authenticate Data command with blocks"))
    count["openssl_cms_verified"] = count.get("openssl_cms_verified", 0) + (1 if rom["csf_sig_ok"] else 0) + (1 if rom["img_sig_ok"] else 0)
    # coverage: signed blocks ∪ decrypted blocks, as offsets from the IVT
    base = img["ivt"]["self"]
    listed = [[a - base, a - base + n] for a, n in rom["signed_blocks"] + rom["decrypt_blocks"]]
    need = {"ivt": [0, H.IVT_SIZE], "boot-data": [img["boot_data"]["off"], img["boot_data"]["off"] + H.BOOT_DATA_SIZE],
            "app": [pos["app_off"], pos["app_off"] + len(given["app"])]}
    for k_ in ("dcd", "xmcd"):
        if k_ in pos:
            need[k_] = [pos[k_][0], pos[k_][0] + pos[k_][1]]
    for name, iv in need.items():
        miss = H.uncovered([iv], listed)
        if miss:
            viol.append(("C07.coverage", name, f"{name} 0x{iv[0]:X}..0x{iv[1]:X}: not covered {[(hex(a), hex(b)) for a, b in miss]}; "
                         f"listed blocks {[(hex(a), hex(b - a)) for a, b in listed]}"))
    if kind == "enc":
        # the application must be under the MAC, and nothing that the ROM needs in clear may be encrypted
        dec = [[a - base, a - base + n] for a, n in rom["decrypt_blocks"]]
        if H.uncovered([need["app"]], dec):
            viol.append(("C07.decrypt", "blocks", f"the Decrypt Data blocks {dec} do not contain the whole application {need['app']}"))
        for name in ("ivt", "boot-data", "dcd", "xmcd"):
            if name in need and not H.uncovered([need[name]], dec) and need[name][1] > need[name][0]:
                viol.append(("C07.decrypt", "blocks", f"{name} is inside the encrypted blocks"))
        sgn = [[a - base, a - base + n] for a, n in rom["signed_blocks"]]
        if any(max(x[0], y[0]) < min(x[1], y[1]) for x in dec for y in sgn):  # an encrypted block against a signed one
            viol.append(("C07.decrypt", "blocks", f"an encrypted block overlaps a signed block: encrypted {dec}, signed {sgn}"))
        if rom["plaintext"] is not None:
            want = given["app"] + bytes(pos["app_len"] - len(given["app"]))
            # plaintext of the listed blocks = the application (+ zero padding to 16), wherever the blocks start
            off = pos["app_off"] - dec[0][0] if dec else 0
            got = rom["plaintext"][off:off + len(want)] if off >= 0 else b""
            if got != want:
                viol.append(("C07.decrypt", "plaintext", f"decrypted blocks differ from the application ({_firstdiff(got, want)})"))
            if len(rom["plaintext"]) != len(want):
                viol.append(("C07.decrypt", "extent", f"{len(rom['plaintext'])} bytes encrypted, application (padded) has {len(want)}"))
            count["ccm_decrypted"] = count.get("ccm_decrypted", 0) + 1
        elif dek is not None and not any(s == "decrypt" for s, _ in rom["fails"]):
            viol.append(("C07.decrypt", "absent", "no Decrypt Data command"))
        nl = rom.get("nonce_len")
        if nl is not None:
            n = rom.get("ciphertext_len", 0)
            lf = H.ccm_length_field(nl)
            if not 2 <= lf <= 8 or n >= 1 << (8 * lf):
                viol.append(("C07.decrypt", "nonce-length", f"nonce of {nl} bytes cannot encode a {n}-byte message"))
            if given.get("nonce") is None:
                minimal = next(L for L in (2, 3, 4) if n < 1 << (8 * L))
                # self-chosen nonce: 15 - L bytes, L = 2 / 3 / 4 length bytes (CST rule); a longer length field than the
                # minimum is still a valid CCM parameter set, so only its range is demanded and the choice is counted
                if lf not in (2, 3, 4):
                    viol.append(("C07.decrypt", "nonce-length", f"self-chosen nonce has {nl} bytes"))
                count[f"nonce_len_{nl}{'' if lf == minimal else '_longer_length_field'}"] = 1
        blob = rom.get("dek_blob_address")
        if blob is not None:
            want_blob = (p["start_v"] + p["ivt_off"] + len(data)) & 0xFFFFFFFF
            if not rom.get("dek_blob_abs") or blob != want_blob:
                viol.append(("C07.layout-bdt", "dek-blob", f"Install Secret Key points at 0x{blob:X}; the blob area counted in the boot data "
                             f"length starts at 0x{want_blob:X} (end of the CSF area)"))
    return rom


def spsdk_parse_view(obj) -> dict:
    """What HabContainer.parse returned, through public attributes."""
    v: dict = {"flags": obj.flags, "ivt_offset": obj.ivt_offset, "start_address": obj.start_address}
    v["ivt"] = obj.ivt_segment.export()
    v["bdt"] = obj.bdt_segment.export()
    v["dcd"] = obj.dcd_segment.export() if obj.dcd_segment else None
    v["xmcd"] = obj.xmcd_segment.export() if obj.xmcd_segment else None
    v["app"] = obj.app_segment.export()
    v["app_off"] = obj.app_segment.offset
    v["csf"] = obj.csf_segment.export() if obj.csf_segment else None
    v["csf_off"] = obj.csf_segment.offset if obj.csf_segment else None
    v["reexport"] = obj.export()
    v["len"] = len(obj)
    if obj.csf_segment:
        seg = obj.csf_segment.segment
        v["csf_cmds"] = b"".join(c.export() for c in seg.commands)
        srk = next((c.certificate_ref for c in seg.commands if getattr(c, "certificate_format", None) is not None
                    and c.certificate_format.tag == 0x03), None)
        v["fuses"] = srk.export_fuses() if srk is not None else None
        v["mac_len"] = obj.csf_segment.mac_len
        v["nonce"] = obj.csf_segment.nonce
        mac_obj = next(seg.macs, None)
        v["mac"] = mac_obj.mac if mac_obj is not None else None
    return v


def spsdk_segment_view(data: bytes, viol: list, kind: str) -> dict:
    """Fallback when HabContainer.parse gives up on the application: the other segments through their own parsers."""
    from spsdk.image.exceptions import SPSDKSegmentNotPresent
    from spsdk.image.hab import segments as S

    v: dict = {"partial": True}
    for name, cls in (("ivt", S.IvtHabSegment), ("bdt", S.BdtHabSegment), ("dcd", S.DcdHabSegment), ("xmcd", S.XmcdHabSegment),
                      ("csf", S.CsfHabSegment)):
        try:
            seg = cls.parse(data)
            v[name] = seg.export()
            if name == "csf":
                v["csf_off"] = seg.offset
                v["csf_cmds"] = b"".join(c.export() for c in seg.segment.commands)
                srk = next((c.certificate_ref for c in seg.segment.commands if getattr(c, "certificate_format", None) is not None
                            and c.certificate_format.tag == 0x03), None)
                v["fuses"] = srk.export_fuses() if srk is not None else None
                v["mac_len"] = seg.mac_len
                v["nonce"] = seg.nonce
                mac_obj = next(seg.segment.macs, None)
                v["mac"] = mac_obj.mac if mac_obj is not None else None
        except SPSDKSegmentNotPresent:
            v[name] = None
        except (core.Watchdog, core.HarnessError):
            raise
        except Exception as e:  # noqa
            viol.append(("C07.parse-raises", f"{kind}:{name}:{type(e).__name__}@{_site(e)}", f"{type(e).__name__}: {e}"[:300]))
            v[name] = None
            v.setdefault("failed", []).append(name)
    return v


def check_parse(p: dict, given: dict, data: bytes, img: dict, pos: dict, rom: Optional[dict], viol: list, count: dict) -> None:
    from spsdk.exceptions import SPSDKError
    from spsdk.image.hab.hab_container import HabContainer

    H = _href()
    kind = p["kind"]
    try:
        obj = HabContainer.parse(data)
        v = spsdk_parse_view(obj)
        count["parsed"] = 1
    except (core.Watchdog, core.HarnessError):
        raise
    except Exception as e:  # noqa
        if both_at_0x40(given):
            count["parse_not_judged:dcd-xmcd-overlap"] = 1  # dependent on layout-bytes [dcd-xmcd-overlap]
            return
        if any(v_[0] == "C07.layout-bytes" and v_[1] == "xmcd" for v_ in viol):
            count["parse_not_judged:xmcd-bytes-differ"] = 1  # the image already holds another XMCD than the one given
            return
        app_search_failed = isinstance(e, SPSDKError) and "offset could not be found" in str(e)
        # the parser finds the application by trying a documented list of offsets and needs a vector table
        if app_search_failed and len(given["app"]) < 8:
            count["parse_unsupported:no-vector-table"] = 1
        elif app_search_failed and pos["app_off"] not in PARSER_APP_OFFSETS:
            count["parse_unsupported:app-offset-not-in-search-list"] = 1
        else:
            viol.append(("C07.parse-raises", f"{kind}:{type(e).__name__}@{_site(e)}", f"{type(e).__name__}: {e}"[:300]))
        if not app_search_failed:
            return
        v = spsdk_segment_view(data, viol, kind)  # the remaining segments are still judged
        count["parsed_segmentwise"] = 1

    def bad(disc: str, msg: str) -> None:
        viol.append(("C07.parse-segment", disc, msg))

    partial = v.get("partial", False)
    failed = v.get("failed", [])
    if "ivt" not in failed and v["ivt"] != data[:H.IVT_SIZE]:
        bad("ivt", "IVT segment bytes differ from the image")
    bo = img["boot_data"]["off"]
    if "bdt" not in failed and (v["bdt"][:H.BOOT_DATA_SIZE] != data[bo:bo + H.BOOT_DATA_SIZE] or any(v["bdt"][H.BOOT_DATA_SIZE:])):
        bad("bdt", "boot data segment bytes differ from the image")
    for name in ("dcd", "xmcd"):
        g = given[name]
        if both_at_0x40(given) or name in failed:
            continue
        if (v[name] is None) != (g is None):
            bad(f"presence:{name}", f"{name.upper()} {'given' if g is not None else 'not given'}, parser returns {'none' if v[name] is None else 'one'}")
        elif g is not None and v[name] != g:
            # what the parser returns is judged against the bytes in the image when those already differ from the input
            a, n = pos[name]
            if v[name] != data[a:a + n]:
                bad(name, f"{name.upper()} segment differs from the file given and from the image ({_firstdiff(v[name], g)})")
    if "csf" not in failed and (v["csf"] is None) != (img["csf"] is None):
        bad("presence:csf", "CSF presence differs")
    want_flags = FLAGS[kind]
    if not partial:
        if v["flags"] != want_flags:
            bad("flags", f"flags 0x{v['flags']:X}, built with 0x{want_flags:X}")
        if v["ivt_offset"] != p["ivt_off"]:
            bad("ivt_offset", f"IVT offset 0x{v['ivt_offset']:X}, built with 0x{p['ivt_off']:X}")
        if v["start_address"] != p["start_v"]:
            bad("start_address", f"start address 0x{v['start_address']:X}, built with 0x{p['start_v']:X}")
        # application: the image does not store its length; the parser returns everything up to the CSF / the end
        app = given["app"]
        end = img["csf"]["off"] if img["csf"] else len(data)
        if v["app_off"] != pos["app_off"]:
            bad("app-offset", f"application found at IVT+0x{v['app_off']:X}, it is at IVT+0x{pos['app_off']:X}")
        elif v["app"] != data[pos["app_off"]:end]:
            bad("app", "application segment bytes differ from the image")
        elif kind != "enc" and (v["app"][:len(app)] != app or any(v["app"][len(app):])):
            bad("app", "application segment is not the application given followed by fill")
    if img["csf"] is not None and v["csf"] is not None:
        co = img["csf"]["off"]
        if v["csf_off"] != co:
            bad("csf-offset", f"CSF found at 0x{v['csf_off']:X}, it is at 0x{co:X}")
        if v["csf"] != data[co:co + CSF_AREA]:
            bad("csf", f"CSF segment bytes differ from the image ({_firstdiff(v['csf'], data[co:co + CSF_AREA])})")
        if v["csf_cmds"] != data[co + 4:co + img["csf"]["len"]]:
            bad("csf-commands", "commands returned by the parser differ from the bytes of the image")
        if rom is not None and rom["fuses"] is not None and v["fuses"] != rom["fuses"]:
            viol.append(("C07.srk-fuses", "parsed", f"own hash {rom['fuses'].hex()}, export_fuses() of the parsed table {v['fuses'] and v['fuses'].hex()}"))
        dc = next((c for c in img["csf"]["commands"] if "mac" in c), None)
        if kind == "enc" and dc is not None:
            if v["mac_len"] != len(dc["mac"]) or v["nonce"] != dc["nonce"] or v.get("mac") != dc["mac"]:
                bad("mac", f"parser: MAC length {v['mac_len']}, nonce {v['nonce'] and v['nonce'].hex()}, MAC {v.get('mac') and v['mac'].hex()}; "
                    f"image: nonce {dc['nonce'].hex()}, MAC {dc['mac'].hex()}")
            # encrypted application as the parser returns it: must decrypt (own AES-CCM, parser's nonce and MAC, the DEK
            # file) to the application given
            if not partial and v["nonce"] and v.get("mac") and os.path.exists(given["dek_path"]):
                n = pos["app_len"]
                try:
                    pt = H.ccm_decrypt(open(given["dek_path"], "rb").read(), v["nonce"], v["mac"], v["app"][:n])
                    if pt[:len(given["app"])] != given["app"] or any(pt[len(given["app"]):]) or any(v["app"][n:]):
                        bad("app-encrypted", "the application segment of the parsed encrypted image does not decrypt to the application given followed by fill")
                except Exception as e:  # noqa  InvalidTag / ValueError
                    if not any(v_[0] == "C07.decrypt" for v_ in viol):  # otherwise already reported on the image itself
                        bad("app-encrypted", f"the application segment of the parsed encrypted image does not decrypt: {type(e).__name__} {e}")
    if partial:
        return
    if v["reexport"] != data:
        viol.append(("C07.parse-reexport", kind, f"re-export differs ({_firstdiff(v['reexport'], data)}; {len(v['reexport'])} vs {len(data)} bytes)"))
    if v["len"] != len(data):
        bad("len", f"len(parsed) = 0x{v['len']:X}, image has 0x{len(data):X} bytes")


# ---------------------------------------------------------------------------------------------
# tamper sweep on the ROM replay (region-wise): confirms coverage by execution and keeps the oracle honest


def regions(p: dict, given: dict, data: bytes, img: dict, pos: dict) -> list:
    """(name, a, b, must_fail) — must_fail: the property says this region is authenticated."""
    H = _href()
    r = [("ivt", 0, H.IVT_SIZE, True), ("boot-data", img["boot_data"]["off"], img["boot_data"]["off"] + H.BOOT_DATA_SIZE, True)]
    for k_ in ("dcd", "xmcd"):
        if k_ in pos and pos[k_][1]:
            r.append((k_, pos[k_][0], pos[k_][0] + pos[k_][1], True))
    r.append(("app", pos["app_off"], pos["app_off"] + len(given["app"]), True))
    csf = img["csf"]
    co = csf["off"]
    r.append(("csf-header", co, co + 4, True))
    for c in csf["commands"]:
        r.append((f"csf-cmd-{c['name']}", co + c["off"], co + c["off"] + c["len"], True))
        if "cms" in c:
            r.append(("csf-signature-data", co + c["aut_start"] + 4, co + c["aut_start"] + c["blob_len"], False))
        if "mac" in c:
            r.append(("csf-mac-data", co + c["aut_start"] + 8, co + c["aut_start"] + c["blob_len"], False))
        if "cert_der" in c:
            r.append(("csf-certificate", co + c["key_dat"] + 4, co + c["key_dat"] + c["blob_len"], False))
        if "srk_table" in c:
            r.append(("csf-srk-table", co + c["key_dat"], co + c["key_dat"] + c["blob_len"], False))
    return r


def flip_positions(a: int, b: int, level: int, image_region: bool) -> list:
    """level 2: first / middle / last byte; level 1 (quick): first + last byte of image regions, middle byte of CSF regions."""
    if level >= 2:
        pos = sorted({a, (a + b - 1) // 2, b - 1})
    elif image_region:
        pos = sorted({a, b - 1})
    else:
        pos = [(a + b - 1) // 2]
    return [(o, (o * 5 + 3) % 8) for o in pos]


def tamper_sweep(p: dict, given: dict, data: bytes, img: dict, pos: dict, base_rom: dict, viol: list, count: dict, level: int = 2) -> None:
    H = _href()
    kind = p["kind"]
    dek = open(given["dek_path"], "rb").read() if kind == "enc" and os.path.exists(given["dek_path"]) else None
    if base_rom["fails"]:
        return  # the intact image does not authenticate: already reported
    for name, a, b, must in regions(p, given, data, img, pos):
        for o, bit in flip_positions(a, b, level, not name.startswith("csf-")):
            d2 = bytearray(data)
            d2[o] ^= 1 << bit
            d2 = bytes(d2)
            count["tamper_trials"] = count.get("tamper_trials", 0) + 1
            try:
                img2 = H.read_image(d2)
                if img2["csf"] is None:
                    raise H.Malformed("ivt", "no CSF pointer")
                rom2 = H.authenticate(d2, img2, given["srk_ders"], dek)
                ok = not rom2["fails"] and rom2["csf_sig_ok"] and rom2["img_sig_ok"] and rom2["fuses"] == base_rom["fuses"]
                if ok and kind == "enc":
                    ok = rom2["plaintext"] == base_rom["plaintext"]
            except H.Malformed:
                ok = False
            except Exception:  # noqa  (DER of a damaged certificate etc.)
                ok = False
            if ok and must:
                viol.append(("C07.tamper-accepted", name.split("-cmd-")[0] + "-command" if name.startswith("csf-cmd") else name,
                             f"bit {bit} of byte 0x{o:X} ({name}) flipped: CSF replay still authenticates the image"))
            elif ok:
                count[f"tamper_accepted_outside_property:{name}"] = count.get(f"tamper_accepted_outside_property:{name}", 0) + 1
            else:
                count["tamper_rejected"] = count.get("tamper_rejected", 0) + 1


# ---------------------------------------------------------------------------------------------
# one case


def run_case(case: dict, seed: int) -> dict:
    from spsdk.exceptions import SPSDKError
    from spsdk.image.hab.hab_container import HabContainer

    H = _href()
    viol: list = []
    count: dict = {}
    try:
        p = resolve(case)
    except Skip as e:
        return {"viol": [], "count": {"skipped_outside_input_space": 1}, "distinct": [], "skipped": str(e)}
    kind = p["kind"]
    td = tempfile.mkdtemp(prefix="c07-", dir=os.environ.get("VERIF_WORKDIR") or None)
    try:
        cfg, given = build_config(p, seed, td)
        try:
            hab = HabContainer.load_from_config(cfg, search_paths=[td])
            data = hab.export()
        except SPSDKError as e:
            count["rejected"] = 1
            return {"viol": [], "count": count, "distinct": [], "rejected": f"{type(e).__name__}@{_site(e)}: {e}"[:200]}
        except (core.Watchdog, core.HarnessError):
            raise
        except Exception as e:  # noqa
            # exception type of a refusal is not the property's concern: counted per type@site, reported in the evidence
            count["builder_non_spsdk_error"] = 1
            count[f"builder_error_type:{type(e).__name__}@{_site(e)}"] = 1
            return {"viol": [], "count": count, "distinct": [], "rejected": f"{type(e).__name__}@{_site(e)}: {e}"[:200], "other_type": True}
        count["accepted"] = 1
        try:
            img = H.read_image(data)
        except H.Malformed as e:
            viol.append(("C07.csf-structure", f"{kind}:{e.stage}", str(e)[:300]))
            return {"viol": core.dedupe(viol), "count": count, "distinct": []}
        report_unreadable(p, given, img, viol)
        pos = check_layout(p, given, data, img, viol)
        rom = None
        if kind != "plain" and img["csf"] is not None:
            check_csf_commands(p, given, img, viol)
            rom = check_authentication(p, given, data, img, pos, viol, count)
        check_parse(p, given, data, img, pos, rom, viol, count)
        if case.get("t") and rom is not None:
            tamper_sweep(p, given, data, img, pos, rom, viol, count, level=case["t"])
        count["openssl_calls"] = H.OPENSSL_CALLS[0]
        H.OPENSSL_CALLS[0] = 0
        return {"viol": core.dedupe(viol), "count": count, "distinct": [core.short_hash([case["f"], case["d"], kind, case.get("h", {})])]}
    finally:
        shutil.rmtree(td, ignore_errors=True)


def w_case(case: dict) -> dict:
    if case.get("cli"):
        return run_cli_case(case, _SEED)
    return run_case(case, _SEED)


# ---------------------------------------------------------------------------------------------
# nxpimage hab export / parse


def _bd_text(cfg: dict) -> str:
    def val(v: Any) -> str:
        if isinstance(v, bool):
            return "true" if v else "false"
        if isinstance(v, int):
            return hex(v) if v > 9 else str(v)
        return '"' + str(v) + '"'

    out = ["options {"]
    for k_, v in cfg["options"].items():
        out.append(f"    {k_} = {val(v)};")
    out += ["}", "", "sources {", "    elfFile = extern(0);", "}", ""]
    if not cfg["sections"]:
        out += ["section (0) {", "}"]
    for s in cfg["sections"]:
        opts = ",\n    ".join(f"{k_}={val(v)}" for o in s["options"] for k_, v in o.items())
        out += [f"section ({s['section_id']}{';' if opts else ''}", f"    {opts})" if opts else ")", "{", "}", ""]
    return "\n".join(out)


_SEC_NAMES = {20: "Header", 21: "InstallSRK", 22: "InstallCSFK", 23: "InstallNOCAK", 24: "AuthenticateCSF", 25: "InstallKey",
              26: "AuthenticateData", 27: "SecretKey", 28: "Decrypt", 31: "SetEngine", 33: "Unlock"}


def _yaml_cfg(cfg: dict) -> dict:
    secs = []
    for s in cfg["sections"]:
        d: dict = {}
        for o in s["options"]:
            d.update(o)
        secs.append({_SEC_NAMES[s["section_id"]]: d})
    return {"options": dict(cfg["options"]), "inputImageFile": cfg["sources"]["elfFile"], "sections": secs}


def run_cli_case(case: dict, seed: int) -> dict:
    """case: {"cli": "yaml"|"bd", f, d, k, h}: export through the CLI, compare with the API path, parse through the CLI."""
    import yaml
    from click.testing import CliRunner

    from spsdk.apps import nxpimage
    from spsdk.exceptions import SPSDKError
    from spsdk.image.hab.hab_container import HabContainer

    H = _href()
    viol: list = []
    count: dict = {"cli_cases": 1}
    p = resolve(case)
    kind = p["kind"]
    td = tempfile.mkdtemp(prefix="c07-cli-", dir=os.environ.get("VERIF_WORKDIR") or None)
    try:
        cfg, given = build_config(p, seed, td)
        out = os.path.join(td, "out.bin")
        if case["cli"] == "yaml":
            cpath = os.path.join(td, "cfg.yaml")
            with open(cpath, "w") as f:
                yaml.safe_dump(_yaml_cfg(cfg), f)
            args = ["hab", "export", "-c", cpath, "-o", out]
        else:
            cpath = os.path.join(td, "cfg.bd")
            with open(cpath, "w") as f:
                f.write(_bd_text(cfg))
            args = ["hab", "export", "-c", cpath, "-o", out, cfg["sources"]["elfFile"]]
        runner = CliRunner()
        r = runner.invoke(nxpimage.main, args, catch_exceptions=True)
        if r.exit_code != 0 or not os.path.exists(out):
            viol.append(("C07.cli", f"export-failed:{case['cli']}", f"exit {r.exit_code}: {(r.output or '')[-300:]} {r.exception!r}"[:500]))
            return {"viol": viol, "count": count, "distinct": []}
        data = open(out, "rb").read()
        count["accepted"] = 1
        try:
            img = H.read_image(data)
        except H.Malformed as e:
            viol.append(("C07.csf-structure", f"{kind}:{e.stage}", "cli: " + str(e)[:300]))
            return {"viol": viol, "count": count, "distinct": []}
        report_unreadable(p, given, img, viol)
        pos = check_layout(p, given, data, img, viol)
        rom = None
        if kind != "plain" and img["csf"] is not None:
            check_csf_commands(p, given, img, viol)
            rom = check_authentication(p, given, data, img, pos, viol, count)
        # API path on the same inputs: RSA PKCS#1 v1.5 signatures with a given signing time are deterministic
        try:
            api = HabContainer.load_from_config(cfg, search_paths=[td]).export()
            if p["pki"].startswith("rsa") or kind == "plain":
                if api != data:
                    viol.append(("C07.cli", "api-vs-cli-bytes", f"{case['cli']}: {_firstdiff(data, api)} (cli {len(data)} B, api {len(api)} B)"))
            elif len(api) != len(data) or api[:pos["app_off"] + len(given["app"])] != data[:pos["app_off"] + len(given["app"])]:
                viol.append(("C07.cli", "api-vs-cli-bytes", f"{case['cli']}: image part differs"))
        except SPSDKError as e:
            viol.append(("C07.cli", "api-rejects", str(e)[:200]))
        # parse through the CLI
        pdir = os.path.join(td, "parsed")
        r = runner.invoke(nxpimage.main, ["hab", "parse", "-b", out, "-o", pdir], catch_exceptions=True)
        if r.exit_code != 0:
            e = r.exception
            if e is not None and not isinstance(e, SystemExit):
                # same defect as on the API path: same clause and discriminator
                if not (isinstance(e, SPSDKError) and "offset could not be found" in str(e) and
                        (len(given["app"]) < 8 or pos["app_off"] not in PARSER_APP_OFFSETS)):
                    viol.append(("C07.parse-raises", f"{kind}:{type(e).__name__}@{_site(e)}", f"nxpimage hab parse: {type(e).__name__}: {e}"[:300]))
            else:
                viol.append(("C07.cli", "parse-failed", f"exit {r.exit_code}: {(r.output or '')[-300:]} {r.exception!r}"[:500]))
        else:
            end = img["csf"]["off"] if img["csf"] else len(data)
            want = {"ivt": data[:H.IVT_SIZE], "bdt": data[img["boot_data"]["off"]:img["boot_data"]["off"] + H.BOOT_DATA_SIZE],
                    "dcd": given["dcd"], "xmcd": given["xmcd"], "app": data[pos["app_off"]:end],
                    "csf": data[img["csf"]["off"]:img["csf"]["off"] + CSF_AREA] if img["csf"] else None}
            for name, w in want.items():
                fn = os.path.join(pdir, f"{name}.bin")
                if w is None:
                    if os.path.exists(fn):
                        viol.append(("C07.cli", f"parse-file:{name}", f"{name}.bin written although the image has no {name}"))
                    continue
                if not os.path.exists(fn):
                    viol.append(("C07.cli", f"parse-file:{name}", f"{name}.bin missing"))
                    continue
                g = open(fn, "rb").read()
                if name == "bdt":
                    g = g[:H.BOOT_DATA_SIZE]
                if g != w and not (name in ("dcd", "xmcd") and g == data[pos[name][0]:pos[name][0] + pos[name][1]]):
                    viol.append(("C07.cli", f"parse-file:{name}", f"{name}.bin differs from the image ({_firstdiff(g, w)})"))
        H.OPENSSL_CALLS[0] = 0
        return {"viol": core.dedupe(viol), "count": count, "distinct": [core.short_hash(["cli", case["cli"], case["f"], case["d"], kind, case.get("h", {})])]}
    finally:
        shutil.rmtree(td, ignore_errors=True)


# ---------------------------------------------------------------------------------------------
# calibration of hab_ref on the repository's goldens


def _tests_root() -> str:
    root = os.path.join(core.REPO, "tests")
    return root if os.path.isdir(root) else "/repo/tests"


def _srec_bytes(path: str) -> Optional[bytes]:
    """Minimal S-record reader (S1/S2/S3 data records) -> contiguous image bytes, or None."""
    mem: dict = {}
    try:
        for line in open(path, "r", errors="replace"):
            line = line.strip()
            if len(line) < 4 or line[0] != "S" or line[1] not in "123":
                continue
            al = {"1": 2, "2": 3, "3": 4}[line[1]]
            raw = bytes.fromhex(line[2:])
            addr = int.from_bytes(raw[1:1 + al], "big")
            for i, b in enumerate(raw[1 + al:-1]):
                mem[addr + i] = b
    except (OSError, ValueError):
        return None
    if not mem:
        return None
    lo, hi = min(mem), max(mem)
    return bytes(mem.get(a, 0) for a in range(lo, hi + 1))


def w_golden(path: str) -> dict:
    import glob

    H = _href()
    count: dict = {}
    if path.endswith("_table.bin"):
        # CST-made SRK tables with their fuse files (tests/image/secret/data)
        d = os.path.dirname(path)
        blob = open(path, "rb").read()
        tbl = H.read_srk_table(blob)
        fuse_file = os.path.join(d, "SRK_prime256v1_fuse.bin" if "prime256v1" in path else "SRK_1_2_3_4_fuse.bin")
        if H.srk_fuses(tbl["entries"]) != open(fuse_file, "rb").read():
            return {"golden_rejected": f"{path}: own SRK hash differs from the CST fuse file"}
        count["golden_srk_tables"] = 1
        if os.path.basename(path) == "SRK_1_2_3_4_table.bin":
            ders = [H.der_of_pem(open(os.path.join(d, f"SRK{i}_sha256_4096_65537_v3_ca_crt.pem"), "rb").read()) for i in (1, 2, 3, 4)]
            if H.srk_table_of_certs(ders) != blob:
                return {"golden_rejected": f"{path}: own SRK table encoding of the four certificates differs from the CST table"}
            count["golden_srk_table_encoded"] = 1
        return {"count": count}
    data = open(path, "rb").read()
    try:
        img = H.read_image(data)
    except H.Malformed as e:
        return {"golden_rejected": f"{path}: {e}"}
    count["golden_images"] = 1
    # (images under parse/ come from other tools: an XIP image there declares the whole flash as its length)
    if os.sep + "export" + os.sep in path and img["boot_data"]["length"] not in (
            img["ivt_offset"] + len(data), img["ivt_offset"] + len(data) + DEK_BLOB_AREA):
        return {"golden_rejected": f"{path}: boot data length 0x{img['boot_data']['length']:X} vs image size 0x{len(data):X}"}
    csf = img["csf"]
    if csf is None:
        return {"count": count}
    dek = None
    g = glob.glob(os.path.join(os.path.dirname(path), "gen_hab_encrypt", "*dek.bin"))
    if g:
        dek = open(g[0], "rb").read()
    # the golden PKI does not chain (the SRK tables of the examples were made from other certificates than crts/SRK*),
    # so only the structure, the CMS signatures and the AES-CCM part are calibrated here: the signer certificates are
    # the ones found in the CSF; fast authentication uses the SRK certificate of the example
    crts = os.path.join(os.path.dirname(os.path.dirname(path)), "crts")
    srk1 = os.path.join(crts, "SRK1_sha256_4096_65537_v3_usr_crt.pem")
    anchors = [H.der_of_pem(open(srk1, "rb").read())] * 4 if os.path.exists(srk1) else []
    rom = H.authenticate(data, img, anchors, dek)
    hard = [f for f in rom["fails"] if f[0] in ("csf-signature", "image-signature", "decrypt", "blocks", "order")]
    if hard or not rom["csf_sig_ok"] or not rom["img_sig_ok"]:
        return {"golden_rejected": f"{path}: {hard} csf {rom['csf_sig_ok']} img {rom['img_sig_ok']}"}
    count["golden_cms_verified"] = 2
    if rom["fast_auth"]:
        count["golden_fast_auth"] = 1
    # negative control: the same signatures must not verify over content with one flipped bit
    d2 = bytearray(data)
    d2[1] ^= 0x01  # inside the IVT header length
    d2[csf["off"] + 5] ^= 0x10
    try:
        img2 = H.read_image(bytes(d2))
        rom2 = H.authenticate(bytes(d2), img2, anchors, dek)
        if rom2["csf_sig_ok"] or rom2["img_sig_ok"]:
            return {"golden_rejected": f"{path}: negative control — signatures still verify over modified content"}
    except H.Malformed:
        pass
    count["golden_negative_controls"] = 1
    if dek is not None:
        if rom["plaintext"] is None:
            return {"golden_rejected": f"{path}: AES-CCM decryption with the example's DEK failed"}
        count["golden_decrypted"] = 1
        srecs = glob.glob(os.path.join(os.path.dirname(path), "*.s19")) + glob.glob(os.path.join(os.path.dirname(path), "*.srec"))
        app = _srec_bytes(srecs[0]) if srecs else None
        if app is not None:
            if rom["plaintext"][:len(app)] != app:
                return {"golden_rejected": f"{path}: decrypted blocks differ from the S-record application"}
            count["golden_plaintext_matches_srec"] = 1
    return {"count": count}


def golden_files() -> list:
    import glob

    root = _tests_root()
    out = glob.glob(os.path.join(root, "nxpimage/data/hab/export/*/output.bin"))
    out += glob.glob(os.path.join(root, "nxpimage/data/hab/parse/*/hab_container.bin"))
    out += glob.glob(os.path.join(root, "image/secret/data/SRK_*_table.bin"))
    return sorted(out)


# ---------------------------------------------------------------------------------------------
# enumeration


def classes() -> dict:
    """class key (db ivt offset, db initial load size) -> sorted list of (family, device)."""
    out: dict = {}
    for (fam, dev), key in sorted(_layout_table().items()):
        out.setdefault(key, []).append((fam, dev))
    return out


def enumerate_cases(tier: str) -> dict:
    quick = tier == "quick"
    dims = dims_for(tier)
    cl = classes()
    reps = {key: members[:1] if quick else _spread(members, 3) for key, members in cl.items()}
    fam: dict = {}
    fam["base"] = [{"f": f, "d": d, "k": kind, "h": {}} for (f, d) in sorted(_layout_table()) for kind in KINDS]
    k = 1 if quick else 2
    lat = []
    base_deps = lattice(dims, k)
    seen = {tuple(sorted(d.items())) for d in base_deps}
    for ci, (key, members) in enumerate(sorted(reps.items())):
        deps = list(base_deps)
        seen_c = set(seen)
        groups = [g for g in GROUPS if not (quick and ci > 0 and g in GROUPS_FIRST_CLASS_ONLY_QUICK)]
        for g in group_products(dims, groups):
            gk = tuple(sorted(g.items()))
            if gk not in seen_c:
                seen_c.add(gk)
                deps.append(g)
        for ri, (f, d) in enumerate(members):
            for dep in deps:
                if ri > 0 and len(dep) > 1:
                    continue  # further representatives of a class: <= 1 departure
                for kind in KINDS:
                    if applicable(dep, kind):
                        c = {"f": f, "d": d, "k": kind, "h": dep}
                        if len(dep) <= 1 and kind != "plain" and ri == 0:
                            # quick: base + layout departures on every class, the other structural ones on the first class
                            if not quick or not set(dep) - TAMPER_LAYOUT_DIMS or (ci == 0 and not set(dep) - TAMPER_DIMS_QUICK):
                                c["t"] = 1 if quick else 2
                        lat.append(c)
    fam[f"lat k<={k} + groups"] = lat
    cli = []
    for key, members in sorted(reps.items()):
        f, d = members[0]
        for kind in KINDS:
            for form in ("yaml", "bd"):
                cli.append({"cli": form, "f": f, "d": d, "k": kind, "h": {}})
            if kind != "plain":
                cli.append({"cli": "yaml", "f": f, "d": d, "k": kind, "h": {"pki": "p256"}})
                cli.append({"cli": "bd", "f": f, "d": d, "k": kind, "h": {"cmdset": "set+unlock", "dcd": "2cmd"}})
                if key == min(reps):  # key supply through the command line, on the first class
                    cli.append({"cli": "bd", "f": f, "d": d, "k": kind, "h": {"pki": "p384", "cmdset": "autodetect-cst"}})
                    cli.append({"cli": "yaml", "f": f, "d": d, "k": kind, "h": {"pki": "p521", "cmdset": "autodetect"}})
    fam["cli"] = cli
    return fam


def _spread(members: list, n: int) -> list:
    if len(members) <= n:
        return list(members)
    step = (len(members) - 1) / (n - 1)
    return [members[round(i * step)] for i in range(n)]


def _init_worker() -> None:
    import logging

    logging.disable(logging.CRITICAL)


def run(ctx: core.Ctx) -> None:
    global _SEED
    _SEED = ctx.seed
    import spsdk.apps.nxpimage  # noqa  (imported in the parent so that forked workers share the modules)
    import spsdk.image.hab.hab_container  # noqa
    from vf.ref import hab_ref  # noqa

    _init_worker()
    _hab_index()
    layout = _layout_table()
    # ---- calibration
    gold = golden_files()
    for path, res in ctx.pool_map(w_golden, gold, timeout=120, initfn=_init_worker, chunksize=1, check_det=0):
        if isinstance(res, dict) and res.get("__crash__"):
            raise core.HarnessError(f"calibration crashed on {path}: {res['__crash__']}\n{res.get('tb', '')}")
        if res.get("golden_rejected"):
            raise core.HarnessError(f"hab_ref rejects a golden file of the repository: {res['golden_rejected']}")
        for kname, n in res.get("count", {}).items():
            ctx.count(kname, n)
    ctx.cov["golden_files"] = {"found": len(gold), **{k: v for k, v in ctx.counters.items() if k.startswith("golden_")}}
    if ctx.counters.get("golden_cms_verified", 0) < 2 or ctx.counters.get("golden_srk_tables", 0) < 1:
        raise core.HarnessError("calibration found no golden signed image / SRK table: the reader would be untested")
    fam = enumerate_cases(ctx.tier)
    dims = dims_for(ctx.tier)
    cl = classes()
    ctx.cov["classes"] = {f"ivt=0x{k[0]:X},ils=0x{k[1]:X}": len(v) for k, v in cl.items()}
    ctx.cov["family_device_pairs"] = len(layout)
    ctx.cov["dimensions"] = {n: [("0x%X" % v if isinstance(v, int) and v > 9 else v) for v in vals] for n, vals in dims.items()}
    ctx.cov["groups"] = [list(g) for g in GROUPS]
    ctx.rule = (
        "base: every (family, boot device) pair of the HAB database x {plain, authenticated, encrypted} at the base "
        "configuration; lat: on one representative (thorough: up to three, the further ones with <= 1 departure) of every "
        "layout class (database IVT offset, initial load size): every assignment of the %d dimensions with <= %d departures "
        "from the base x applicable image kinds + the complete products of the groups %s; every authenticated/encrypted "
        "case with <= 1 departure on the first representative (quick: base + single departures in the layout dimensions on every "
        "class, in %s on the first class; one or two bytes per region) additionally runs the region-wise tamper sweep (first / "
        "middle / last byte of IVT, boot data, DCD, XMCD, application, CSF header, every CSF command, certificates, SRK "
        "table, signatures, MAC); cli: nxpimage hab export (YAML and BD) + hab parse per class x kind.  A case is "
        "distinct/non-trivial when the builder accepted it and the independent reader decoded the image; token = (family, "
        "device, kind, departures)." % (len(dims), 1 if ctx.tier == "quick" else 2, [list(g) for g in GROUPS], sorted(TAMPER_DIMS_QUICK)))
    ctx.cov["families"] = {}
    ctx.cov["bounds_completed"] = []
    per_dim: dict = {}
    rejected_samples: list = []
    other_type_samples: list = []
    for name, cases in fam.items():
        if ctx.out_of_budget():
            ctx.cov["families"][name] = {"cases": len(cases), "done": 0, "completed": False}
            continue
        n = acc = rej = oth = skp = 0
        cut = False
        gen = ctx.pool_map(w_case, cases, timeout=300, initfn=_init_worker, chunksize=1 if name == "cli" else 4,
                           check_det=3 if name == "base" else 2)
        for case, res in gen:
            ok = ctx.absorb(case, res)
            n += 1
            if ok:
                if res.get("skipped"):
                    skp += 1
                    outcome = "skipped"
                elif res.get("rejected"):
                    if res.get("other_type"):
                        oth += 1
                        outcome = "error"
                        if len(other_type_samples) < 12:
                            other_type_samples.append({"case": case, "why": res["rejected"]})
                    else:
                        rej += 1
                        outcome = "rejected"
                        if len(rejected_samples) < 16:
                            rejected_samples.append({"case": case, "why": res["rejected"]})
                    if not case.get("h"):
                        # a base configuration must build.  If it builds in a fresh process, the refusal depends on what the
                        # worker process built before (state shared between images): a violation, not a harness problem
                        import multiprocessing as mp

                        with mp.get_context("fork").Pool(1, core._worker_init, (w_case, 300, _init_worker)) as fresh:
                            again = fresh.map(core._worker_call, [case])[0]
                        if isinstance(again, dict) and again.get("count", {}).get("accepted"):
                            ctx.viol("C07.shared-state", "base-config-refused-after-other-builds", case,
                                     f"refused in a worker that had built other images ({res['rejected']}), built in a fresh process")
                        else:
                            raise core.HarnessError(f"base case not built: {case}: {res['rejected']}")
                elif res.get("count", {}).get("accepted"):
                    acc += 1
                    outcome = "accepted"
                else:
                    outcome = "error"
                for d, v in case.get("h", {}).items():
                    t = per_dim.setdefault(d, {}).setdefault(str(v), {"tried": 0, "accepted": 0, "rejected": 0, "error": 0, "skipped": 0})
                    t["tried"] += 1
                    t[outcome] += 1
            if n in (1, len(cases)) or (name.startswith("lat") and n in (2, len(cases) // 2)):
                ctx.sample(case, limit=24)
            if n % 256 == 0 and ctx.time_left() <= 0:
                cut = True
                break
        if cut:
            gen.close()
            ctx.exhaustive = False
        ctx.cov["families"][name] = {"cases": len(cases), "done": n, "accepted": acc, "rejected": rej, "builder_other_exception": oth,
                                     "outside_input_space": skp, "completed": not cut}
        if not cut:
            ctx.cov["bounds_completed"].append(name)
    ctx.cov["per_dimension"] = per_dim
    ctx.cov["rejected_samples"] = rejected_samples
    ctx.cov["builder_other_exception_samples"] = other_type_samples
    ctx.cov["clauses"] = CLAUSES
    ctx.assumptions += [
        "hab_ref.py is the trusted base: written from the HAB4 structure descriptions, calibrated at the start of every run on "
        "the golden HAB images under <repo>/tests/nxpimage/data/hab (structure, both CMS signatures through `openssl cms "
        "-verify`, AES-CCM decryption against the S-record application, a negative control per image) and on the CST-made "
        "SRK tables + fuse files under tests/image/secret/data; a rejected golden is a harness error",
        "fast authentication (Install NOCAK): the CSF carries no Install-CSFK command and Authenticate CSF names key slot 1; "
        "like the golden rt1060_flashloader_authenticated_nocak the replay verifies that signature with the SRK itself",
        "the application is a raw binary with a vector table (stack pointer, odd reset vector inside the image); images whose "
        "application has fewer than 8 bytes, or whose application offset (initial load size - IVT offset) is not in the "
        "parser's documented search list 0x100/0x400/0xC00/0x1000/0x2000, cannot be located by HabContainer.parse (the format "
        "does not store the offset): counted as parse_unsupported, all other clauses still apply",
        "encrypted images: whenever HabContainer.parse returns, the same parse clauses apply as for the other kinds (flags 0xC, IVT "
        "offset, start address, application offset and bytes, re-export, len) plus: nonce / MAC returned by the parser equal the "
        "ones in the CSF, and the parsed application decrypts (own AES-CCM, DEK file) to the application given; while parse raises "
        "on the application search (C07.parse-raises [enc:...get_app_offset]) the other segments are judged through their own "
        "segment parsers (counter parsed_segmentwise)",
        "the image does not store the application length: the parsed application must be the given one followed by zero fill "
        "up to the CSF (authenticated data is padded to 16 bytes)",
        "boot data length = IVT offset + exported bytes (+ 0x200 for the DEK blob of an encrypted image, which the CSF's Install "
        "Secret Key command places directly behind the CSF area)",
        "only consistent key-slot configurations are enumerated (Authenticate Data index = Install Key target, Decrypt index = "
        "Secret Key target, SRK source index < number of SRKs); the certificates used are the ones issued by the selected SRK",
        "a self-chosen nonce may use a longer CCM length field than the minimum for the message (SPSDK sizes it from the whole "
        "image): counted, not a violation; a builder failure with an exception type other than SPSDKError is counted per "
        "type@site (builder_error_type:*), not a violation",
        "CMS signatures are verified, never compared; the signing time is not checked",
        "key type x key supply is a full-product group in both tiers (first class in quick, every class within k=2 in thorough): "
        "tree on RSA-2048 / RSA-4096 / P-256 / P-384 / P-521 x {key files named, auto-detected next to the certificate, auto-detected "
        "in the legacy CST layout crts/ + keys/, sign-provider strings, fast authentication named / auto-detected}; CSF and IMG key "
        "are on the same curve as the SRK (mixed-curve trees are not enumerated). The P-521 tree (one SRK; CSF / IMG keys with a "
        "leading-zero X / Y coordinate) is made at the start of a run in the work directory from the committed P-521 private keys of "
        "fixtures/keys with RFC 6979 signatures, i.e. byte-identical in every run and process",
    ]


def replay(ctx: core.Ctx, rec: dict) -> bool:
    global _SEED
    _SEED = ctx.seed
    _init_worker()
    case = rec["case"]
    res = core.run_with_watchdog(w_case, case, 600)
    if res.get("__watchdog__"):
        print("watchdog: does not terminate")
        return rec["clause"].endswith(".terminates")
    if res.get("rejected"):
        print("builder does not build the case:", res["rejected"])
    if res.get("skipped"):
        print("outside the input space:", res["skipped"])
    hits = [v for v in res["viol"] if v[0] == rec["clause"] and v[1] == rec["disc"]]
    for v in res["viol"]:
        print(("* " if v in hits else "  ") + f"{v[0]} [{v[1]}] {v[2]}")
    return bool(hits)
