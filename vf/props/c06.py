"""C06 - AHAB image: containers verify, images hash / decrypt, offsets never collide.

Bounded exhaustive enumeration of executions of the real builder (schema check -> AHABImage.load_from_config ->
update_fields -> export, then AHABImage.parse -> export / verify) against `vf.ref.ahab_ref` (independent reader and
verifier of the exported bytes).

Case families (each enumerated completely, see enumerate_cases):
  base      every (family, revision, target memory) the database offers x {unsigned, signed(P-256)} at the base
            configuration, with the region-wise tamper sweep
  lat       on one representative per equivalence class of the AHAB database data (quick; thorough: up to three): every
            assignment of DIMS with <= k departures from the base for both kinds (k = 1 quick, 2 thorough), tamper sweep
            on every k <= 1 case (quick: on the k = 1 cases whose dimension changes the authenticated layout, AUTH_DIMS)
  keys      full product SRK key type {P-256/384/521, RSA-2048/3072/4096, leading-zero P-256/384} x DEK blob {absent, present;
            thorough: + present with an encrypted image} x certificate {absent, present (where the family supports it)} on every class
            representative and container version, both tiers, with the tamper sweep
  hist      object histories on one representative per container version (+ certificate), P-256 and RSA-2048 SRK tables, 1 / 2
            containers: build+export [-> parse] -> change sw_version / fuse_version / flags / a load address of the last
            container -> attach the matching signing key (provider, or the `ahab sign` configuration path) ->
            update_fields() [twice] -> export; the new bytes go to the independent reader
  lists     container lists: own `container` entries mixed with binary_container files built by the harness from SPSDK-exported
            containers (1 or 2 containers per file) in every position, every list within the family's container limit (+ the
            lists one over it, counted only), one representative per (container version, limit)
  grid      full product target memory x offset mode x size class x images per container x containers (structural group;
            quick: size classes {13, 1026, 513}, images {1, 3}, containers {1, 2}; thorough: all; offset modes incl. explicit
            offsets that are not ascending inside a container: descending, middle-first, descending + automatic,
            automatic + descending)
  bytes     every byte (quick: one bit per byte; thorough: every bit while the signed part is <= 1 KiB) of the
            authenticated regions of the base signed cases per container version and key type
  cli       nxpimage ahab export / parse / verify through click's CliRunner, one per class and kind
The ROM model is calibrated on the repository's golden AHAB binaries first (w_golden).

Oracle clauses: see CLAUSES.  Besides the export -> parse -> export / verify round trip and the reader's verdict on the bytes,
a refusal of export() that is caused by SPSDK's own verify() is cross-examined: the bytes it would have written go to the
independent reader (valid => C06.verify-built-clean; colliding automatic offsets => C06.auto-offsets-collide).
"""
from __future__ import annotations

import hashlib
import itertools
import json
import os
import re
import shutil
import tempfile
from typing import Any, Optional

from vf import core, fixtures

LEVEL = "exploration"

CLAUSES = {
    "C06.roundtrip-export": "AHABImage.parse(export(x)).export() is not byte-identical to export(x)",
    "C06.roundtrip-equal": "the parsed containers do not compare equal to the built ones",
    "C06.parse-raises": "AHABImage.parse raises on the image SPSDK exported",
    "C06.verify-parsed-clean": "verify() of the parsed image holds an ERROR record although the image is valid (disc = record path)",
    "C06.verify-built-clean": "verify() of the built image holds an ERROR record after a successful export",
    "C06.ref-accepts": "the independent reader finds a problem in the exported bytes (disc = stage)",
    "C06.ref-given": "a field decoded by the independent reader differs from the value given in the configuration (disc = field)",
    "C06.srk-table": "the SRK table in the file differs from the table re-derived from the fixture key numbers",
    "C06.srk-hash": "SRK hash reported by SPSDK (object / fuse script) differs from the hash of the exported SRK table",
    "C06.tamper-undetected": "a single-bit corruption of an authenticated byte, refused by the independent reader, leaves "
                             "AHABImage.parse(...).verify() without ERROR (disc = what let it through)",
    "C06.tamper-ref-accepts": "the independent reader accepts a corrupted authenticated byte (oracle self-check)",
    "C06.auto-offsets-collide": "with every image offset left automatic, update_fields() places images so that they overlap "
                                "each other or a container (export then refuses its own layout)",
    "C06.valid-layout-refused": "export() refuses with 'Image overlapping' although interval arithmetic on the container "
                                "headers SPSDK built shows every image inside no other image and behind the containers "
                                "(disc = Image overlapping:<explicit|automatic>-offsets-disjoint)",
    "C06.history": "after a legal object history (build/export [-> parse] -> change a signed field -> attach the matching "
                   "signing key -> update_fields() [twice] -> export) export() refuses, or the independent reader refuses the new "
                   "bytes, or the changed field is not in them (disc = history:what)",
    "C06.container-list": "a `containers:` list that mixes own containers with binary_container files (1 or 2 SPSDK-exported "
                          "containers each) within the family's container limit does not come out as: every container at "
                          "index * container size, binary containers byte-identical to their source, own containers with their "
                          "images, nothing overlapping (disc = what)",
    "C06.builder-refuses-own-layout": "load_from_config accepted the configuration, but export() (its own verify()) refuses the "
                                      "image because of an ERROR record about a field SPSDK itself computes from the layout "
                                      "(disc = record, normalised; classification: REFUSAL_TABLE)",
    "C06.cli": "nxpimage ahab export / parse / verify disagrees with the API path or the independent reader",
}

MEMORIES = ("standard", "nor", "serial_downloader", "nand_2k", "nand_4k")
KINDS = ("u", "s")
GOLDEN_DEK = bytes(range(16))
U64 = (1 << 64) - 1

SRK_SETS = {
    "p256": ["p256_0", "p256_1", "p256_2", "p256_3"],
    "p384": ["p384_0", "p384_1", "p384_2", "p384_3"],
    "p521": ["p521_0", "p521_1", "p521_x0", "p521_y0"],
    "rsa2048": ["rsa2048_0", "rsa2048_1", "rsa2048_2", "rsa2048_3"],
    "rsa3072": ["rsa3072_0", "rsa3072_1", "rsa3072_2", "rsa3072_3"],
    "rsa4096": ["rsa4096_0", "rsa4096_1", "rsa4096_2", "rsa4096_3"],
    "p256z": ["p256_x0", "p256_y0", "p256_0", "p256_1"],  # leading zero byte in X / Y
    "p384z": ["p384_y0", "p384_x0", "p384_0", "p384_1"],
}
CERT_KEY = {"p256": "p256_x0", "p256z": "p256_2", "p384": "p384_x0", "p384z": "p384_2", "p521": "p521_y0",
            "rsa2048": "rsa2048_4", "rsa3072": "rsa3072_3", "rsa4096": "rsa4096_3"}
SIZES = [1024, 1, 13, 1026, 511, 512, 513, 0]
HASH_CODES = {"sha256": 0, "sha384": 1, "sha512": 2, "sm3": 3, "sha3_256": 4, "sha3_384": 5, "sha3_512": 6,
              "shake_128_output_256": 8, "shake_256_output_512": 9}
HASH_NAMES = {"sha256": "sha256", "sha384": "sha384", "sha512": "sha512", "sha3_256": "sha3_256", "sha3_384": "sha3_384",
              "sha3_512": "sha3_512", "shake_128_output_256": "shake_128/256", "shake_256_output_512": "shake_256/512", "sm3": "sm3"}
GDET = {"disabled": 0, "enabled_eleapi": 1, "enabled": 2}
CERT_PERMS = {"container": 0x01, "debug": 0x02, "secure_fuse": 0x08, "return_life_cycle": 0x10, "patch_fuses": 0x40}

ORDER_MODES = ("descending", "middle-first", "desc-auto", "auto-desc")  # explicit offsets not ascending inside a container

# dimensions that change the layout of the authenticated bytes (k = 2 cases over these get the tamper sweep as well)
AUTH_DIMS = {"nc", "ni", "enc", "srk", "sid", "cert", "cv", "bc", "hash", "sza", "off", "mem", "ca"}

# signed bytes that no attribute of the parsed objects carries (reserved / padding / unused / derived fields)
NOT_CARRIED = {"header.reserved", "image-entry.iv-unused", "sigblock.key-identifier-unused", "sigblock.padding", "srk-record.reserved",
               "srk-record.param-lengths", "srk-array.reserved", "srk-data.reserved", "signature.reserved", "certificate.reserved",
               "certificate.signature.reserved"}

# verifier records that encode rules the independent reader does not model (no judgement when export refuses for them)
UNJUDGED_PATHS = ("Public key checks",)

# Why did export() refuse?  Classification of verifier ERROR records (matched with re.search on the record path with indices
# normalised to N and "(...)" removed, first match wins).
#   computed      the field is produced by SPSDK from the layout (block offsets / alignment / presence, block and container
#                 lengths, header tag / version constants, entry size and hash, serialised key material): an ERROR there on an
#                 object SPSDK has just laid out from an accepted configuration is SPSDK's own fault
#   computed-auto computed only when every image offset was left automatic (otherwise the user's)
#   user          the record is about a value the user supplied (keys, signing key, revoke mask, versions, flags, addresses,
#                 explicit sizes/counts) - a refusal is a legitimate rejection
#   other-clause  judged elsewhere with the reader's help (C06.auto-offsets-collide)
# A record that matches no row is "unknown": the case stays "rejected" and the record is counted by name in the evidence
# (counters refusal:unknown:<record>), e.g. "Image Encryption/Decrypted data", which is used both for "Missing Blob container"
# (user) and for an IV mismatch (computed).
REFUSAL_TABLE = [
    (r"/Header/(Tag|Length|Version)/(Range|Value|Computed length)$", "computed", "header constants and computed block lengths"),
    (r"/Signature Block/(SRK Table|Signature|Certificate|Blob)/(Offset|Block validity|Block)$", "computed",
     "offset / alignment / presence of a signature-block part (SignatureBlock.update_fields)"),
    (r"/Signature Block offset$", "computed", "offset of the signature block behind the image array"),
    (r"/Container offset$", "computed", "container slot derived from its index"),
    (r"/Image array/Image count$", "computed", "image count field vs. the array"),
    (r"/AHAB Image Array Entry[^/]*/Image$", "computed", "size written in the entry vs. the stored image"),
    (r"/AHAB Image Array Entry[^/]*/Image hash$", "computed", "hash SPSDK computed itself"),
    (r"/AHAB Image Array Entry[^/]*/Offset in container$", "computed-auto", "image offset relative to the container"),
    (r"/Serial Downloader mode offset$", "computed", "offsets are always assigned by SPSDK for the serial downloader"),
    (r"/SRK record\[N\]/(SRK Length|Crypto parameter N|SRK Data Crypto parameter N|SRK Data Hash Length|SRK Data Hash)$", "computed",
     "serialisation of the key numbers / SRK data hash"),
    (r"/Public key N/(SRK Length|SRK Data Crypto parameter N|SRK Data Hash Length|SRK Data Hash)$", "computed",
     "certificate key record serialisation"),
    (r"/SRK DataN exists$", "computed", "SRK data of the selected key is attached by SPSDK"),
    (r"/Certificate/Signature offset$", "computed", "offset of the certificate signature"),
    (r"/Image overlapping$", "other-clause", "decided by interval arithmetic on the built container headers: really colliding "
     "explicit offsets are the user's (rejected), colliding automatic ones -> C06.auto-offsets-collide, disjoint ones -> "
     "C06.valid-layout-refused"),
    (r"/Container signing/(Used SRK key ID|Signature|SRK Table & Signature block presence|Signature counts)$", "user",
     "revoke mask / signing key / SRK table supplied by the user"),
    (r"/Signature #N/Signature$", "user", "signing key supplied by the user (container version 2)"),
    (r"/Container N/(Flags|Flags: SRK Set|Flags: SRK Selection|Flags: SRK Revoke mask|SW version|Fuse version|"
     r"Glitch detector runtime behavior|Container authenticity|Image array|Signature block)$", "user", "container options"),
    (r"^(Containers count)$|/Container image count$", "user", "number of containers / images"),
    (r"/AHAB Image Array Entry[^/]*/(Image Size \[B\]|Load address|Entry point)$", "user", "image file size / addresses"),
    (r"/AHAB Image Array Entry[^/]*/(Flags|Metadata)/", "user", "image type, core, hash type, boot flags, meta data"),
    (r"/SRK record\[N\]/(Signing algorithm|Signing hash algorithm|Key size|Flags/Range)$", "user", "follows from the key files"),
    (r"/SRK table/(Count|Signing algorithm|Hash algorithm|Key Size|Length|Flags)$", "user", "mixed / missing SRK keys"),
    (r"/Tables count$", "user", "number of SRK tables"),
    (r"/Certificate/(Permissions|Permission Data|Fuse version|UUID|Public key N)$", "user", "certificate options"),
    (r"/SRK checks/|/Public key checks/", "user", "certificate vs. SRK keys (keys and signing key supplied by the user)"),
    (r"/Blob/Blob/(Key size|Mode|Algorithm|DEK key|Wrapped key)$", "user", "DEK / key blob options"),
    (r"/Key identifier$", "user", "key identifier option"),
]


def classify_refusal(path: str, auto_offsets: bool) -> tuple:
    """-> (class, normalised record name) of a verifier ERROR record path."""
    for rx, cls, _why in REFUSAL_TABLE:
        if re.search(rx, path):
            if cls == "computed-auto":
                cls = "computed" if auto_offsets else "user"
            return cls, short_path(path)
    return "unknown", short_path(path)


# reader stages whose SPSDK counterpart is code shared by both container versions (discriminator without version)
SHARED_STAGES = {"srk-revoked", "overlap", "image-hash", "image-range", "image-decrypt", "image-array", "blob"}

_KEYS: Optional[dict] = None


def keys() -> dict:
    global _KEYS
    if _KEYS is None:
        _KEYS = fixtures.key_index()
    return _KEYS


# ---------------------------------------------------------------------------------------------
# database survey (what the families offer) - executed in the parent, data only


def survey() -> list:
    """[{family, revision, latest, v (container versions), maxc, maxi, cores {label: tag}, types {group: {label: tag}},
    mapping, cert, class}] for every AHAB family x revision."""
    from spsdk.image.ahab.ahab_data import create_chip_config
    from spsdk.image.ahab.ahab_image import AHABImage
    from spsdk.utils.database import DatabaseManager, get_db

    out = []
    for fam in sorted(AHABImage.get_supported_families()):
        dev = DatabaseManager().db.devices.get(fam)
        for rev in dev.revisions.revision_names():
            cc = create_chip_config(fam, rev)
            db = get_db(fam, rev)
            info = {
                "family": fam, "revision": rev, "latest": dev.revisions.get("latest").name == rev,
                "v": [2 if t == 2 else 0 for t in cc.container_types],
                "maxc": cc.containers_max_cnt, "maxi": cc.images_max_cnt,
                "cores": {c.label: c.tag for c in cc.core_ids},
                "types": {g: {t.label: t.tag for t in e} for g, e in cc.image_types.items()},
                "mapping": {g: sorted(v) for g, v in cc.image_types_mapping.items()},
                "min_align": cc.valid_offset_minimal_alignment, "size_align": cc.container_image_size_alignment,
                "empty_hash": cc.allow_empty_hash,
                "cert": "certificate_supported" in db.get_list(DatabaseManager.AHAB, "sub_features", []),
            }
            try:
                fz = db.get_dict(DatabaseManager.AHAB, "fuses", {})
            except Exception:  # noqa
                fz = {}
            info["class"] = core.short_hash([info[k] for k in ("v", "maxc", "maxi", "cores", "types", "mapping", "min_align",
                                                              "size_align", "empty_hash", "cert")] + [core.jdump(fz)])
            out.append(info)
    return out


def base_core(info: dict) -> str:
    """First application core of the family (cortex-m33 where it exists)."""
    special = set()
    for g, tags in info["mapping"].items():
        special.update(tags)
    cands = [lbl for lbl, tag in sorted(info["cores"].items(), key=lambda kv: kv[1]) if tag not in special and tag != 0]
    return "cortex-m33" if "cortex-m33" in cands else cands[0]


def type_group(info: dict, core_label: str) -> str:
    tag = info["cores"][core_label]
    grp = "application"
    for g, tags in info["mapping"].items():
        if tag in tags:
            grp = g
    return grp


def dims_for(info: dict, kind: str) -> dict:
    """Ordered option dimensions (first value = base) for one family/revision and kind."""
    v2 = info["v"][0] == 2
    bc = base_core(info)
    d: dict = {
        "mem": list(MEMORIES),
        "nc": [1, 2, 3, 4],
        "ni": [1, 2, 3, 8, 9],
        "sz": list(SIZES),
        "off": ["auto", "explicit", "mixed", "low", "unaligned", "descending", "middle-first", "desc-auto", "auto-desc",
                "overlap", "in-container"],
        "core": [bc] + [c for c in sorted(info["cores"]) if c != bc],
        "type": ["executable"] + sorted({t for g in info["types"].values() for t in g} - {"executable"}),
        "hash": ["sha256", "sha384", "sha512"] + (["sha3_256", "sha3_384", "sha3_512", "shake_128_output_256",
                                                            "shake_256_output_512"] if v2 else []),
        "bf": [0, 1, 0x7FFF, 0x8000],
        "meta": ["0/0/0", "1023/0/0", "0/1023/0", "0/0/255", "1023/1023/255", "1024/0/0", "0/0/256"],
        "addr": ["1000", "0", "max", "2^32", "split"],
        "fv": [0, 1, 255, 256],
        "sv": [0, 1, 65535, 65536],
        "gdet": ["disabled", "enabled_eleapi", "enabled"],
        "gap": [0, 1024, 1],
        "sza": [0, 64, 4096],
        "enc": ["no", "blob", "enc128", "enc192", "enc256", "enc-noblob", "enc-all"],
        "kid": [0, 0x12345678, 0xFFFFFFFF],
    }
    if v2:
        d["cas"] = ["default", "check_all_signatures"]
    if len(info["v"]) > 1:
        d["cv"] = [info["v"][0], info["v"][1]]
    if not v2 and os.path.exists(fake_ele_path()):
        d["bc"] = ["no", "ele"]
    if kind == "s":
        d["srk"] = ["p256", "p384", "p521", "rsa2048", "rsa3072", "rsa4096", "p256z", "p384z"]
        d["sid"] = [0, 1, 2, 3]
        d["rev"] = [0, 1, 2, 0xE, 0xF, 0x10]
        d["ca"] = [0, 1]
        d["sk"] = ["match", "provider", "other-id"]
        if info["cert"]:
            d["cert"] = ["no", "container", "container+uuid", "debug", "all-perms", "wrong-signer"]
    return d


def fake_ele_path() -> str:
    return os.path.join(core.REPO, "tests", "nxpimage", "data", "ahab", "rt1189_fake_ele_fw.bin")


def lattice(dims: dict, k: int, exact: bool = False) -> list:
    names = list(dims)
    out: list = [] if exact else [{}]
    for r in range(k if exact else 1, k + 1):
        for combo in itertools.combinations(names, r):
            for vals in itertools.product(*[dims[n][1:] for n in combo]):
                out.append(dict(zip(combo, vals)))
    return out


# ---------------------------------------------------------------------------------------------
# configuration of a case


def resolve(case: dict) -> dict:
    info = case["i"]
    dims = dims_for(info, case["k"])
    p = {n: vals[0] for n, vals in dims.items()}
    for n in ("srk", "sid", "rev", "ca", "sk", "cert", "cas", "cv", "bc"):
        p.setdefault(n, {"srk": "p256", "sid": 0, "rev": 0, "ca": 0, "sk": "match", "cert": "no", "cas": "default",
                         "cv": info["v"][0], "bc": "no"}[n])
    p.update(case.get("d", {}))
    p["kind"] = case["k"]
    p["family"], p["revision"] = info["family"], info["revision"]
    p["version"] = p["cv"]
    return p


def image_data(seed: int, ci: int, ii: int, n: int) -> bytes:
    return core.seeded_bytes(seed, f"c06|{ci}|{ii}|{n}", n)


def dek_bytes(seed: int, ci: int, bits: int) -> bytes:
    return core.seeded_bytes(seed, f"c06-dek|{ci}", bits // 8)


def image_size(p: dict, ci: int, ii: int) -> int:
    start = SIZES.index(p["sz"]) if p["sz"] in SIZES else 0
    if ci == 0 and ii == 0:
        return p["sz"]
    return SIZES[(start + ci * 3 + ii) % (len(SIZES) - 1)]  # later images never take the empty class


def explicit_offset(p: dict, ci: int, ii: int, nc_total: int) -> int:
    """Absolute offset (from the start of the image set) given in the configuration; 0 = automatic."""
    mode = p["off"]
    slot = 0x4000 if p["version"] == 2 else 0x400
    start = 0xC000 if p["version"] == 2 else 0x2000
    idx = ci * 9 + ii
    if mode == "auto":
        return 0
    if mode == "explicit":
        return start + idx * 0x2000
    if mode == "mixed":
        return start + idx * 0x2000 if ii % 2 == 0 else 0
    # explicit offsets that are NOT ascending inside a container (the image array stays in configuration order)
    ni = p["ni"]
    if mode == "descending":
        return start + (ci * 9 + (ni - 1 - ii)) * 0x2000
    if mode == "middle-first":  # array order = slots 1, 2, ..., ni-1, 0: the furthest image is neither first nor last
        pos = (ii + 1) % ni
        return start + (ci * 9 + pos) * 0x2000
    if mode == "desc-auto":  # descending explicit offsets, the last image automatic (it follows the previous, lowest one)
        if ii == ni - 1 and ni > 1:
            return 0
        return start + (ci * 9 + (ni - 1 - ii)) * 0x2000
    if mode == "auto-desc":  # first image automatic, the others explicit in descending order behind it
        if ii == 0 and ni > 1:
            return 0
        return start + (ci * 9 + (ni - ii)) * 0x2000 + (0x2000 if ci == 0 else 0)
    if mode == "low":
        low = (nc_total * slot + 0xFFF) // 0x1000 * 0x1000
        return low + idx * 0x2000
    if mode == "unaligned":
        return start + idx * 0x2000 + 0x10
    if mode == "overlap":
        if idx == 0:
            return start
        return start + (idx - 1) * 0x2000 + 0x100  # image idx starts inside image idx-1 (every image has >= 512 bytes)
    if mode == "in-container":
        return 0x10 + idx * 0x2000
    raise core.HarnessError(f"offset mode {mode}")


def meta_of(txt: str) -> tuple:
    a, b, c = (int(x) for x in txt.split("/"))
    return a, b, c


def addr_of(txt: str) -> tuple:
    return {"1000": (0x1000, 0x1000), "0": (0, 0), "max": (U64, U64), "2^32": (1 << 32, 1 << 32),
            "split": (0x20000000, 0x20000401)}[txt]


def build_config(p: dict, seed: int, td: str) -> tuple:
    """-> (config dict, given description).  Image files / certificate configs are written under td."""
    info_mem = p["mem"]
    cfg: dict = {"family": p["family"], "revision": p["revision"], "target_memory": info_mem,
                 "output": os.path.join(td, "out.bin"), "containers": []}
    if "cv" in p and p.get("_cv_dim"):
        cfg["container_version"] = 2 if p["cv"] == 2 else 1
    given: dict = {"containers": [], "prefix": 0}
    signed = p["kind"] == "s"
    if p["bc"] == "ele":
        cfg["containers"].append({"binary_container": {"path": fake_ele_path()}})
        given["prefix"] = 1
    nc = p["nc"]
    load, entry = addr_of(p["addr"])
    m0, m1, m2 = meta_of(p["meta"])
    for ci in range(nc):
        images = []
        gimgs = []
        for ii in range(p["ni"]):
            n = image_size(p, ci, ii)
            data = image_data(seed, ci, ii, n)
            path = os.path.join(td, f"img_{ci}_{ii}.bin")
            with open(path, "wb") as f:
                f.write(data)
            enc = (p["enc"] in ("enc128", "enc192", "enc256", "enc-noblob") and ii == 0) or p["enc"] == "enc-all"
            off = 0 if info_mem == "serial_downloader" and False else explicit_offset(p, ci + given["prefix"], ii, nc + given["prefix"])
            img: dict = {"image_path": path, "image_offset": off, "load_address": load, "entry_point": entry,
                         "image_type": p["type"], "core_id": p["core"], "is_encrypted": enc, "hash_type": p["hash"]}
            if p["bf"]:
                img["boot_flags"] = p["bf"]
            if (m0, m1, m2) != (0, 0, 0):
                img.update({"meta_data_start_cpu_id": m0, "meta_data_mu_cpu_id": m1, "meta_data_start_partition_id": m2})
            if p["gap"]:
                img["gap_after_image"] = p["gap"]
            if p["sza"]:
                img["image_size_alignment"] = p["sza"]
            images.append(img)
            gimgs.append({"data": data, "offset": off, "load": load, "entry": entry, "type": p["type"], "core": p["core"],
                          "hash": p["hash"], "enc": enc, "bf": p["bf"], "meta": m0 | (m1 << 10) | (m2 << 20)})
        cont: dict = {"srk_set": "oem" if signed else "none", "fuse_version": p["fv"], "sw_version": p["sv"], "images": images}
        g: dict = {"images": gimgs, "srk_set": "oem" if signed else "none", "fv": p["fv"], "sv": p["sv"], "sid": 0, "rev": 0,
                   "gdet": p["gdet"], "cas": p.get("cas", "default"), "dek": None}
        if p["gdet"] != "disabled":
            cont["gdet_runtime_behavior"] = p["gdet"]
        if p.get("cas", "default") != "default":
            cont["check_all_signatures"] = p["cas"]
        if signed:
            names = SRK_SETS[p["srk"]]
            cont["used_srk_id"] = p["sid"]
            cont["srk_revoke_mask"] = p["rev"]
            g["sid"], g["rev"] = p["sid"], p["rev"]
            cont["srk_table"] = {"srk_array": [fixtures.key_path(n, private=False) for n in names]}
            if p["ca"]:
                cont["srk_table"]["flag_ca"] = True
            g["srk_keys"] = names
            g["ca"] = p["ca"]
            sign_name = names[p["sid"]]
            if p["sk"] == "other-id":
                sign_name = names[(p["sid"] + 1) % 4]
            if p["cert"] != "no":
                ck = CERT_KEY[p["srk"]]
                perms = {"container": ["container"], "container+uuid": ["container"], "debug": ["debug"],
                         "all-perms": sorted(CERT_PERMS), "wrong-signer": ["container"]}[p["cert"]]
                ccfg: dict = {"family": p["family"], "revision": p["revision"], "permissions": perms,
                              "public_key_0": fixtures.key_path(ck, private=False),
                              "signing_key_0": fixtures.key_path(names[(p["sid"] + (1 if p["cert"] == "wrong-signer" else 0)) % 4])}
                gc: dict = {"perm": 0, "uuid": bytes(16), "fv": 0, "pdata": bytes(12), "key": ck}
                for pm in perms:
                    gc["perm"] |= CERT_PERMS[pm]
                if p["cert"] in ("container+uuid", "all-perms"):
                    uuid = core.seeded_bytes(seed, "c06-uuid", 16)
                    ccfg["uuid"] = "0x" + uuid.hex()
                    ccfg["fuse_version"] = 7
                    ccfg["permission_data"] = "0x" + bytes(range(1, 13)).hex()
                    gc.update({"uuid": uuid, "fv": 7, "pdata": bytes(range(1, 13))})
                cpath = os.path.join(td, f"cert_{ci}.json")
                with open(cpath, "w") as f:
                    json.dump(ccfg, f)
                cont["certificate"] = cpath
                g["cert"] = gc
                if gc["perm"] & 1:
                    sign_name = ck
            g["sign_key"] = sign_name
            if p["sk"] == "provider":
                cont["signature_provider"] = "type=file;file_path=" + fixtures.key_path(sign_name)
            else:
                cont["signing_key"] = fixtures.key_path(sign_name)
        if p["enc"] != "no" and p["enc"] != "enc-noblob":
            bits = {"blob": 128, "enc128": 128, "enc192": 192, "enc256": 256, "enc-all": 128}[p["enc"]]
            dek = dek_bytes(seed, ci, bits)
            cont["blob"] = {"dek_key_size": bits, "dek_key": dek.hex(), "key_identifier": p["kid"]}
            g["dek"] = dek
            g["blob"] = {"bits": bits, "kid": p["kid"]}
        cfg["containers"].append({"container": cont})
        given["containers"].append(g)
    return cfg, given


# ---------------------------------------------------------------------------------------------
# running SPSDK


class Rejected(Exception):
    def __init__(self, msg: str, stage: str = "", img: Any = None, paths: Optional[list] = None):
        super().__init__(msg)
        self.stage = stage
        self.img = img
        self.paths = paths or []


class WrongType(Exception):
    def __init__(self, where: str, exc: BaseException):
        super().__init__(f"{where}: {type(exc).__name__}: {exc}")
        self.where = where
        self.exc = exc


def _site(exc: BaseException) -> str:
    tb = exc.__traceback__
    name = "?"
    while tb is not None:
        fn = tb.tb_frame.f_code.co_filename
        if os.sep + "spsdk" + os.sep in fn:
            name = os.path.basename(fn)[:-3] + "." + tb.tb_frame.f_code.co_name
        tb = tb.tb_next
    return name


_SCHEMAS: dict = {}


def schemas(family: str, revision: str) -> tuple:
    from spsdk.image.ahab.ahab_image import AHABImage

    key = (family, revision)
    if key not in _SCHEMAS:
        _SCHEMAS[key] = (AHABImage.get_validation_schemas_family(), AHABImage.get_validation_schemas(family, revision))
    return _SCHEMAS[key]


def spsdk_build(cfg: dict, td: str):
    """Schema check + load_from_config + update_fields + export, as `nxpimage ahab export` does."""
    import copy

    from spsdk.exceptions import SPSDKError, SPSDKVerificationError
    from spsdk.image.ahab.ahab_image import AHABImage
    from spsdk.utils.schema_validator import check_config

    where = "check_config"
    img = None
    try:
        s_fam, s_all = schemas(cfg["family"], cfg["revision"])
        check_config(cfg, copy.deepcopy(s_fam))
        check_config(cfg, copy.deepcopy(s_all), search_paths=[td])
        where = "load_from_config"
        img = AHABImage.load_from_config(copy.deepcopy(cfg), search_paths=[td])
        where = "update_fields"
        img.update_fields()
        where = "export"
        data = img.export()
    except SPSDKVerificationError as e:
        paths = []
        if where == "export" and img is not None:
            try:
                paths = error_paths(img.verify())
            except Exception:  # noqa
                paths = []
        raise Rejected(f"{where}: {type(e).__name__}: {paths[:3] or str(e)[:300]}", where, img, paths)
    except SPSDKError as e:
        raise Rejected(f"{where}: {type(e).__name__}: {str(e)[:300]}", where)
    except (core.Watchdog, core.HarnessError):
        raise
    except Exception as e:  # noqa
        raise WrongType(where, e)
    return img, bytes(data)


def spsdk_parse(family: str, revision: str, mem: str, data: bytes):
    from spsdk.image.ahab.ahab_image import AHABImage

    img = AHABImage(family=family, revision=revision, target_memory=mem)
    img.parse(data)
    return img


def error_paths(ver, prefix: str = "") -> list:
    """Paths (names, indices removed) of ERROR records of a Verifier tree."""
    from spsdk.utils.verifier import Verifier, VerifierResult

    out = []
    for rec in ver.records:
        name = re.sub(r"\d+", "N", re.sub(r"\(.*\)", "", rec.name)).strip()
        if isinstance(rec, Verifier):
            out += error_paths(rec, prefix + name + "/")
        elif rec.result == VerifierResult.ERROR:
            out.append(prefix + name)
    return out


def short_path(path: str) -> str:
    """Last two components of a verifier record path (discriminator)."""
    return "/".join(path.split("/")[-2:])


def set_deks(img, deks: list, prefix: int = 0) -> None:
    for ci, cnt in enumerate(img.ahab_containers):
        j = ci - prefix
        dek = deks[j] if 0 <= j < len(deks) else None
        if dek is not None and cnt.signature_block is not None and cnt.signature_block.blob is not None:
            cnt.signature_block.blob.dek = dek


# ---------------------------------------------------------------------------------------------
# oracle: what was given vs. what the independent reader decodes


def pad_to(data: bytes, a: int) -> bytes:
    return data + bytes(-len(data) % a) if a > 1 else data


def compare_given(p: dict, info: dict, given: dict, r: dict, viol: list) -> None:
    from vf.ref import ahab_ref

    v2 = p["version"] == 2
    pre = given["prefix"]
    conts = r["containers"]
    if len(conts) != len(given["containers"]) + pre:
        viol.append(("C06.ref-given", "container-count", f"{len(given['containers']) + pre} containers given, {len(conts)} found in the file"))
        return
    if r.get("version") != p["version"]:
        viol.append(("C06.ref-given", "container-version", f"container version {r.get('version')}, expected {p['version']}"))
    for ci, g in enumerate(given["containers"]):
        c = conts[ci + pre]
        exp_flags = {"none": 0, "oem": 2}[g["srk_set"]] | (g["sid"] << 4) | (g["rev"] << 8)
        if v2:
            exp_flags |= (1 << 15) if g["cas"] != "default" else 0
        exp_flags |= GDET[g["gdet"]] << 20
        if c["flags"] != exp_flags:
            diff = c["flags"] ^ exp_flags
            name = ("gdet" if diff & 0x300000 and g["gdet"] != "disabled" else "check-all-signatures" if g["cas"] != "default"
                    else "srk")
            viol.append(("C06.ref-given", f"container-flags:{name}", f"container {ci}: flags {c['flags']:#x}, given {exp_flags:#x}"))
        for f, gv in (("sw_version", g["sv"]), ("fuse_version", g["fv"]), ("nimages", len(g["images"]))):
            if c[f] != gv:
                viol.append(("C06.ref-given", f, f"container {ci}: {f} {c[f]}, given {gv}"))
        for ii, gi in enumerate(g["images"]):
            if ii >= len(c["images"]):
                break
            e = c["images"][ii]
            grp = type_group(info, gi["core"])
            exp = {"load": gi["load"], "entry": gi["entry"], "core": info["cores"][gi["core"]],
                   "type": info["types"][grp][gi["type"]], "hash_code": HASH_CODES[gi["hash"]], "encrypted": gi["enc"],
                   "boot_flags": gi["bf"] & 0x7FFF, "meta": gi["meta"] & 0xFFFFFFFF}
            for f, gv in exp.items():
                if e[f] != gv:
                    viol.append(("C06.ref-given", f"image:{f}", f"container {ci} image {ii}: {f} {e[f]!r}, given {gv!r}"))
            if gi["offset"] and p["mem"] != "serial_downloader" and e["start"] != gi["offset"]:
                viol.append(("C06.ref-given", "image:explicit-offset", f"container {ci} image {ii}: placed at {e['start']:#x}, "
                             f"configuration says {gi['offset']:#x}"))
            # content: the given bytes, zero padded up to the size written in the entry
            want = gi["data"]
            if e["end"] <= r["file_len"]:
                got = r["data"][e["start"]:e["end"]]
                if gi["enc"]:
                    got = e.get("plain")
                    if any(st == "image-decrypt" and m.startswith(f"container {ci + pre}: image {ii}:") for st, m in r["problems"]):
                        got = None  # already reported by the reader (C06.ref-accepts [image-decrypt])
                if got is not None:
                    if len(got) < len(want) or got[:len(want)] != want or any(got[len(want):]):
                        viol.append(("C06.ref-given", "image:content" + (":decrypted" if gi["enc"] else ""),
                                     f"container {ci} image {ii}: the {len(got)} bytes the entry points at are not the "
                                     f"{len(want)} given bytes + zero padding"))
        if g["srk_set"] == "oem":
            kx = keys()
            want_tab = ahab_ref.srk_table_bytes([kx[n] for n in g["srk_keys"]], 0x80 if g["ca"] else 0, v2)
            tabs = c.get("srk_tables") or []
            if not tabs or tabs[0].get("bytes") != want_tab:
                viol.append(("C06.srk-table", "v2" if v2 else "v0", f"container {ci}: SRK table bytes differ from the table "
                             f"derived from the fixture numbers of {g['srk_keys']}"))
            if v2 and c.get("srk_data"):
                if c["srk_data"][0]["bytes"] != ahab_ref.srk_data_bytes(kx[g["srk_keys"][g["sid"]]], g["sid"]):
                    viol.append(("C06.srk-table", "v2:srk-data", f"container {ci}: SRK data differs from the selected fixture key"))
            gc = g.get("cert")
            cert = c.get("certificate")
            if gc and cert:
                for f, gv in (("permissions", gc["perm"]), ("uuid", gc["uuid"]), ("fuse_version", gc["fv"]), ("permission_data", gc["pdata"])):
                    if cert[f] != gv:
                        viol.append(("C06.ref-given", f"certificate:{f}", f"container {ci}: certificate {f} {cert[f]!r}, given {gv!r}"))
                k0 = cert.get("key0", {}).get("key") or {}
                kk = kx[gc["key"]]
                nums = (int(kk["x"], 16), int(kk["y"], 16)) if kk["type"] == "ecc" else (int(kk["n"], 16), kk["e"])
                if (k0.get("x", k0.get("n")), k0.get("y", k0.get("e"))) != nums:
                    viol.append(("C06.ref-given", "certificate:key", f"container {ci}: certificate key is not {gc['key']}"))
            elif bool(gc) != bool(cert):
                viol.append(("C06.ref-given", "certificate:presence", f"container {ci}: certificate given {bool(gc)}, in file {bool(cert)}"))
        gb = g.get("blob")
        blob = c.get("blob")
        if bool(gb) != bool(blob):
            viol.append(("C06.ref-given", "blob:presence", f"container {ci}: blob given {bool(gb)}, in file {bool(blob)}"))
        elif gb and blob:
            if blob["key_bytes"] * 8 != gb["bits"]:
                viol.append(("C06.ref-given", "blob:key-size", f"container {ci}: blob key size {blob['key_bytes'] * 8}, given {gb['bits']}"))
            if c["sigblock"]["key_id"] != gb["kid"]:
                viol.append(("C06.ref-given", "blob:key-identifier", f"container {ci}: key identifier {c['sigblock']['key_id']:#x}, given {gb['kid']:#x}"))


def cert_equal(a, b) -> bool:
    def norm(c):
        return (c.tag, c.length, c.version, c._permissions, bytes(c.permission_data or b"").ljust(12, b"\0"), bytes(c._uuid or b"").ljust(16, b"\0"),
                c.signature_offset, c.fuse_version)

    return (norm(a) == norm(b) and a.public_key_0 == b.public_key_0 and a.signature_0 == b.signature_0
            and a.public_key_1 == b.public_key_1 and a.signature_1 == b.signature_1)


def fuse_words(script: str) -> list:
    return [int(x, 16) for x in re.findall(r"OTP ID: [^,\n]+, Value: (0x[0-9a-fA-F]+)", script)]


def check_srk_hash(img, r: dict, pre: int, viol: list, count: dict) -> None:
    for ci, cnt in enumerate(img.ahab_containers):
        if ci < pre or ci >= len(r["containers"]):
            continue
        c = r["containers"][ci]
        hashes = c.get("srk_hashes") or []
        for t, hv in enumerate(hashes):
            got = cnt.get_srk_hash(t)
            if got != hv:
                viol.append(("C06.srk-hash", "object", f"container {ci}: get_srk_hash({t}) = {got.hex()}, hash of the exported table = {hv.hex()}"))
        if hashes and c["version"] == 0:
            try:
                words = fuse_words(cnt.create_srk_hash_fuses_script())
            except Exception as e:  # noqa
                count["obs:fuse-script:" + type(e).__name__] = 1
                continue
            want = [int.from_bytes(hashes[0][i:i + 4], "little") for i in range(0, len(hashes[0]), 4)]
            if len(words) == len(want):
                count["fuse_scripts_compared"] = count.get("fuse_scripts_compared", 0) + 1
                if words != want:
                    viol.append(("C06.srk-hash", "fuse-script", f"container {ci}: fuse words {[hex(w) for w in words]} != {[hex(w) for w in want]}"))
            else:
                count["obs:fuse-script-words-%d" % len(words)] = 1


# ---------------------------------------------------------------------------------------------
# tamper sweep


def flip_positions(a: int, b: int, mode: int) -> list:
    """mode 1: first / middle / last byte; 2: every byte, one bit; 3: every bit."""
    if mode >= 3:
        return [(o, bit) for o in range(a, b) for bit in range(8)]
    if mode == 2:
        return [(o, (o * 5 + 3) % 8) for o in range(a, b)]
    pos = sorted({a, (a + b - 1) // 2, b - 1})
    return [(o, (o * 5 + 3) % 8) for o in pos]


def region_class(name: str) -> str:
    return re.sub(r"^c\d+-", "", re.sub(r"image\d+", "image", name))


def tamper_sweep(p: dict, data: bytes, r: dict, deks: list, mode: int, viol: list, count: dict, part: Optional[list],
                 only: Optional[tuple] = None, pre: int = 0) -> None:
    from spsdk.exceptions import SPSDKError

    from vf.ref import ahab_ref

    trials = []
    for name, a, b in r["regions"]:
        rc = region_class(name)
        if only and rc not in only:
            continue
        m = mode if rc != "image" else min(mode, 1)
        if rc == "sigdata" or rc == "certsig":
            m = min(mode, 2)
        for o, bit in flip_positions(a, b, m):
            trials.append((name, rc, o, bit))
    if part is not None:
        trials = trials[part[0]::part[1]]
    ref_deks = [None] * pre + list(deks)
    for name, rc, o, bit in trials:
        d2 = bytearray(data)
        d2[o] ^= 1 << bit
        d2 = bytes(d2)
        count["tamper_trials"] = count.get("tamper_trials", 0) + 1
        r2 = ahab_ref.examine(d2, ref_deks, crypto="lib")
        if r2["containers"] and len(r2["containers"]) < len(r["containers"]):
            # tag / version byte of a later container: the container is no longer recognisable as one, and nothing in the
            # file says how many containers there should be - not judged (counted)
            count["obs:tamper-container-vanishes"] = count.get("obs:tamper-container-vanishes", 0) + 1
            continue
        if any(c2["srk_set"] == "none" and c1["srk_set"] != "none" for c1, c2 in zip(r["containers"], r2["containers"])):
            # the flipped bit is the one that says "this container is signed": what remains is a well-formed unsigned
            # container, and only the device's life cycle decides whether that boots - not judged (counted)
            count["obs:tamper-srk-set-cleared"] = count.get("obs:tamper-srk-set-cleared", 0) + 1
            continue
        ok = bool(r2["containers"]) and not r2["problems"]
        why = r2["problems"][0] if r2["problems"] else ("header", "no container")
        if ok:
            viol.append(("C06.tamper-ref-accepts", f"v{p['version']}:{rc}", f"{name}@{o:#x}.{bit}: the independent reader still accepts the file"))
            continue
        try:
            img2 = spsdk_parse(p["family"], p["revision"], p["mem"], d2)
            set_deks(img2, deks, pre)
            ver = img2.verify()
            outcome = "error" if ver.has_errors else "clean"
        except SPSDKError:
            outcome = "raised"
        except (core.Watchdog, core.HarnessError):
            raise
        except Exception as e:  # noqa
            outcome = "raised"
            k = "obs:tamper-error-type:" + type(e).__name__ + "@" + _site(e)
            count[k] = count.get(k, 0) + 1
        count["tamper_" + outcome] = count.get("tamper_" + outcome, 0) + 1
        if outcome == "clean":
            # what let it through: did the parser drop the change (re-serialised signed data) or keep it?
            try:
                same = bytes(img2.export()) == d2
            except Exception:  # noqa
                same = None
            if rc == "image":
                how = "image-hash-not-checked"
            elif same is False:
                how = "field-dropped-by-parser"
            else:
                how = "signature-check"
            fld = ahab_ref.field_at(r, o)
            if how == "field-dropped-by-parser" and fld in NOT_CARRIED:
                # one root cause: the parser does not keep these bytes and the signature is checked over the re-serialised
                # object, so they are outside what SPSDK authenticates (the fields hit are counted per name)
                disc = "signed-bytes-reserialised"
                count["uncarried_field:" + fld] = count.get("uncarried_field:" + fld, 0) + 1
            else:
                disc = f"v{p['version']}:{rc}:{how}:{fld}"
            viol.append(("C06.tamper-undetected", disc,
                         f"{name}@{o:#x} bit {bit} ({fld}): parse + verify() report no error; the independent reader refuses: {why}"))


def judge_refusal(e: "Rejected", p: dict, out: dict) -> None:
    """export() refused because of SPSDK's own verify(): whose fault is it?  Adds violations / counters to `out`."""
    from vf.ref import ahab_ref

    if e.stage != "export" or not e.paths:
        return
    auto = p["off"] == "auto" or p["mem"] == "serial_downloader"
    if e.img is not None and any(q.endswith("/Image overlapping") for q in e.paths):
        # do the images really collide?  own interval arithmetic on the container headers SPSDK built (independent of
        # AHABImage.__len__ / image_info(), which is what the overlap record is computed from)
        try:
            lay = ahab_ref.layout_problems([bytes(c.export()) for c in e.img.ahab_containers])
            if lay is None:
                out["count"]["obs:layout-headers-unreadable"] = 1
            elif not lay:
                out["viol"].append(("C06.valid-layout-refused", "Image overlapping:%s-offsets-disjoint" % ("automatic" if auto else "explicit"),
                                    f"export() refuses with {e.paths[:2]}, but no image interval of the built container headers "
                                    f"touches another image or a container (offset mode {p['off']})"))
            else:
                out["count"]["overlap_refusal_confirmed_by_intervals"] = 1
        except (core.Watchdog, core.HarnessError):
            raise
        except Exception as e3:  # noqa
            out["count"]["obs:layout-check-failed:" + type(e3).__name__] = 1
    # REFUSAL_TABLE
    classes = [classify_refusal(q, auto) for q in e.paths]
    for cls, name in sorted(set(classes)):
        out["count"][f"refusal:{cls}:{name}"] = 1
    computed = sorted({name for cls, name in classes if cls == "computed"})
    if computed and not any(cls == "user" for cls, _ in classes) and not any(v[0] == "C06.verify-built-clean" for v in out["viol"]):
        out["viol"].append(("C06.builder-refuses-own-layout", computed[0],
                            f"load_from_config accepted the configuration, export() refuses its own layout: "
                            f"{[q for q in e.paths if classify_refusal(q, auto)[0] == 'computed'][:3]}"))


# ---------------------------------------------------------------------------------------------
# one case


def run_case(case: dict, seed: int) -> dict:
    from spsdk.exceptions import SPSDKError

    from vf.ref import ahab_ref

    viol: list = []
    count: dict = {}
    distinct: list = []
    info = case["i"]
    p = resolve(case)
    p["_cv_dim"] = "cv" in case.get("d", {})
    td = tempfile.mkdtemp(prefix="vf-c06-", dir=os.environ.get("VERIF_WORKDIR") or None)
    try:
        cfg, given = build_config(p, seed, td)
        try:
            img, data = spsdk_build(cfg, td)
        except Rejected as e:
            out = {"viol": [], "count": {"rejected": 1}, "distinct": [], "rejected": str(e).replace(td, "<td>")[:300]}
            if e.stage == "export" and e.img is not None and e.paths and any(u in q for q in e.paths for u in UNJUDGED_PATHS):
                out["count"]["rejected_rule_not_modelled"] = 1  # e.g. certificate key record vs. SRK record consistency
            elif e.stage == "export" and e.img is not None and e.paths:
                # export() refused because SPSDK's own verifier reports an ERROR: is the image it would have written valid?
                try:
                    raw = bytes(e.img.image_info().export())
                    r0 = ahab_ref.examine(raw, [None] * given["prefix"] + [g["dek"] for g in given["containers"]], crypto="lib")
                    r0["data"], r0["file_len"] = raw, len(raw)
                    v0: list = []
                    compare_given(p, info, given, r0, v0)
                    if r0["containers"] and not r0["problems"] and not v0:
                        out["viol"].append(("C06.verify-built-clean", short_path(e.paths[0]), f"export() refuses the image because verify() reports "
                                            f"{e.paths[:3]}, but the independent reader finds the {len(raw)} bytes it would write valid"))
                        out["count"]["rejected_although_valid"] = 1
                    else:
                        out["count"]["rejected_confirmed_by_reader"] = 1
                        if p["off"] == "auto" and any(st == "overlap" and " image " in m for st, m in r0["problems"]):
                            # every offset was left to AHABImage.update_fields: a collision is SPSDK's own placement
                            out["viol"].append(("C06.auto-offsets-collide", f"v{p['version']}:{p['mem']}",
                                                f"automatic placement: {[m for st, m in r0['problems'] if st == 'overlap'][:2]}"))
                except (core.Watchdog, core.HarnessError):
                    raise
                except Exception as e2:  # noqa
                    out["count"]["obs:bypass-export-failed:" + type(e2).__name__] = 1
            judge_refusal(e, p, out)
            return out
        except WrongType as e:
            k = f"obs:build-error-type:{type(e.exc).__name__}@{_site(e.exc)}"
            return {"viol": [], "count": {"builder_error": 1, k: 1}, "distinct": [], "builder_error": str(e).replace(td, "<td>")[:300]}
        count["accepted"] = 1
        pre = given["prefix"]
        deks = [g["dek"] for g in given["containers"]]
        ref_deks = [None] * pre + deks
        # ---- (b) independent reader on the bytes
        r = ahab_ref.examine(data, ref_deks, crypto="ref")
        r["data"], r["file_len"] = data, len(data)
        for stage, msg in r["problems"]:
            if pre and msg.startswith("container 0:") and stage in ("image-decrypt",):
                continue
            viol.append(("C06.ref-accepts", stage if stage in SHARED_STAGES else f"v{p['version']}:{stage}", msg))
        r_lib = ahab_ref.examine(data, ref_deks, crypto="lib")
        if r_lib["problems"] != r["problems"]:
            viol.append(("C06.ref-accepts", "ref-vs-lib-crypto", f"pure-Python verdict {r['problems'][:2]} != cryptography verdict {r_lib['problems'][:2]}"))
        compare_given(p, info, given, r, viol)
        for c in r["containers"]:
            note = c.get("signature_note") or ""
            if note.startswith("salt="):
                count["pss_" + note] = count.get("pss_" + note, 0) + 1
            if c.get("unknown_flag_bits"):
                count["obs:unknown-container-flag-bits"] = 1
        check_srk_hash(img, r, pre, viol, count)
        # ---- (a) SPSDK's own round trip
        try:
            vb = img.verify()
            ep = error_paths(vb)
            if ep:
                viol.append(("C06.verify-built-clean", short_path(ep[0]), f"verify() of the built object after export: {ep[:4]}"))
        except (core.Watchdog, core.HarnessError):
            raise
        except Exception as e:  # noqa
            viol.append(("C06.verify-built-clean", f"raises:{type(e).__name__}@{_site(e)}", f"{type(e).__name__}: {e}"[:300]))
        parsed = None
        try:
            parsed = spsdk_parse(p["family"], p["revision"], p["mem"], data)
        except (core.Watchdog, core.HarnessError):
            raise
        except Exception as e:  # noqa
            viol.append(("C06.parse-raises", f"{type(e).__name__}@{_site(e)}", f"{type(e).__name__}: {e}"[:300]))
        if parsed is not None:
            try:
                again = bytes(parsed.export())
                if again != data:
                    i = next((i for i, (x, y) in enumerate(zip(again, data)) if x != y), min(len(again), len(data)))
                    fld = ahab_ref.field_at(r, i)
                    viol.append(("C06.roundtrip-export", f"v{p['version']}:{fld}", f"re-export differs at offset {i:#x} ({fld}); "
                                 f"{len(data)} B exported, {len(again)} B re-exported"))
            except SPSDKError as e:
                ep = error_paths(parsed.verify())
                if r["problems"]:
                    count["parsed_errors_confirmed_by_reader"] = count.get("parsed_errors_confirmed_by_reader", 0) + 1
                else:
                    viol.append(("C06.verify-parsed-clean", (short_path(ep[0]) if ep else "export-raises"), f"export() of the parsed image raises: {ep[:3] or str(e)[:300]}"))
            except (core.Watchdog, core.HarnessError):
                raise
            except Exception as e:  # noqa
                viol.append(("C06.roundtrip-export", f"raises:{type(e).__name__}@{_site(e)}", f"{type(e).__name__}: {e}"[:300]))
            for with_dek in (False, True):
                if with_dek:
                    if not any(deks):
                        break
                    set_deks(parsed, deks, pre)
                try:
                    ep = error_paths(parsed.verify())
                    if ep and r["problems"]:  # the reader agrees that the image is not valid: SPSDK is right to say so
                        count["parsed_errors_confirmed_by_reader"] = count.get("parsed_errors_confirmed_by_reader", 0) + 1
                    elif ep:
                        viol.append(("C06.verify-parsed-clean", short_path(ep[0]) + (":with-dek" if with_dek else ""),
                                     f"verify() of parse(export(x)){' with the DEK' if with_dek else ''}: {ep[:4]}"))
                except (core.Watchdog, core.HarnessError):
                    raise
                except Exception as e:  # noqa
                    viol.append(("C06.verify-parsed-clean", f"raises:{type(e).__name__}@{_site(e)}", f"{type(e).__name__}: {e}"[:300]))
            # equality of objects (SPSDK's own __eq__ on containers and signature blocks)
            try:
                if len(parsed.ahab_containers) != len(img.ahab_containers):
                    viol.append(("C06.roundtrip-equal", "container-count", f"{len(img.ahab_containers)} built, {len(parsed.ahab_containers)} parsed"))
                for ci, (a, b) in enumerate(zip(img.ahab_containers, parsed.ahab_containers)):
                    if ci < pre:
                        continue
                    if not a == b:
                        what = "container"
                        if len(a.image_array) == len(b.image_array):
                            bad = [j for j, (x, y) in enumerate(zip(a.image_array, b.image_array)) if not x == y]
                            if bad:
                                what = "image-array-entry"
                        viol.append(("C06.roundtrip-equal", what, f"container {ci}: built != parsed ({what})"))
                    sa, sb = a.signature_block, b.signature_block
                    if (sa is None) != (sb is None) or (sa is not None and not sa == sb):
                        part = "?"
                        if sa is not None and sb is not None:
                            for f in ("srk_assets", "signature", "certificate", "blob"):
                                if not getattr(sa, f) == getattr(sb, f):
                                    part = f
                                    break
                            else:
                                part = "header/offsets"
                            if part == "certificate" and sa.certificate is not None and sb.certificate is not None and cert_equal(sa.certificate, sb.certificate):
                                # unset UUID / permission data are None / b"" on the built object, zero bytes on the parsed one
                                count["obs:certificate-eq-optional-fields"] = 1
                                continue
                        viol.append(("C06.roundtrip-equal", f"signature-block:{part}", f"container {ci}: built signature block != parsed"))
            except (core.Watchdog, core.HarnessError):
                raise
            except Exception as e:  # noqa
                viol.append(("C06.roundtrip-equal", f"raises:{type(e).__name__}@{_site(e)}", f"{type(e).__name__}: {e}"[:300]))
        distinct.append(core.short_hash([info["class"], case["k"], case.get("d", {}), case.get("tp")]))
        # ---- (c) tamper sweep (only meaningful when the intact file is accepted by the reader)
        t = case.get("t", 0)
        if t and not r["problems"] and parsed is not None:
            tamper_sweep(p, data, r, deks, t, viol, count, case.get("tp"), pre=pre)
        return {"viol": core.dedupe(viol), "count": count, "distinct": distinct}
    finally:
        shutil.rmtree(td, ignore_errors=True)


# ---------------------------------------------------------------------------------------------
# object histories: change a signed field of a signed container and sign again

HIST_KINDS = ("parse-untouched", "parse-modify", "parse-modify-twice", "parse-modify-config", "built-modify", "built-modify-twice")
HIST_FIELDS = ("sw", "fv", "flags", "load")
SIGN_HASH = {"p256": "sha256", "p256z": "sha256", "p384": "sha384", "p384z": "sha384", "p521": "sha512",
             "rsa2048": "sha256", "rsa3072": "sha256", "rsa4096": "sha256"}


def _attach_provider(cnt, key_name: str, srk: str) -> None:
    """What ContainerSignature.load_from_config does for `signing_key`: a file signature provider on the container signature."""
    from spsdk.crypto.hash import EnumHashAlgorithm
    from spsdk.crypto.signature_provider import get_signature_provider

    cnt.signature_block.signature.signature_provider = get_signature_provider(
        local_file_key=fixtures.key_path(key_name), pss_padding=True, hash_alg=EnumHashAlgorithm.from_label(SIGN_HASH[srk]))


def run_hist_case(case: dict, seed: int) -> dict:
    """case: {"i", "k": "s", "d": departures (nc, srk, cert, cv), "h": history kind}.  Every field of HIST_FIELDS in turn."""
    import copy

    from spsdk.exceptions import SPSDKError, SPSDKVerificationError

    from vf.ref import ahab_ref

    viol: list = []
    count: dict = {}
    info = case["i"]
    hk = case["h"]
    p = resolve(case)
    p["_cv_dim"] = "cv" in case.get("d", {})
    td = tempfile.mkdtemp(prefix="vf-c06-h-", dir=os.environ.get("VERIF_WORKDIR") or None)
    try:
        cfg, given = build_config(p, seed, td)
        fields = ("none",) if hk == "parse-untouched" else HIST_FIELDS
        ci = p["nc"] - 1  # the last container is the one that is changed; every container gets its key again
        for fld in fields:
            try:
                img, data = spsdk_build(cfg, td)
            except Rejected as e:
                return {"viol": [], "count": {"rejected": 1}, "distinct": [], "rejected": str(e).replace(td, "<td>")[:300]}
            except WrongType as e:
                return {"viol": [], "count": {"builder_error": 1}, "distinct": [], "builder_error": str(e).replace(td, "<td>")[:300]}
            count["accepted"] = 1
            r0 = ahab_ref.examine(data, None, crypto="lib")
            if r0["problems"] or len(r0["containers"]) != p["nc"]:
                count["hist_skipped_base_not_clean"] = count.get("hist_skipped_base_not_clean", 0) + 1
                continue
            old = r0["containers"][ci]
            want = {"sw": ("sw_version", (old["sw_version"] + 1) & 0xFFFF), "fv": ("fuse_version", (old["fuse_version"] + 1) & 0xFF),
                    "flags": ("flags", old["flags"] | (1 << (8 + (p["sid"] + 1) % 4))),  # revoke an SRK that is not the used one
                    "load": ("load", old["images"][0]["load"] + 0x100), "none": (None, None)}[fld]
            where = "parse"
            try:
                obj = spsdk_parse(p["family"], p["revision"], p["mem"], data) if hk.startswith("parse") else img
                cnt = obj.ahab_containers[ci]
                where = "modify"
                if hk == "parse-modify-config":
                    # the `nxpimage ahab sign` path: the container takes flags, versions, SRK table, certificate and signing key
                    # from its (changed) configuration; an image entry is changed on the object
                    ccfg = copy.deepcopy(cfg["containers"][ci]["container"])
                    if fld == "sw":
                        ccfg["sw_version"] = want[1]
                    elif fld == "fv":
                        ccfg["fuse_version"] = want[1]
                    elif fld == "flags":
                        ccfg["srk_revoke_mask"] = 1 << ((p["sid"] + 1) % 4)
                    else:
                        cnt.image_array[0].load_address = want[1]
                    cnt.load_from_config_generic(ccfg)
                    for cj, other in enumerate(obj.ahab_containers):
                        if cj != ci:
                            _attach_provider(other, given["containers"][cj]["sign_key"], p["srk"])
                else:
                    if fld == "sw":
                        cnt.sw_version = want[1]
                    elif fld == "fv":
                        cnt.fuse_version = want[1]
                    elif fld == "flags":
                        cnt.flags = want[1]
                    elif fld == "load":
                        cnt.image_array[0].load_address = want[1]
                    if hk.startswith("parse"):
                        for cj, other in enumerate(obj.ahab_containers):
                            _attach_provider(other, given["containers"][cj]["sign_key"], p["srk"])
                where = "update_fields"
                obj.update_fields()
                if hk.endswith("twice"):
                    obj.update_fields()
                where = "export"
                new = bytes(obj.export())
            except SPSDKVerificationError as e:
                ep = []
                try:
                    ep = error_paths(obj.verify())
                except Exception:  # noqa
                    pass
                viol.append(("C06.history", f"{hk}:refused:{short_path(ep[0]) if ep else where}",
                             f"field {fld}: {where} refuses the changed and re-signed image: {ep[:3] or str(e)[:200]}"))
                continue
            except SPSDKError as e:
                viol.append(("C06.history", f"{hk}:refused:{where}:{type(e).__name__}", f"field {fld}: {where}: {str(e)[:200]}".replace(td, "<td>")))
                continue
            except (core.Watchdog, core.HarnessError):
                raise
            except Exception as e:  # noqa
                viol.append(("C06.history", f"{hk}:raises:{type(e).__name__}@{_site(e)}", f"field {fld}: {where}: {type(e).__name__}: {e}"[:300].replace(td, "<td>")))
                continue
            count["hist_exports"] = count.get("hist_exports", 0) + 1
            r = ahab_ref.examine(new, None, crypto="ref" if fld in ("sw", "none") else "lib")
            for stage, msg in r["problems"]:
                viol.append(("C06.history", f"{hk}:reader:{stage}", f"field {fld}: {msg}"))
            if len(r["containers"]) != p["nc"]:
                viol.append(("C06.history", f"{hk}:reader:container-count", f"field {fld}: {len(r['containers'])} containers"))
                continue
            c = r["containers"][ci]
            if want[0] is not None:
                got = c["images"][0]["load"] if want[0] == "load" else c[want[0]]
                if got != want[1]:
                    viol.append(("C06.history", f"{hk}:field-not-in-bytes:{fld}", f"{want[0]} is {got:#x} in the exported bytes, set to {want[1]:#x}"))
                if new == data:
                    viol.append(("C06.history", f"{hk}:bytes-unchanged", f"field {fld}: the export after the change equals the original export"))
            # everything else stays: images, SRK tables, other containers' headers
            for cj, (a, b) in enumerate(zip(r0["containers"], r["containers"])):
                if [(e["start"], e["size"], e["hash"]) for e in a["images"]] != [(e["start"], e["size"], e["hash"]) for e in b["images"]]:
                    viol.append(("C06.history", f"{hk}:images-moved", f"field {fld}: container {cj}: image placement / hashes differ after the history"))
                if (a.get("srk_hashes") or []) != (b.get("srk_hashes") or []):
                    viol.append(("C06.history", f"{hk}:srk-table-changed", f"field {fld}: container {cj}: SRK table differs after the history"))
            # and SPSDK reads its own result back
            try:
                back = spsdk_parse(p["family"], p["revision"], p["mem"], new)
                ep = error_paths(back.verify())
                if ep and not r["problems"]:
                    viol.append(("C06.history", f"{hk}:reparse:{short_path(ep[0])}", f"field {fld}: verify() of the parsed result: {ep[:3]}"))
                elif bytes(back.export()) != new:
                    viol.append(("C06.history", f"{hk}:reparse:export-differs", f"field {fld}: parse(export).export() differs"))
            except (core.Watchdog, core.HarnessError):
                raise
            except Exception as e:  # noqa
                if not r["problems"]:
                    viol.append(("C06.history", f"{hk}:reparse:raises:{type(e).__name__}", f"field {fld}: {type(e).__name__}: {e}"[:300]))
        return {"viol": core.dedupe(viol), "count": count, "distinct": [core.short_hash(["hist", info["class"], hk, case.get("d", {})])]}
    finally:
        shutil.rmtree(td, ignore_errors=True)


# ---------------------------------------------------------------------------------------------
# container lists: own containers mixed with binary_container files that hold one or two containers


def list_shapes(limit: int) -> list:
    """Every list over {own, b1, b2} (b<n> = binary_container file with n containers) with at least one binary entry whose
    containers add up to <= limit, plus the lists that exceed the limit by one (expected to be refused)."""
    out: list = []

    def grow(prefix: list, total: int) -> None:
        if prefix and any(x != "own" for x in prefix):
            out.append(list(prefix))
        for sym, n in (("own", 1), ("b1", 1), ("b2", 2)):
            if total + n <= limit + 1 and total < limit:
                grow(prefix + [sym], total + n)

    grow([], 0)
    return out


def run_list_case(case: dict, seed: int) -> dict:
    """case: {"i", "k", "d": {"mem"}, "l": ["b2", "own", ...]}."""
    from spsdk.exceptions import SPSDKError

    from vf.ref import ahab_ref

    viol: list = []
    count: dict = {}
    info = case["i"]
    shape = case["l"]
    p = resolve(case)
    p["_cv_dim"] = False
    slot = 0x4000 if p["version"] == 2 else 0x400
    start = 0xC000 if p["version"] == 2 else 0x2000
    total = sum(2 if x == "b2" else 1 for x in shape)
    td = tempfile.mkdtemp(prefix="vf-c06-l-", dir=os.environ.get("VERIF_WORKDIR") or None)
    try:
        entries = []
        expect = []  # per final container: {"sw", "data", "src": header bytes of the source container or None}
        for q, sym in enumerate(shape):
            tq = os.path.join(td, f"e{q}")
            os.makedirs(tq)
            if sym == "own":
                cfg1, g1 = build_config(dict(p, nc=1, off="auto"), seed * 1000 + q + 1, tq)
                cont = cfg1["containers"][0]["container"]
                cont["sw_version"] = 100 + q
                entries.append({"container": cont})
                expect.append({"sw": 100 + q, "data": g1["containers"][0]["images"][0]["data"], "src": None})
                continue
            n = 2 if sym == "b2" else 1
            # the firmware-like file: n containers exported by SPSDK for the standard target, images at explicit offsets in a window
            # of their own (a parsed container keeps its image offsets relative to its - new - container start)
            pb = dict(p, nc=n, off="auto", mem="standard", srk="p384" if p["kind"] == "s" else p["srk"])
            cfgb, gb = build_config(pb, seed * 1000 + q + 1, tq)
            for j in range(n):
                cb = cfgb["containers"][j]["container"]
                cb["sw_version"] = 200 + 10 * q + j
                cb["images"][0]["image_offset"] = start + 0x20000 * (q + 1) + j * 0x4000
            try:
                _imgb, fileb = spsdk_build(cfgb, tq)
            except (Rejected, WrongType) as e:
                raise core.HarnessError(f"cannot build the binary_container file for {shape}: {e}")
            fpath = os.path.join(tq, "fw.bin")
            with open(fpath, "wb") as f:
                f.write(fileb)
            entries.append({"binary_container": {"path": fpath}})
            rb = ahab_ref.examine(fileb, None, crypto="lib")
            if rb["problems"] or len(rb["containers"]) != n:
                raise core.HarnessError(f"binary_container file for {shape} is not clean: {rb['problems'][:2]}")
            for j in range(n):
                cj = rb["containers"][j]
                expect.append({"sw": 200 + 10 * q + j, "data": gb["containers"][j]["images"][0]["data"],
                               "src": fileb[cj["base"]:cj["base"] + cj["length"]]})
        cfg = {"family": p["family"], "revision": p["revision"], "target_memory": p["mem"], "output": os.path.join(td, "out.bin"),
               "containers": entries}
        over = total > info["maxc"]
        try:
            img, data = spsdk_build(cfg, td)
        except Rejected as e:
            out = {"viol": [], "count": {"rejected": 1, "list_rejected_over_limit" if over else "list_rejected_within_limit": 1},
                   "distinct": [], "rejected": str(e).replace(td, "<td>")[:300]}
            if not over:
                judge_refusal(e, p, out)  # e.g. 'Container offset' is SPSDK's own arithmetic (REFUSAL_TABLE)
            return out
        except WrongType as e:
            k = f"obs:build-error-type:{type(e.exc).__name__}@{_site(e.exc)}"
            return {"viol": [], "count": {"builder_error": 1, k: 1}, "distinct": [], "builder_error": str(e).replace(td, "<td>")[:300]}
        count["accepted"] = 1
        r = ahab_ref.examine(data, None, crypto="lib")
        if over:
            # more containers than the family allows: not judged; what SPSDK does with the surplus is only counted
            count["obs:over-limit-list-accepted:%d-of-%d-containers" % (len(r["containers"]), total)] = 1
            return {"viol": [], "count": count, "distinct": []}
        for stage, msg in r["problems"]:
            viol.append(("C06.container-list", f"reader:{stage}", msg))
        if len(r["containers"]) != total:
            viol.append(("C06.container-list", "count", f"list {shape}: {total} containers expected, {len(r['containers'])} found at index * {slot:#x}"))
        elif [c["sw_version"] for c in r["containers"]] != [x["sw"] for x in expect]:
            viol.append(("C06.container-list", "order", f"list {shape}: containers (by their sw_version marks) {[c['sw_version'] for c in r['containers']]}, "
                         f"expected {[x['sw'] for x in expect]}"))
        else:
            for k, (c, x) in enumerate(zip(r["containers"], expect)):
                if x["src"] is not None and data[c["base"]:c["base"] + len(x["src"])] != x["src"]:
                    viol.append(("C06.container-list", "binary-container-bytes", f"list {shape}: container {k} differs from the container in the binary file"))
                e0 = c["images"][0] if c["images"] else None
                if e0 is None or e0["end"] > len(data):
                    continue
                got = data[e0["start"]:e0["end"]]
                if got[:len(x["data"])] != x["data"] or any(got[len(x["data"]):]):
                    viol.append(("C06.container-list", "image-content", f"list {shape}: container {k}: the entry does not point at its image"))
        # SPSDK reads its own result back
        try:
            back = spsdk_parse(p["family"], p["revision"], p["mem"], data)
            ep = error_paths(back.verify())
            if ep and not r["problems"]:
                viol.append(("C06.container-list", f"reparse:{short_path(ep[0])}", f"list {shape}: verify() of the parsed result: {ep[:3]}"))
            elif not ep and bytes(back.export()) != data:
                viol.append(("C06.container-list", "reparse:export-differs", f"list {shape}: parse(export).export() differs"))
        except (core.Watchdog, core.HarnessError):
            raise
        except SPSDKError as e:
            if not r["problems"]:
                viol.append(("C06.container-list", "reparse:refused", f"list {shape}: {str(e)[:200]}".replace(td, "<td>")))
        except Exception as e:  # noqa
            viol.append(("C06.container-list", f"reparse:raises:{type(e).__name__}@{_site(e)}", f"list {shape}: {type(e).__name__}: {e}"[:300]))
        return {"viol": core.dedupe(viol), "count": count, "distinct": [core.short_hash(["list", info["class"], case["k"], case.get("d", {}), shape])]}
    finally:
        shutil.rmtree(td, ignore_errors=True)


# ---------------------------------------------------------------------------------------------
# nxpimage ahab export / parse / verify


def run_cli_case(case: dict, seed: int) -> dict:
    import yaml
    from click.testing import CliRunner

    from spsdk.apps import nxpimage
    from spsdk.exceptions import SPSDKError
    from vf.ref import ahab_ref

    viol: list = []
    count: dict = {"cli_cases": 1}
    info = case["i"]
    p = resolve(case)
    p["_cv_dim"] = "cv" in case.get("d", {})
    td = tempfile.mkdtemp(prefix="vf-c06-cli-", dir=os.environ.get("VERIF_WORKDIR") or None)
    try:
        cfg, given = build_config(p, seed, td)
        cpath = os.path.join(td, "cfg.yaml")
        with open(cpath, "w") as f:
            yaml.safe_dump(cfg, f)
        runner = CliRunner()
        res = runner.invoke(nxpimage.main, ["ahab", "export", "-c", cpath], catch_exceptions=True)
        if res.exit_code != 0 or not os.path.exists(cfg["output"]):
            exc = res.exception
            if isinstance(exc, SPSDKError):
                return {"viol": [], "count": {"rejected": 1, "cli_cases": 1}, "distinct": [],
                        "rejected": f"cli export: {type(exc).__name__}: {str(exc)[:300]}"}
            if res.exit_code == 2 and not isinstance(exc, Exception):
                raise core.HarnessError(f"nxpimage ahab export usage error: {res.output[-300:]}")
            # the API path decides whether the configuration is acceptable at all
            try:
                spsdk_build(cfg, td)
            except Rejected as e:
                return {"viol": [], "count": {"rejected": 1, "cli_cases": 1}, "distinct": [], "rejected": "api: " + str(e)[:300]}
            except WrongType:
                pass
            viol.append(("C06.cli", f"crash:{type(exc).__name__}@{_site(exc) if isinstance(exc, BaseException) else '?'}",
                         f"nxpimage ahab export exits {res.exit_code} with {exc!r} on a configuration the API path exports "
                         f"(output file written: {os.path.exists(cfg['output'])}); output: {(res.output or '')[-200:]}"))
            if not os.path.exists(cfg["output"]):
                return {"viol": viol, "count": count, "distinct": []}
        count["accepted"] = 1
        export_crashed = bool(viol)
        data = open(cfg["output"], "rb").read()
        deks = [g["dek"] for g in given["containers"]]
        r = ahab_ref.examine(data, deks, crypto="lib")
        r["data"], r["file_len"] = data, len(data)
        for stage, msg in r["problems"]:
            viol.append(("C06.cli", f"ref:{stage}", "cli export: " + msg))
        compare_given(p, info, given, r, viol)
        # the API path must give the same bytes outside the (random) signature data
        try:
            _img, api = spsdk_build(cfg, td)
            mask = bytearray(len(data))
            for name, a, b in r["regions"]:
                if region_class(name) in ("sigdata", "certsig"):
                    mask[a:b] = b"\x01" * (b - a)
            # a certificate signature changes the bytes the container signature covers -> everything else must agree
            if len(api) != len(data) or any(x != y and not m for x, y, m in zip(api, data, mask)):
                viol.append(("C06.cli", "api-vs-cli-bytes", f"API export ({len(api)} B) and CLI export ({len(data)} B) differ outside the signature data"))
        except (Rejected, WrongType) as e:
            viol.append(("C06.cli", "api-rejects", str(e)[:200]))
        # fuse file: SRK hash written next to the output
        for ci, c in enumerate(r["containers"]):
            if c.get("srk_hashes"):
                fn = os.path.join(td, f"out_oem{ci}_srk0_hash.txt")
                if os.path.exists(fn):
                    count["cli_srk_hash_files"] = count.get("cli_srk_hash_files", 0) + 1
                    if open(fn).read().strip().lower() != c["srk_hashes"][0].hex():
                        viol.append(("C06.cli", "srk-hash-file", f"container {ci}: SRK hash file differs from the hash of the exported table"))
                elif not export_crashed:  # a crash inside the fuse-file writer is reported once, as the crash
                    viol.append(("C06.cli", "srk-hash-file-missing", f"container {ci}: {os.path.basename(fn)} not written"))
        # verify: intact file -> exit 0; one flipped image bit -> failure
        args = ["ahab", "verify", "-f", p["family"], "-b", cfg["output"]]
        if any(deks):
            args += ["-k", next(d for d in deks if d).hex()]
        res = runner.invoke(nxpimage.main, args, catch_exceptions=True)
        if res.exit_code != 0:
            viol.append(("C06.cli", "verify-intact-fails", f"exit {res.exit_code}: {(res.output or '')[-400:]}"))
        regs = [x for x in r["regions"] if region_class(x[0]) in ("image", "signed")]
        for name, a, b in regs[:2]:
            bad = bytearray(data)
            # signed part: a byte of the first image entry's hash field (a field every parser keeps); image: the middle byte
            bad[a + 16 + 32 + 5 if region_class(name) == "signed" else (a + b) // 2] ^= 0x10
            bpath = os.path.join(td, "bad.bin")
            with open(bpath, "wb") as f:
                f.write(bad)
            if ahab_ref.accepts(bytes(bad), deks)[0]:
                continue
            res = runner.invoke(nxpimage.main, ["ahab", "verify", "-f", p["family"], "-b", bpath], catch_exceptions=True)
            count["cli_tamper_trials"] = count.get("cli_tamper_trials", 0) + 1
            if res.exit_code == 0:
                viol.append(("C06.cli", f"verify-tampered-passes:{region_class(name)}", f"{name}: nxpimage ahab verify exits 0 for a corrupted file"))
        # parse: dumps configuration + images
        out = os.path.join(td, "parsed")
        res = runner.invoke(nxpimage.main, ["ahab", "parse", "-f", p["family"], "-b", cfg["output"], "-o", out], catch_exceptions=True)
        if res.exit_code != 0 and isinstance(res.exception, Exception) and not isinstance(res.exception, SPSDKError):
            viol.append(("C06.cli", f"crash:{type(res.exception).__name__}@{_site(res.exception)}",
                         f"nxpimage ahab parse exits {res.exit_code} with {res.exception!r}; output: {(res.output or '')[-200:]}"))
        elif res.exit_code != 0 or not os.path.exists(os.path.join(out, "parsed_config.yaml")):
            viol.append(("C06.cli", "parse-failed", f"exit {res.exit_code}: {(res.output or '')[-300:]} {res.exception!r}"))
        if os.path.exists(os.path.join(out, "parsed_config.yaml")):
            pc = yaml.safe_load(open(os.path.join(out, "parsed_config.yaml")))
            if pc.get("target_memory") not in (p["mem"], "standard" if p["mem"] == "nor" else p["mem"]):
                count["obs:cli-parse-target-memory:%s->%s" % (p["mem"], pc.get("target_memory"))] = 1
            for ci, g in enumerate(given["containers"]):
                try:
                    imgs = pc["containers"][ci]["container"]["images"]
                except (KeyError, IndexError, TypeError):
                    viol.append(("C06.cli", "parse-config-shape", f"container {ci} missing in parsed_config.yaml"))
                    continue
                for ii, gi in enumerate(g["images"]):
                    if gi["enc"] or ii >= len(imgs) or not gi["data"]:
                        continue
                    fn = os.path.join(out, imgs[ii].get("image_path", "?"))
                    if not os.path.exists(fn):
                        viol.append(("C06.cli", "parse-image-dump", f"container {ci} image {ii}: no dumped file"))
                        continue
                    got = open(fn, "rb").read()
                    if got[:len(gi["data"])] != gi["data"] or any(got[len(gi["data"]):]):
                        viol.append(("C06.cli", "parse-image-dump", f"container {ci} image {ii}: dumped image differs from the given data"))
        viol = [(a, b, c.replace(td, "<td>")) for a, b, c in viol]
        return {"viol": core.dedupe(viol), "count": count, "distinct": [core.short_hash(["cli", info["class"], case["k"], case.get("d", {})])]}
    finally:
        shutil.rmtree(td, ignore_errors=True)


# ---------------------------------------------------------------------------------------------
# golden calibration

GOLDEN_SKIP = {
    # SM2 / SM3 back end not installed (outside, DESIGN section 7)
    "cntr_signed_ctcm_cm33_img_sm2.bin": "sm2",
    # referenced by no test; certificate in the pre-2.x layout inside a version-0 container, not reproducible with this tree
    "cntr_signed_ctcm_cm33_certificate.bin": "stale",
}
GOLDEN_EXPECT = {
    "test_parse_ahab_err.bin": [("image-hash", 0)],  # the repository's own negative example: container 0 image 0 hash is wrong
    "ahab_mx95_dilithium3_cert.bin": [("certificate", 0)],  # second (PQC) certificate key: not modelled
}


def golden_files() -> list:
    import glob

    root = os.path.join(core.REPO, "tests")
    if not os.path.isdir(root):
        root = "/repo/tests"
    out = []
    for pat in ("nxpimage/data/ahab/*.bin", "image/ahab/data/*.bin"):
        out += glob.glob(os.path.join(root, pat))
    return sorted(set(out))


def w_golden(path: str) -> dict:
    from vf.ref import ahab_ref

    data = open(path, "rb").read()
    name = os.path.basename(path)
    h = ahab_ref.head(data, 0)
    if h is None or h[2] != ahab_ref.TAG_CONTAINER or h[0] not in ahab_ref.CONTAINER_SLOT or name in GOLDEN_SKIP:
        return {"count": {"golden_skipped:" + GOLDEN_SKIP.get(name, "not-a-container-set"): 1}}
    pre = ahab_ref.examine(data, None, crypto="lib")
    deks = [None if c["srk_set"] == "nxp" else GOLDEN_DEK for c in pre["containers"]]
    r = ahab_ref.examine(data, deks, crypto="ref")
    r2 = ahab_ref.examine(data, deks, crypto="lib")
    got = sorted((s, int(re.match(r"container (\d+)", m).group(1))) for s, m in r["problems"])
    if got != sorted(GOLDEN_EXPECT.get(name, [])) or r["problems"] != r2["problems"]:
        return {"count": {"golden_rejected": 1}, "golden_rejected": f"{path}: {r['problems'][:3]} / lib {r2['problems'][:3]}"}
    cnt = {"golden_accepted": 1, "golden_containers": len(r["containers"]),
           "golden_signed_containers": sum(1 for c in r["containers"] if c.get("signature")),
           "golden_encrypted_images": sum(1 for c in r["containers"] for e in c["images"] if e.get("plain") is not None)}
    return {"count": cnt}


# ---------------------------------------------------------------------------------------------
# worker entry + enumeration

_SEED = 0


def w_case(case: dict) -> dict:
    if case.get("cli"):
        return run_cli_case(case, _SEED)
    if case.get("h"):
        return run_hist_case(case, _SEED)
    if case.get("l"):
        return run_list_case(case, _SEED)
    return run_case(case, _SEED)


def _install_schema_cache() -> None:
    """Speed seam at the library entry point (no spsdk edit): spsdk's check_config() lets fastjsonschema generate and
    exec the validator source again on every call (~0.15 s, 80 % of a case).  The generated validator is a pure
    function of (schema, formats); the format callbacks differ between calls only in the search paths they close over,
    and every path in these configurations is absolute - so the compiled validator is cached per schema content."""
    import fastjsonschema

    if getattr(fastjsonschema.compile, "_vf_cached", False):
        return
    orig = fastjsonschema.compile
    cache: dict = {}

    def compile_cached(definition, *args, **kwargs):
        key = hashlib.sha1(json.dumps(definition, sort_keys=True, default=repr).encode()).hexdigest()
        if key not in cache:
            cache[key] = orig(definition, *args, **kwargs)
        return cache[key]

    compile_cached._vf_cached = True  # type: ignore[attr-defined]
    fastjsonschema.compile = compile_cached


def _init_worker() -> None:
    import logging

    logging.disable(logging.CRITICAL)
    _install_schema_cache()


def slim(info: dict) -> dict:
    return info


def enumerate_cases(tier: str, sv: list) -> dict:
    quick = tier == "quick"
    fam: dict = {}
    classes: dict = {}
    for info in sv:
        classes.setdefault(info["class"], []).append(info)
    reps = []
    for cls, members in classes.items():
        # representative(s): latest revision of the alphabetically first family first
        ms = sorted(members, key=lambda i: (not i["latest"], i["family"], i["revision"]))
        reps.append(ms[:1] if quick else ms[:3])
    # base: every family x revision x memory x kind
    fam["base"] = [{"i": info, "k": kind, "d": ({"mem": mem} if mem != MEMORIES[0] else {}), "t": 1}
                   for info in sv for mem in MEMORIES for kind in KINDS]
    k = 1 if quick else 2
    lat1, lat2 = [], []
    for rs in reps:
        for info in rs:
            for kind in KINDS:
                dims = dims_for(info, kind)
                for dep in lattice(dims, 1):
                    if dep and "mem" not in dep:
                        # quick: the tamper sweep only where the departure changes the layout of the authenticated bytes
                        lat1.append({"i": info, "k": kind, "d": dep, "t": 1 if not quick or all(n in AUTH_DIMS for n in dep) else 0})
                if k >= 2 and info is rs[0]:
                    for dep in lattice(dims, 2, exact=True):
                        c2 = {"i": info, "k": kind, "d": dep}
                        if all(n in AUTH_DIMS for n in dep):
                            c2["t"] = 1
                        lat2.append(c2)
    fam["lat k=1"] = lat1
    # structural full product on the representatives
    grid = []
    seen_struct = set()
    for rs in reps:
        info = rs[0]
        skey = core.jdump([info["v"], info["maxc"], info["maxi"], info["min_align"], info["size_align"]])
        if skey in seen_struct:  # placement depends on these database values only
            continue
        seen_struct.add(skey)
        for mem in MEMORIES:
            for off in ("auto", "explicit", "mixed", "low", "unaligned", "descending", "middle-first", "desc-auto", "auto-desc"):
                order_mode = off in ORDER_MODES
                for sz in ((13, 1026) if quick and order_mode else (13, 1026, 513) if quick else SIZES[:-1]):
                    for ni in ((1, 3) if quick else (1, 2, 3)):
                        if order_mode and ni == 1:
                            continue  # one image has no order
                        for nc in ((1, 2) if quick else (1, 2, 3)):
                            d = {"mem": mem, "off": off, "sz": sz, "ni": ni, "nc": nc}
                            d = {n: v for n, v in d.items() if v != dims_for(info, "u")[n][0]}
                            if len(d) >= 2:
                                grid.append({"i": info, "k": "u", "d": d})
    fam["grid"] = grid
    # every byte / bit of the authenticated container bytes, per container version and key type
    byt = []
    seen_v = set()
    for rs in reps:
        info = rs[0]
        for v in info["v"]:
            if v in seen_v:
                continue
            seen_v.add(v)
            for srk in (("p256", "rsa2048") if quick else ("p256", "p384", "p521", "rsa2048", "rsa3072", "rsa4096")):
                for extra in ({}, {"enc": "enc128"}) + (({"cert": "container+uuid"},) if info["cert"] and v == 2 else ()):
                    if quick and extra and srk != "p256":
                        continue
                    d = dict(extra)
                    if srk != "p256":
                        d["srk"] = srk
                    if v != info["v"][0]:
                        d["cv"] = v
                    if "cert" in d and "cv" in d:
                        continue
                    mode = 2 if quick else (3 if srk.startswith("p") else 2)
                    parts = 8 if quick else 16
                    for i in range(parts):
                        byt.append({"i": info, "k": "s", "d": d, "t": mode, "tp": [i, parts]})
    fam["bytes"] = byt
    # full product SRK key type x DEK blob x certificate (two / three departures: never reached by k <= 1), every representative
    # and every container version it offers; with the region-wise tamper sweep
    kp = []
    for rs in reps:
        info = rs[0]
        for v in info["v"]:
            for srk in SRK_SETS:
                for enc in (("no", "blob") if quick else ("no", "blob", "enc128")):
                    for cert in (("no", "container") if info["cert"] and v == 2 else ("no",)):
                        d: dict = {}
                        if srk != "p256":
                            d["srk"] = srk
                        if enc != "no":
                            d["enc"] = enc
                        if cert != "no":
                            d["cert"] = cert
                        if v != info["v"][0]:
                            d["cv"] = v
                        kp.append({"i": info, "k": "s", "d": d, "t": 1})
    fam["keys"] = kp
    # object histories: one representative per container version (+ the certificate family), ECC and RSA tables
    hist = []
    seen_h = set()
    for rs in reps:
        info = rs[0]
        for v in info["v"]:
            key = (v, info["cert"] and v == 2)
            if key in seen_h:
                continue
            seen_h.add(key)
            for srk in ("p256", "rsa2048"):
                for cert in (("no", "container") if info["cert"] and v == 2 else ("no",)):
                    for nc in ((1, 2) if srk == "p256" or v == 2 else (1,)):  # an RSA container outgrows a non-last v0 slot
                        d = {}
                        if srk != "p256":
                            d["srk"] = srk
                        if cert != "no":
                            d["cert"] = cert
                        if nc != 1:
                            d["nc"] = nc
                        if v != info["v"][0]:
                            d["cv"] = v
                        d["sid"] = 1
                        for hk in HIST_KINDS:
                            hist.append({"i": info, "k": "s", "d": d, "h": hk})
    fam["hist"] = hist
    # container lists with binary_container files of one / two containers in every position, one representative per
    # (container version, container limit)
    lists = []
    seen_l = set()
    for rs in reps:
        info = rs[0]
        key = (info["v"][0], info["maxc"])
        if key in seen_l:
            continue
        seen_l.add(key)
        combos = [("s", m) for m in (("standard", "serial_downloader") if quick else MEMORIES)] + \
                 [("u", m) for m in (("standard",) if quick else ("standard", "serial_downloader", "nand_4k"))]
        for kind, mem in combos:
            for shape in list_shapes(info["maxc"]):
                lists.append({"i": info, "k": kind, "d": ({"mem": mem} if mem != MEMORIES[0] else {}), "l": shape})
    fam["lists"] = lists
    # cli
    cli = []
    for rs in reps:
        info = rs[0]
        for kind in KINDS:
            deps = [{}] if quick else [{}, {"nc": 2}, {"ni": 3, "off": "explicit"}, {"enc": "enc128"}, {"mem": "serial_downloader"}, {"mem": "nand_4k"}]
            if kind == "s" and not quick:
                deps += [{"srk": "rsa2048"}, {"srk": "p521", "sid": 3}] + ([{"cert": "container+uuid"}] if info["cert"] else [])
            for d in deps:
                cli.append({"i": info, "k": kind, "d": d, "cli": 1})
    fam["cli"] = cli
    if lat2:
        fam["lat k=2"] = lat2
    # execution order: the cheap families with the widest reach first, the big products last
    order = ["base", "cli", "keys", "hist", "lists", "lat k=1", "bytes", "grid", "lat k=2"]
    return {n: fam[n] for n in order if n in fam}


def run(ctx: core.Ctx) -> None:
    global _SEED
    _SEED = ctx.seed
    import spsdk.apps.nxpimage  # noqa  (parent import: forked workers share the modules and the warmed database)
    import spsdk.image.ahab.ahab_image  # noqa
    from vf.ref import ahab_ref  # noqa

    keys()
    quick = ctx.tier == "quick"
    # ---- calibration of the trusted base
    gold = golden_files()
    for path, res in ctx.pool_map(w_golden, gold, timeout=120, initfn=_init_worker, chunksize=1, check_det=0):
        if not isinstance(res, dict) or "__crash__" in res:
            raise core.HarnessError(f"golden calibration crashed on {path}: {res}")
        for kname, n in res.get("count", {}).items():
            ctx.count(kname, n)
        if res.get("golden_rejected"):
            raise core.HarnessError(f"independent reader disagrees with a golden file of the repository: {res['golden_rejected']}")
    ctx.cov["golden_files"] = {"found": len(gold), "accepted": ctx.counters.get("golden_accepted", 0),
                               "containers": ctx.counters.get("golden_containers", 0),
                               "signed_containers": ctx.counters.get("golden_signed_containers", 0),
                               "encrypted_images_decrypted": ctx.counters.get("golden_encrypted_images", 0),
                               "skipped": {k.split(":", 1)[1]: v for k, v in ctx.counters.items() if k.startswith("golden_skipped:")}}
    if gold and not ctx.counters.get("golden_accepted"):
        raise core.HarnessError("no golden AHAB file was accepted by the independent reader")
    sv = survey()
    for info in sv:  # warm the schema cache in the parent
        schemas(info["family"], info["revision"])
    fam = enumerate_cases(ctx.tier, sv)
    only = os.environ.get("VERIF_C06_ONLY")  # development aid: restrict the run to some case families (never exhaustive)
    if only:
        fam = {k: v for k, v in fam.items() if k in only.split(",") or k == "cli"}
        ctx.exhaustive = False
    classes: dict = {}
    for info in sv:
        classes.setdefault(info["class"], []).append(f"{info['family']}/{info['revision']}")
    ctx.cov["classes"] = classes
    ctx.cov["dimensions"] = {f"{sv_i['family']}/{sv_i['revision']}:{kind}": {n: len(v) for n, v in dims_for(sv_i, kind).items()}
                             for sv_i in [c["i"] for c in fam["cli"]] for kind in KINDS}
    ctx.rule = (
        "base = every AHAB family x revision x target memory {standard, nor, serial_downloader, nand_2k, nand_4k} x kind "
        "{unsigned, signed with a P-256 SRK table} at the base configuration (1 container, 1 image of 1024 B, automatic "
        "offset) with single-bit flips at the first/middle/last byte of every authenticated region; lat = on %s per "
        "equivalence class of the AHAB database data (%d classes): every assignment of the option dimensions with <= %d "
        "departures from the base, both kinds%s; grid = full product memory x offset mode x size class x images per "
        "container x containers; keys = full product SRK key type (8) x DEK blob {absent, present, present + encrypted image} x "
        "certificate {absent, present} per class representative and container version, with tamper sweep; bytes = every byte (%s) of every authenticated region of the signed base per container "
        "version x key type (+ encrypted, + certificate); cli = nxpimage ahab export / verify / parse per class and kind. "
        "A case is distinct/non-trivial when the builder accepted it and the independent reader decoded it; the token is "
        "(class, kind, departures)."
        % ("one representative" if quick else "up to three representatives", len(classes), 1 if quick else 2,
           " (tamper sweep on k<=1; quick: on the k=1 cases over layout-changing dimensions)", "one bit per byte" if quick else "every bit for EC tables, one bit per byte for RSA"))
    ctx.cov["families"] = {}
    ctx.cov["bounds_completed"] = []
    rejected_samples: list = []
    builder_errors: dict = {}
    per_dim: dict = {}
    for name, cases in fam.items():
        if ctx.out_of_budget():
            ctx.cov["families"][name] = {"cases": len(cases), "done": 0, "completed": False}
            continue
        n = acc = rej = err = 0
        heavy = name in ("bytes", "cli", "base", "lat k=1", "keys", "hist", "lists")
        gen = ctx.pool_map(w_case, cases, timeout=600 if heavy else 120, initfn=_init_worker, chunksize=1 if heavy else 4,
                           check_det=2)
        cut = False
        for case, res in gen:
            small = {"f": case["i"]["family"], "r": case["i"]["revision"], "i": case["i"], "k": case["k"], "d": case.get("d", {})}
            for extra in ("t", "tp", "cli", "h", "l"):
                if extra in case:
                    small[extra] = case[extra]
            ok = ctx.absorb(small, res)
            n += 1
            if ok:
                if res.get("rejected"):
                    rej += 1
                    outcome = "rejected"
                    if len(rejected_samples) < 40 and not any(s["d"] == case.get("d") for s in rejected_samples):
                        rejected_samples.append({"f": case["i"]["family"], "k": case["k"], "d": case.get("d", {}), "why": res["rejected"][:160]})
                    if (name == "base" or not case.get("d")) and not case.get("l"):
                        raise core.HarnessError(f"base case rejected: {case['i']['family']}/{case['i']['revision']} {case['k']} {case.get('d')}: {res['rejected']}")
                elif res.get("count", {}).get("accepted"):
                    acc += 1
                    outcome = "accepted"
                else:
                    err += 1
                    outcome = "error"
                    if res.get("builder_error"):
                        builder_errors.setdefault(res["builder_error"][:120], {"f": case["i"]["family"], "k": case["k"], "d": case.get("d", {})})
                if name.startswith("lat"):
                    for d, v in case.get("d", {}).items():
                        t = per_dim.setdefault(d, {}).setdefault(str(v), {"tried": 0, "accepted": 0, "rejected": 0, "error": 0})
                        t["tried"] += 1
                        t[outcome] += 1
            if n in (1, len(cases)):
                ctx.sample({"f": case["i"]["family"], "r": case["i"]["revision"], "k": case["k"], "d": case.get("d", {})}, limit=16)
            if n % 64 == 0 and ctx.time_left() <= 0:
                cut = True
                break
        if cut:
            gen.close()
            ctx.exhaustive = False
        ctx.cov["families"][name] = {"cases": len(cases), "done": n, "accepted": acc, "rejected": rej, "builder_error": err,
                                     "completed": not cut}
        if not cut:
            ctx.cov["bounds_completed"].append(name)
    ctx.cov["per_dimension"] = per_dim
    # why export() refused: cases per (class, record) - "unknown" records are visible here by name
    ctx.cov["export_refusals_by_record"] = {k.split(":", 1)[1]: v for k, v in sorted(ctx.counters.items()) if k.startswith("refusal:")}
    ctx.cov["refusal_table"] = [{"record": rx, "class": cls, "why": why} for rx, cls, why in REFUSAL_TABLE]
    ctx.cov["rejected_samples"] = rejected_samples
    ctx.cov["builder_errors_non_spsdk"] = builder_errors
    ctx.cov["clauses"] = CLAUSES
    ctx.assumptions += [
        "ahab_ref.py is the trusted base: written from the layout tables in the class docstrings of spsdk/image/ahab and "
        "calibrated at the start of every run on the golden AHAB binaries under <repo>/tests (every readable one must be "
        "accepted, the repository's own negative example must be refused for its hash); a disagreement is a harness error",
        "image_offset in the configuration is the absolute offset from the start of the image set (golden ctcm_cm33_signed.yaml "
        "/ cntr_signed_ctcm_cm33.bin: 0xA000 given, entry of the container at 0x400 holds 0x9C00)",
        "AES-CBC IV of an encrypted image = bytes 16..31 of the IV field (golden cntr_encrypted_ctcm_cm33.bin decrypts so "
        "with the DEK of its configuration)",
        "RSASSA-PSS: any salt length is accepted by the reader (the observed length is counted: pss_salt=<n>)",
        "a configuration refused with SPSDKError (schema check, load_from_config, update_fields, export incl. its own "
        "verify().validate()) is 'rejected'; another exception type out of the builder is counted as an observation "
        "(obs:build-error-type:*), not a violation",
        "tamper sweep: 'parse raises' and 'verify() has an ERROR record' both count as reported; a non-SPSDK exception type "
        "is counted (obs:tamper-error-type:*)",
        "not judged in the tamper sweep (counted): a flip of the tag / version byte of a later container that makes it "
        "unrecognisable as a container (obs:tamper-container-vanishes: nothing in the file says how many containers there "
        "should be) and the flip that clears the 'signed' bit of the SRK-set flag (obs:tamper-srk-set-cleared: a well-formed "
        "unsigned container remains; the device life cycle decides)",
        "when export() refuses an image because of its own verify(), the bytes it would have written (image_info().export()) "
        "are shown to the independent reader: valid bytes + every given field present = 'a valid image is reported as "
        "erroneous' (C06.verify-built-clean); verifier records about certificate-key / SRK-record consistency encode a rule "
        "the reader does not model and are not judged (rejected_rule_not_modelled)",
        "equality of built and parsed objects uses SPSDK's own __eq__ of containers, image array entries and signature-block "
        "parts; for the certificate an unset UUID / permission data (None / b'' when built, zero bytes when parsed) counts as "
        "equal (obs:certificate-eq-optional-fields)",
        "Dilithium / ML-DSA second signature, SM2 / SM3, certificates inside version-0 containers and NXP-signed content are "
        "outside",
    ]


def replay(ctx: core.Ctx, rec: dict) -> bool:
    global _SEED
    _SEED = ctx.seed
    _init_worker()
    case = rec["case"]
    res = core.run_with_watchdog(w_case, case, 1200)
    if res.get("__watchdog__"):
        print("watchdog: does not terminate")
        return rec["clause"].endswith(".terminates")
    if res.get("rejected"):
        print("builder rejects the case:", res["rejected"])
    if res.get("builder_error"):
        print("builder error:", res["builder_error"])
    hits = [v for v in res["viol"] if v[0] == rec["clause"] and v[1] == rec["disc"]]
    for v in res["viol"]:
        print(("* " if v in hits else "  ") + f"{v[0]} [{v[1]}] {v[2]}")
    return bool(hits)
