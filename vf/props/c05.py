"""C05 — Secure Binary 3.1: hash chain, block keys and commands decode to the input.

Bounded exhaustive enumeration of executions of the real builder (SecureBinary31 / CertBlockV21 / the 14 command
classes through their public constructors, explicit keys and timestamp) against `vf.ref.rom_sb31` (independent model of
the boot ROM's SB3.1 loader working on bytes + PCK + root public keys).

Case families (each enumerated completely; see enumerate_cases for the exact bounds per tier):
  lat    configuration lattice over DIMS: every assignment with <= k departures from the base (quick k = 2, thorough
         k = 3), the trust dimension being the full product curve x root count x used index x ISK {none, same curve,
         other curve}; every case with the tamper sweep (single-bit flips at the first / middle / last byte of every
         region of the file + truncation)
  iskp   full product ISK constraints x ISK user data x ISK curve x root curve
  len    one LOAD of every data length 0..1319: the plain stream ends at every 16-aligned offset mod 256, block
         counts 1..6
  strad  LOAD(16 k) followed by one command of every class: the second command starts at every 16-aligned offset
  seq    every command sequence of length <= 2 over the boundary-value alphabet ALPHABET (quick: + length 3 over the
         reduced alphabet ALPHABET3; thorough: length 3 over ALPHABET, length 4 over ALPHABET3)
  bits   every bit of the file of a few small base cases flipped (split into parts)
  cli    nxpimage sb31 export through click's CliRunner, a few representatives
  obs    out-of-domain inputs (observation only: counted, never a violation)
  hist   breadth-first search over operation histories on ONE object (alphabet OPS, depth <= 3 quick / 4 thorough,
         thorough goes on to depth 5 when the budget allows), deduplicated on the canonical object state; every export
         of every history is judged independently.  A second alphabet OPS_EXT (export(), export(cert_block=<bytes of a
         separately built block>), add_command, insert_command at 0 / middle / -1, set_commands) runs on the
         representatives HIST_BASES_EXT: every entry point in every order on fresh objects, every public mutator of
         the command container between exports; each file must be accepted and decode to the object's CURRENT list
Before the enumeration the ROM model is calibrated on the repository's golden SB3.1 files (w_golden).

Oracle clauses (ids C05.<name>): see CLAUSES.
"""
from __future__ import annotations

import itertools
import os
import struct
from typing import Any, Optional

from vf import core, fixtures

LEVEL = "model_checking"

CLAUSES = {
    "C05.build-error-type": "a command / certificate block / container constructor raised something other than SPSDKError for an in-domain input",
    "C05.export-error-type": "export() raised something other than SPSDKError for an accepted input",
    "C05.rom-accepts": "the ROM model refuses the first file exported by an object (disc = stage of the model)",
    "C05.reexport-rom-accepts": "the ROM model refuses a later export of the same object for a reason for which it does not refuse a fresh object with the same content (disc = stage of the model)",
    "C05.header-field": "a header field read by the ROM model differs from the value supplied (disc = field)",
    "C05.cert": "the certificate block read by the ROM model differs from the keys / ISK data supplied (disc = item)",
    "C05.commands": "a command decoded by the ROM model differs from the command given (disc = command:field)",
    "C05.reexport-commands": "a later export of an object decodes to the command list the object held at an earlier export, not to its current one",
    "C05.export-differs": "two exports of an unchanged object differ outside the ECDSA signature bytes",
    "C05.history-error": "an operation of a history raised on an object whose first use succeeded, or raised something other than SPSDKError (disc = exception type @ raising function)",
    "C05.tamper-rom-accepts": "the ROM model accepts a file with one bit flipped (a byte outside the signature + hash-chain coverage)",
    "C05.parse-command": "SPSDK's parse_command disagrees with the own decoder on bytes SPSDK exported (disc = command:field)",
    "C05.cli": "nxpimage sb31 export disagrees with the API path / the ROM model",
    "C05.terminates": "a case did not terminate within the watchdog limit",
}

U32 = 0xFFFFFFFF
FAMILY = "lpc55s3x"

# ---------------------------------------------------------------------------------------------
# command alphabet (boundary values, DESIGN §6).  A command spec is a JSON list [kind, fields...].
#   erase addr len mem | load addr mem n | execute addr | call addr | fuses addr nwords | ifr addr n | cmac addr mem n
#   copy addr len dst mem_from mem_to | hashlock addr mem n | keyblob offset wrap_id n | cfgmem addr mem
#   fill addr len pattern | fwcheck value counter_id | reset


def _alphabet() -> list:
    a: list = []
    a += [["erase", 0, 0, 0], ["erase", 4, 1, 0], ["erase", U32, U32, U32], ["erase", 0x1000, 0x100, 1]]
    for n in (0, 1, 15, 16, 17):
        a.append(["load", 4, 0, n])
    a += [["load", U32, U32, 33], ["load", 0, 1, 208], ["load", 0x1000, 0, 209]]  # 208: stream of exactly 256 bytes
    a += [["execute", 0], ["execute", U32], ["call", 0], ["call", U32]]
    a += [["fuses", 0, 1], ["fuses", U32, 4], ["fuses", 4, 5], ["fuses", 4, 0]]
    a += [["ifr", 0, 1], ["ifr", U32, 16], ["ifr", 4, 17], ["ifr", 4, 0]]
    a += [["cmac", 0, 0, 1], ["cmac", U32, U32, 16], ["cmac", 4, 1, 17]]
    a += [["copy", 0, 0, 0, 0, 0], ["copy", U32, U32, U32, U32, U32], ["copy", 4, 0x100, 0x2000, 1, 2]]
    a += [["hashlock", 0, 0, 1], ["hashlock", U32, U32, 16], ["hashlock", 4, 1, 17]]
    a += [["keyblob", 0, 16, 1], ["keyblob", 0xFFFF, 0xFFFF, 16], ["keyblob", 4, 17, 48], ["keyblob", 4, 0, 0]]
    a += [["cfgmem", 0, 0], ["cfgmem", U32, U32], ["cfgmem", 4, 9]]
    a += [["fill", 0, 0, 0], ["fill", U32, U32, U32], ["fill", 4, 0x100, 0xA5]]
    a += [["fwcheck", 0, 0], ["fwcheck", U32, 5], ["fwcheck", 1, 1], ["fwcheck", 1, 2], ["fwcheck", 1, 3], ["fwcheck", 1, 4]]
    a += [["reset"]]
    return a


ALPHABET = _alphabet()
# one or two representatives per command class with distinct field values in every position (so that swapped fields show),
# every raw-size class (16 / 32 B, data of 1 / 2 blocks, unaligned data, the 64-byte hash area) present
ALPHABET3 = [["erase", 0x1000, 0x100, 1], ["load", 4, 0, 1], ["load", 0x1000, 2, 209], ["execute", 0x11], ["call", 0x22],
             ["fuses", 4, 5], ["ifr", 4, 17], ["cmac", 4, 1, 17], ["copy", 4, 0x100, 0x2000, 1, 2], ["hashlock", 4, 1, 17],
             ["keyblob", 4, 17, 48], ["cfgmem", 4, 9], ["fill", 4, 0x100, 0xA5], ["fwcheck", 1, 2], ["reset"]]
ONE_PER_CLASS = [["erase", 0x1000, 0x100, 1], ["load", 0x1000, 2, 40], ["execute", 0x11], ["call", 0x22], ["fuses", 4, 5],
                 ["ifr", 4, 17], ["cmac", 4, 1, 17], ["copy", 4, 0x100, 0x2000, 1, 2], ["hashlock", 4, 1, 17],
                 ["keyblob", 4, 17, 48], ["cfgmem", 4, 9], ["fill", 4, 0x100, 0xA5], ["fwcheck", 1, 2], ["reset"]]
assert len({s[0] for s in ONE_PER_CLASS}) == 14

PROGRAMS = {
    "base": [["erase", 0, 0x1000, 0], ["load", 0x1000, 0, 300]],  # 16 + 32 + 32 + 304 = 384 B: 2 blocks
    "one-block": [["execute", 0x100]],  # 32 B
    "five-block": [["load", 0, 0, 1100], ["reset"]],  # 16 + 32 + 1104 + 16 = 1168 B: 5 blocks
    "all14": ONE_PER_CLASS,
}

# ---------------------------------------------------------------------------------------------
# configuration lattice (E1).  First value of every dimension is the base.


def _trust_values() -> list:
    out = []
    for isk in ("none", "same", "other"):
        for curve in ("p256", "p384"):
            for count in (1, 2, 3, 4):
                for used in range(count):
                    out.append(f"{curve}/{count}/{used}/{isk}")
    assert out[0] == "p256/1/0/none"
    return out


DIMS: dict = {
    "trust": _trust_values(),  # root curve / number of roots / used root / ISK {none, same curve, other curve}
    "kv": ["std", "root-x0", "root-y0", "isk-y0"],  # keys with a leading-zero coordinate (the standard ISK key has X < 2^-8)
    "pck": ["seed32", "seed16", "zero16", "ff32"],
    "kdk": [0, 1, 2, 3],
    "enc": [1, 0],
    "ts": [0x123456, 1, U32, U32 + 1, 0xFFFFFFFFFFFFFFFF],
    "fw": [1, 0, U32],
    "desc": [None, "", "a", "0123456789abcdef", "0123456789abcdefg"],
    "flags": [0, 1, U32],
    "nxp": [0, 1],
    "iskc": [0, 1, U32],
    "iskud": [0, 4, 1, 48],
    "prog": ["base", "one-block", "five-block", "all14"],
}
ISK_ONLY = ("iskc", "iskud")


def lattice(k: int) -> list:
    """All departure dicts with <= k non-base dimensions, fewest departures first."""
    names = list(DIMS)
    out: list = [{}]
    for r in range(1, k + 1):
        for combo in itertools.combinations(names, r):
            for vals in itertools.product(*[DIMS[n][1:] for n in combo]):
                out.append(dict(zip(combo, vals)))
    return out


def applicable(dep: dict) -> bool:
    isk = dep.get("trust", DIMS["trust"][0]).endswith("/none")
    if isk and (any(n in dep for n in ISK_ONLY) or dep.get("kv") == "isk-y0"):
        return False
    return True


def resolve(case: dict) -> dict:
    dep = case.get("h", {})
    p = {n: dep.get(n, vals[0]) for n, vals in DIMS.items()}
    p["program"] = case["p"] if "p" in case else PROGRAMS[p["prog"]]
    return p


def trust_keys(trust: str, kv: str) -> dict:
    """Fixture key names for a trust configuration."""
    curve, count, used, isk = trust.split("/")
    count, used = int(count), int(used)
    roots = [f"{curve}_{i}" for i in range(count)]
    isk_name = None
    if isk != "none":
        icurve = curve if isk == "same" else ("p384" if curve == "p256" else "p256")
        isk_name = f"{icurve}_x0"
        if kv == "isk-y0":
            isk_name = f"{icurve}_y0"
    if kv == "root-x0":
        roots[used] = f"{curve}_x0"
        if isk_name == roots[used]:
            isk_name = f"{curve}_y0"
    elif kv == "root-y0":
        roots[used] = f"{curve}_y0"
        if isk_name == roots[used]:
            isk_name = f"{curve}_x0"
    return {"roots": roots, "used": used, "isk": isk_name}


# ---------------------------------------------------------------------------------------------
# "what was given": the meaning of a command spec, written from the SB3.1 command descriptions, independent of spsdk


def payload(seed: int, idx: int, n: int, tag: str = "d") -> bytes:
    return core.seeded_bytes(seed, f"c05|{tag}|{idx}|{n}", n)


def expected_semantic(spec: list, seed: int, idx: int) -> dict:
    k = spec[0]
    if k == "erase":
        return {"cmd": "erase", "address": spec[1], "length": spec[2], "memory_id": spec[3]}
    if k in ("load", "cmac", "hashlock"):
        name = {"load": "load", "cmac": "loadCMAC", "hashlock": "loadHashLocking"}[k]
        return {"cmd": name, "address": spec[1], "memory_id": spec[2], "data": payload(seed, idx, spec[3])}
    if k in ("execute", "call"):
        return {"cmd": k, "address": spec[1]}
    if k == "fuses":
        return {"cmd": "programFuses", "address": spec[1],
                "words": list(struct.unpack(f"<{spec[2]}L", payload(seed, idx, 4 * spec[2])))}
    if k == "ifr":
        return {"cmd": "programIFR", "address": spec[1], "data": payload(seed, idx, spec[2])}
    if k == "copy":
        return {"cmd": "copy", "address": spec[1], "length": spec[2], "destination": spec[3], "memory_id_from": spec[4],
                "memory_id_to": spec[5]}
    if k == "keyblob":
        return {"cmd": "loadKeyBlob", "offset": spec[1], "key_wrap_id": spec[2], "data": payload(seed, idx, spec[3])}
    if k == "cfgmem":
        return {"cmd": "configureMemory", "address": spec[1], "memory_id": spec[2]}
    if k == "fill":
        return {"cmd": "fillMemory", "address": spec[1], "length": spec[2], "pattern": spec[3]}
    if k == "fwcheck":
        return {"cmd": "checkFwVersion", "value": spec[1], "counter_id": spec[2]}
    if k == "reset":
        return {"cmd": "reset"}
    raise core.HarnessError(f"unknown command spec {spec}")


def spec_size(spec: list) -> int:
    """Bytes of the command in the plain stream (from the format, for the block-count expectation)."""
    k = spec[0]
    r16 = lambda n: (n + 15) // 16 * 16  # noqa
    if k in ("erase", "copy", "fill"):
        return 32
    if k in ("load", "cmac"):
        return 32 + r16(spec[3])
    if k == "hashlock":
        return 32 + r16(spec[3]) + 64
    if k == "fuses":
        return 16 + r16(4 * spec[2])
    if k == "ifr":
        return 16 + r16(spec[2])
    if k == "keyblob":
        return 16 + r16(spec[3])
    return 16


def diff_semantic(exp: dict, got: dict) -> list:
    if exp["cmd"] != got.get("cmd"):
        return ["kind"]
    return [f for f, v in exp.items() if got.get(f) != v]


def _short(c: dict) -> str:
    d = {k: (v.hex()[:32] + f"..({len(v)}B)" if isinstance(v, (bytes, bytearray)) else v) for k, v in c.items() if k != "raw"}
    return core.jdump(d)


# ---------------------------------------------------------------------------------------------
# per-process caches (forked workers)

_CACHE: dict = {}


def _kidx() -> dict:
    if "kidx" not in _CACHE:
        _CACHE["kidx"] = fixtures.key_index()
    return _CACHE["kidx"]


def key_xy(name: str) -> bytes:
    """X || Y of a fixture key, from the numbers in the fixture index (no spsdk)."""
    e = _kidx()[name]
    n = (e["bits"] + 7) // 8
    return int(e["x"], 16).to_bytes(n, "big") + int(e["y"], 16).to_bytes(n, "big")


def _pub(name: str):
    from spsdk.crypto.keys import PublicKeyEcc

    key = ("pub", name)
    if key not in _CACHE:
        _CACHE[key] = PublicKeyEcc.load(fixtures.key_path(name, private=False, enc="pem"))
    return _CACHE[key]


def _sig_provider(name: str):
    from spsdk.crypto.signature_provider import get_signature_provider

    key = ("sp", name)
    if key not in _CACHE:
        _CACHE[key] = get_signature_provider(local_file_key=fixtures.key_path(name, private=True, enc="pem"))
    return _CACHE[key]


def pck_bytes(kind: str, seed: int) -> bytes:
    return {"seed32": core.seeded_bytes(seed, "c05|pck", 32), "seed16": core.seeded_bytes(seed, "c05|pck16", 16),
            "zero16": bytes(16), "ff32": b"\xff" * 32}[kind]


# ---------------------------------------------------------------------------------------------
# building through the public classes


class Rejected(Exception):
    """SPSDKError out of a constructor / export: the builder does not accept this input."""


class WrongType(Exception):
    def __init__(self, where: str, exc: BaseException):
        super().__init__(f"{where}: {type(exc).__name__}: {exc}")
        self.where = where
        self.exc = exc


def _tname(exc: BaseException) -> str:
    t = type(exc)
    return t.__name__ if t.__module__ == "builtins" else f"{t.__module__}.{t.__name__}"


def _site(exc: BaseException) -> str:
    """Innermost spsdk frame of an exception (module.function), for discriminators."""
    tb = exc.__traceback__
    name = "?"
    while tb is not None:
        fn = tb.tb_frame.f_code.co_filename
        if os.sep + "spsdk" + os.sep in fn:
            name = os.path.basename(fn)[:-3] + "." + tb.tb_frame.f_code.co_name
        tb = tb.tb_next
    return name


def mk_cmd(spec: list, seed: int, idx: int):
    from spsdk.sbfile.sb31 import commands as C

    k = spec[0]
    if k == "erase":
        return C.CmdErase(address=spec[1], length=spec[2], memory_id=spec[3])
    if k == "load":
        return C.CmdLoad(address=spec[1], data=payload(seed, idx, spec[3]), memory_id=spec[2])
    if k == "execute":
        return C.CmdExecute(address=spec[1])
    if k == "call":
        return C.CmdCall(address=spec[1])
    if k == "fuses":
        return C.CmdProgFuses(address=spec[1], data=payload(seed, idx, 4 * spec[2]))
    if k == "ifr":
        return C.CmdProgIfr(address=spec[1], data=payload(seed, idx, spec[2]))
    if k == "cmac":
        return C.CmdLoadCmac(address=spec[1], data=payload(seed, idx, spec[3]), memory_id=spec[2])
    if k == "copy":
        return C.CmdCopy(address=spec[1], length=spec[2], destination_address=spec[3], memory_id_from=spec[4],
                         memory_id_to=spec[5])
    if k == "hashlock":
        return C.CmdLoadHashLocking(address=spec[1], data=payload(seed, idx, spec[3]), memory_id=spec[2])
    if k == "keyblob":
        return C.CmdLoadKeyBlob(offset=spec[1], data=payload(seed, idx, spec[3]), key_wrap_id=spec[2])
    if k == "cfgmem":
        return C.CmdConfigureMemory(address=spec[1], memory_id=spec[2])
    if k == "fill":
        return C.CmdFillMemory(address=spec[1], length=spec[2], pattern=spec[3])
    if k == "fwcheck":
        return C.CmdFwVersionCheck(value=spec[1], counter_id=C.CmdFwVersionCheck.CounterID.from_tag(spec[2]))
    if k == "reset":
        return C.CmdReset()
    raise core.HarnessError(f"unknown command spec {spec}")


def build_container(p: dict, seed: int):
    """Construct the container through the public classes.  Returns (SecureBinary31, given)."""
    from spsdk.exceptions import SPSDKError
    from spsdk.sbfile.sb31.images import SecureBinary31
    from spsdk.utils.crypto.cert_blocks import CertBlockV21

    tk = trust_keys(p["trust"], p["kv"])
    enc = bool(p["enc"])
    pck = pck_bytes(p["pck"], seed) if enc else None
    ud = core.seeded_bytes(seed, "c05|iskud", p["iskud"]) if tk["isk"] else b""
    try:
        cb = CertBlockV21(
            root_certs=[_pub(n) for n in tk["roots"]],
            ca_flag=tk["isk"] is None,
            used_root_cert=tk["used"],
            constraints=p["iskc"],
            signature_provider=_sig_provider(tk["roots"][tk["used"]]) if tk["isk"] else None,
            isk_cert=_pub(tk["isk"]) if tk["isk"] else None,
            user_data=ud or None,
        )
        cb.calculate()
        sb = SecureBinary31(
            family=FAMILY,
            cert_block=cb,
            firmware_version=p["fw"],
            signature_provider=_sig_provider(tk["isk"] or tk["roots"][tk["used"]]),
            pck=pck,
            kdk_access_rights=p["kdk"] if enc else None,
            description=p["desc"],
            is_nxp_container=bool(p["nxp"]),
            flags=p["flags"],
            timestamp=p["ts"],
            is_encrypted=enc,
        )
        for i, spec in enumerate(p["program"]):
            sb.sb_commands.add_command(mk_cmd(spec, seed, i))
    except SPSDKError as e:
        raise Rejected(f"{type(e).__name__}: {e}")
    except (core.Watchdog, core.HarnessError):
        raise
    except Exception as e:  # noqa
        raise WrongType("build", e)
    given = {
        "pck": pck, "kdk": p["kdk"], "enc": enc, "roots": [key_xy(n) for n in tk["roots"]], "used": tk["used"],
        "isk": {"key": key_xy(tk["isk"]), "constraints": p["iskc"], "user_data": ud} if tk["isk"] else None,
        "sign_key": key_xy(tk["isk"] or tk["roots"][tk["used"]]),
        "flags": p["flags"], "timestamp": p["ts"], "firmware_version": p["fw"], "image_type": 7 if p["nxp"] else 6,
        "description": ((p["desc"] or "").encode("ascii")[:16]).ljust(16, b"\0"),
    }
    return sb, given


def do_export(sb) -> bytes:
    from spsdk.exceptions import SPSDKError

    try:
        return sb.export()
    except SPSDKError as e:
        raise Rejected(f"{type(e).__name__}: {e}")
    except (core.Watchdog, core.HarnessError):
        raise
    except Exception as e:  # noqa
        raise WrongType("export", e)


# ---------------------------------------------------------------------------------------------
# the oracle on one exported file


def judge(data: bytes, given: dict, program: list, seed: int, viol: list, count: dict, reexport: bool = False,
          payload_index: Optional[list] = None, skip_stages: tuple = (), earlier: tuple = ()) -> Optional[dict]:
    """All clauses on one file.  Returns the model's result (or None when it could not be produced)."""
    from vf.ref import rom_sb31

    res, problems = rom_sb31.analyze(data, given["pck"], root_keys=given["roots"], kdk_access_rights=given["kdk"],
                                     encrypted=given["enc"])
    clause = "C05.reexport-rom-accepts" if reexport else "C05.rom-accepts"
    for stage, msg in problems:
        if stage not in skip_stages:
            viol.append((clause, stage, msg[:300]))
    for n in res.get("notes", ()):
        count["note:" + n.split(":", 1)[-1]] = count.get("note:" + n.split(":", 1)[-1], 0) + 1
    h = res.get("header")
    if h is None:
        return None
    # ---- header fields
    cmd_bytes = sum(spec_size(s) for s in program)
    hlen = len(given["sign_key"]) // 2
    exp_hdr = {"flags": given["flags"], "timestamp": given["timestamp"], "firmware_version": given["firmware_version"],
               "image_type": given["image_type"], "description": given["description"],
               "block_count": (16 + cmd_bytes + 255) // 256, "block_size": 4 + 256 + hlen}
    for f, v in exp_hdr.items():
        if h[f] != v:
            viol.append(("C05.header-field", f, f"{f}: given / expected {v!r}, file holds {h[f]!r}"))
    # ---- certificate block
    cert = res.get("cert")
    if cert is not None:
        if cert["root_count"] != len(given["roots"]):
            viol.append(("C05.cert", "root-count", f"{len(given['roots'])} roots given, record says {cert['root_count']}"))
        if cert["used_root"] != given["used"]:
            viol.append(("C05.cert", "used-root", f"root {given['used']} selected, record says {cert['used_root']}"))
        if cert["root_key"] != given["roots"][given["used"]]:
            viol.append(("C05.cert", "root-key", "root public key in the record is not the selected root key"))
        if cert["ca"] != (given["isk"] is None):
            viol.append(("C05.cert", "ca-flag", f"CA flag {cert['ca']} with ISK {'absent' if given['isk'] is None else 'present'}"))
        if given["isk"] is not None and cert["isk"] is not None:
            for f in ("key", "constraints", "user_data"):
                if cert["isk"][f] != given["isk"][f]:
                    viol.append(("C05.cert", "isk-" + f, f"ISK {f} in the file differs from the one supplied"))
        if cert["sign_key"] != given["sign_key"]:
            viol.append(("C05.cert", "signing-key", "the key the file is to be verified with is not the signing key supplied"))
    # ---- commands
    cmds = res.get("commands")
    if cmds is not None:
        exp = [expected_semantic(s, seed, (payload_index[i] if payload_index else i)) for i, s in enumerate(program)]
        if len(cmds) != len(exp) or any(diff_semantic(e, g) for e, g in zip(exp, cmds)):
            # a valid file that holds the command list of an EARLIER export of this object: one defect, one discriminator
            for prog0, pidx0 in earlier:
                exp0 = [expected_semantic(s, seed, pidx0[i]) for i, s in enumerate(prog0)]
                if len(exp0) == len(cmds) and all(not diff_semantic(e0, g) for e0, g in zip(exp0, cmds)):
                    viol.append(("C05.reexport-commands", "stale-command-list",
                                 f"the file decodes to the command list of an earlier export {[e0['cmd'] for e0 in exp0][:8]}, the "
                                 f"object now holds {[e['cmd'] for e in exp][:8]}"))
                    cmds = None
                    break
    if cmds is not None:
        desync = False
        for i, (e, g) in enumerate(zip(exp, cmds)):
            bad = diff_semantic(e, g)
            for f in bad:
                # a command of the wrong kind after a command that compared equal: the extent of that one is wrong
                disc = f"{exp[i - 1]['cmd']}:following-command-misread" if f == "kind" and i > 0 else f"{e['cmd']}:{f}"
                viol.append(("C05.commands", disc, f"command {i}: given {_short(e)}, decoded {_short(g)}"))
            if "kind" not in bad and len(g["raw"]) != spec_size(program[i]):
                viol.append(("C05.commands", f"{e['cmd']}:size", f"command {i} takes {len(g['raw'])} bytes of the stream, the format "
                             f"says {spec_size(program[i])}"))
                bad = bad + ["size"]
            if "kind" in bad or "size" in bad:
                desync = True  # everything after a command of the wrong kind / size is read from a shifted stream
                break
        if len(exp) != len(cmds) and not desync:
            viol.append(("C05.commands", "count", f"{len(exp)} commands given, {len(cmds)} decoded: {[c['cmd'] for c in cmds][:12]}"))
        for n in res["notes"]:
            if n.endswith("reserved-nonzero"):
                viol.append(("C05.commands", n.split(":", 1)[1], f"{n}: reserved words of the command are not zero"))
    return res


def flip_positions(a: int, b: int, every: bool = False) -> list:
    if every:
        return [(o, bit) for o in range(a, b) for bit in range(8)]
    pos = sorted({a, (a + b - 1) // 2, b - 1})
    return [(o, (o * 5 + 3) % 8) for o in pos]


def region_class(name: str) -> str:
    import re

    return re.sub(r"^block\d+-", "block-", name)


def tamper_sweep(data: bytes, given: dict, res: dict, viol: list, count: dict, every: bool = False,
                 part: Optional[list] = None) -> None:
    from vf.ref import rom_sb31

    regions = sorted(res["regions"], key=lambda r: r[1])
    # coverage by construction of the walk: the regions tile the file
    pos = 0
    for name, a, b in regions:
        if a != pos:
            viol.append(("C05.tamper-rom-accepts", "uncovered-bytes", f"bytes {pos}..{a} of the file belong to no region"))
        pos = max(pos, b)
    if pos != len(data):
        viol.append(("C05.tamper-rom-accepts", "uncovered-bytes", f"bytes {pos}..{len(data)} of the file belong to no region"))
    trials = []
    for name, a, b in regions:
        for (o, bit) in flip_positions(a, b, every):
            trials.append((f"{name}@{o}.{bit}", region_class(name), o, bit))
    trials.append(("truncate-last-block", "block-data", -1, 0))
    trials.append(("truncate-1", "block-data", -2, 0))
    if part is not None:
        trials = trials[part[0]::part[1]]
    for label, rclass, o, bit in trials:
        if o == -1:
            d2 = data[:-(res["header"]["block_size"])]
        elif o == -2:
            d2 = data[:-1]
        else:
            d2 = bytearray(data)
            d2[o] ^= 1 << bit
            d2 = bytes(d2)
        count["tamper_trials"] = count.get("tamper_trials", 0) + 1
        _r, problems = rom_sb31.analyze(d2, given["pck"], root_keys=given["roots"], kdk_access_rights=given["kdk"],
                                        encrypted=given["enc"])
        if not problems:
            viol.append(("C05.tamper-rom-accepts", rclass, f"{label}: the ROM model still accepts the file"))


# ---------------------------------------------------------------------------------------------
# SPSDK's parse_command against the own decoder (differential: same bytes, two readers)


def parsed_semantic(cmd) -> dict:
    from spsdk.sbfile.sb31 import commands as C

    if isinstance(cmd, C.CmdErase):
        return {"cmd": "erase", "address": cmd.address, "length": cmd.length, "memory_id": cmd.memory_id}
    if isinstance(cmd, C.CmdLoadHashLocking):
        return {"cmd": "loadHashLocking", "address": cmd.address, "memory_id": cmd.memory_id, "data": bytes(cmd.data)}
    if isinstance(cmd, C.CmdLoadCmac):
        return {"cmd": "loadCMAC", "address": cmd.address, "memory_id": cmd.memory_id, "data": bytes(cmd.data)}
    if isinstance(cmd, C.CmdLoad):
        return {"cmd": "load", "address": cmd.address, "memory_id": cmd.memory_id, "data": bytes(cmd.data)}
    if isinstance(cmd, C.CmdExecute):
        return {"cmd": "execute", "address": cmd.address}
    if isinstance(cmd, C.CmdCall):
        return {"cmd": "call", "address": cmd.address}
    if isinstance(cmd, C.CmdProgFuses):
        d = bytes(cmd.data)
        return {"cmd": "programFuses", "address": cmd.address, "words": list(struct.unpack(f"<{len(d) // 4}L", d[:len(d) // 4 * 4]))}
    if isinstance(cmd, C.CmdProgIfr):
        return {"cmd": "programIFR", "address": cmd.address, "data": bytes(cmd.data)}
    if isinstance(cmd, C.CmdCopy):
        return {"cmd": "copy", "address": cmd.address, "length": cmd.length, "destination": cmd.destination_address,
                "memory_id_from": cmd.memory_id_from, "memory_id_to": cmd.memory_id_to}
    if isinstance(cmd, C.CmdLoadKeyBlob):
        return {"cmd": "loadKeyBlob", "offset": cmd.address, "key_wrap_id": cmd.key_wrap_id, "data": bytes(cmd.data)}
    if isinstance(cmd, C.CmdConfigureMemory):
        return {"cmd": "configureMemory", "address": cmd.address, "memory_id": cmd.memory_id}
    if isinstance(cmd, C.CmdFillMemory):
        return {"cmd": "fillMemory", "address": cmd.address, "length": cmd.length, "pattern": cmd.pattern}
    if isinstance(cmd, C.CmdFwVersionCheck):
        return {"cmd": "checkFwVersion", "value": cmd.value, "counter_id": cmd.counter_id.tag}
    if isinstance(cmd, C.CmdReset):
        return {"cmd": "reset"}
    return {"cmd": type(cmd).__name__}


def parse_differential(cmds: list, viol: list, count: dict) -> None:
    """`cmds`: commands as decoded by the own decoder (with their raw bytes)."""
    from spsdk.exceptions import SPSDKError
    from spsdk.sbfile.sb31.commands import parse_command

    for c in cmds:
        count["parse_command_calls"] = count.get("parse_command_calls", 0) + 1
        try:
            obj = parse_command(c["raw"])
        except SPSDKError as e:
            viol.append(("C05.parse-command", f"{c['cmd']}:raises-SPSDKError", f"{e}"[:200]))
            continue
        except (core.Watchdog, core.HarnessError):
            raise
        except Exception as e:  # noqa
            viol.append(("C05.parse-command", f"{c['cmd']}:raises-{type(e).__name__}", f"{type(e).__name__}: {e}"[:200]))
            continue
        got = parsed_semantic(obj)
        own = {k: v for k, v in c.items() if k not in ("raw", "hash_area", "length_word", "address_word")}
        for f in diff_semantic(own, got):
            viol.append(("C05.parse-command", f"{c['cmd']}:{f}", f"own decoder {_short(own)}, parse_command {_short(got)}"))
        # and the parsed object must export the bytes it was parsed from
        try:
            again = obj.export()
            if again != c["raw"]:
                viol.append(("C05.parse-command", f"{c['cmd']}:re-export", "parse_command(bytes).export() != bytes"))
        except Exception as e:  # noqa
            viol.append(("C05.parse-command", f"{c['cmd']}:re-export-raises", f"{type(e).__name__}: {e}"[:200]))


# ---------------------------------------------------------------------------------------------
# one configuration case


def mask_signatures(data: bytes, res: dict) -> bytes:
    """File with the (random) ECDSA signature bytes zeroed: block-0 signature and ISK certificate signature."""
    d = bytearray(data)
    for name, a, b in res.get("regions", ()):
        if name in ("signature", "cert-isk-signature"):
            d[a:b] = bytes(b - a)
    return bytes(d)


def run_case(case: dict, seed: int) -> dict:
    viol: list = []
    count: dict = {}
    p = resolve(case)
    try:
        sb, given = build_container(p, seed)
        data = do_export(sb)
    except Rejected as e:
        return {"viol": [], "count": {"rejected": 1}, "distinct": [], "rejected": str(e)[:200]}
    except WrongType as e:
        clause = "C05.build-error-type" if e.where == "build" else "C05.export-error-type"
        viol.append((clause, f"{_tname(e.exc)}@{_site(e.exc)}", str(e)[:300]))
        return {"viol": core.dedupe(viol), "count": count, "distinct": []}
    count["accepted"] = 1
    res = judge(data, given, p["program"], seed, viol, count)
    distinct = []
    if res is not None and res.get("commands") is not None:
        distinct.append(core.short_hash([case.get("p"), case.get("h", {}), case.get("tp")]))
        h = res["header"]
        count[f"blocks={h['block_count']}"] = 1
        count[f"stream_end_mod256={(16 + res['section']['length']) % 256:03d}"] = 1
        if case.get("pd", 1):
            parse_differential(res["commands"], viol, count)
    if case.get("t") and res is not None and res.get("commands") is not None and not any(v[0] == "C05.rom-accepts" for v in viol):
        tamper_sweep(data, given, res, viol, count, every=case["t"] > 1, part=case.get("tp"))
    return {"viol": core.dedupe(viol), "count": count, "distinct": distinct}


# ---------------------------------------------------------------------------------------------
# histories (E2): operations on ONE object

HIST_BASES = [{"trust": t, "enc": e, "prog": pr}
              for t in ("p256/1/0/none", "p384/2/1/none", "p256/2/0/same", "p384/1/0/other")
              for e in (1, 0) for pr in ("one-block", "base")] + [{"trust": "p256/1/0/none", "prog": "all14"}]
OPS = ("E", "S", "V", "A", "B", "X", "O", "C")
# second alphabet (entry-point variants of export + every public mutator of the command container), explored on the
# representatives HIST_BASES_EXT; kept apart from OPS so that the product of the two alphabets is not taken
OPS_EXT = ("E", "P", "A", "I", "M", "N", "T")
OP_DOC = {"P": "export(cert_block=<bytes of a separately built and exported CertBlockV21 with the same keys>)",
          "I": "sb_commands.insert_command(0, cmd)", "M": "sb_commands.insert_command(middle index, cmd)",
          "N": "sb_commands.insert_command(-1, cmd) (documented: append)",
          "T": "sb_commands.set_commands([new cmd] + current commands in reverse order)",
          "E": "export()", "S": "str(obj) (calls validate)", "V": "validate()", "A": "sb_commands.add_command(16-byte command)",
          "B": "sb_commands.add_command(LOAD of 256 bytes: one more block)", "X": "sb_commands.export() (commands blob alone)",
          "O": "build and export a second, different container object in the same process",
          "C": "build and export a second container that shares this object's CertBlockV21 (other timestamp / commands)"}
HIST_ADD = {"A": ["execute", 0x300], "B": ["load", 0x4000, 0, 256]}
HIST_INSERT = {"I": ["fwcheck", 3, 1], "M": ["fill", 0x40, 0x10, 0x11223344], "N": ["call", 0x500]}
HIST_SET_FIRST = ["erase", 0x8000, 0x200, 2]
HIST_BASES_EXT = [{"trust": "p256/2/0/same", "iskud": 4, "prog": "base", "x": 1},
                  {"trust": "p384/2/1/none", "enc": 0, "prog": "one-block", "x": 1},
                  {"trust": "p384/1/0/other", "prog": "all14", "x": 1}]
HIST_BASES = HIST_BASES + HIST_BASES_EXT


def ops_for(b: int) -> tuple:
    return OPS_EXT if HIST_BASES[b].get("x") else OPS
OTHER_BASE = {"trust": "p384/1/0/same", "enc": 1, "prog": "one-block", "ts": 0x777}


def canon(sb, program: list) -> list:
    """Canonical object state: everything export() reads that an operation of the alphabet can change.

    Correctness argument: SecureBinary31.export() is a function of (constructor arguments - fixed per base -, the command
    list, sb_header.{block_count, image_total_length}, sb_commands.{block_count, final_hash}, the cached ISK signature,
    cert_block.header.cert_block_size).  The ISK signature bytes are random, only their presence is state; final_hash
    is a deterministic function of commands + keys (AES-CBC, hashes), so its value can be compared across processes."""
    isk = sb.cert_block.isk_certificate
    return [core.short_hash(program), len(program), sb.sb_header.block_count, sb.sb_header.image_total_length,
            sb.sb_commands.block_count, bytes(sb.sb_commands.final_hash).hex(), bool(isk.signature) if isk else None,
            sb.cert_block.header.cert_block_size, sb.sb_header.timestamp, sb.timestamp,
            # every other attribute the objects carry (memos, counters added later): two histories are merged only when
            # the complete attribute dictionaries agree, so hidden state cannot make the deduplication unsound
            core.short_hash([_vars_repr(sb), _vars_repr(sb.sb_header), _vars_repr(sb.sb_commands),
                             _vars_repr(sb.cert_block.header), _vars_repr(sb.cert_block.root_key_record),
                             _vars_repr(isk, random_bytes=("signature",)) if isk else None])]


def _attr_repr(v: Any) -> Any:
    import hashlib

    if isinstance(v, (bytes, bytearray)):
        return bytes(v).hex() if len(v) <= 64 else "sha1:" + hashlib.sha1(bytes(v)).hexdigest()
    if v is None or isinstance(v, (bool, int, str, float)):
        return v
    if isinstance(v, (list, tuple)):
        return [_attr_repr(x) for x in v]
    if isinstance(v, dict):
        return {str(k): _attr_repr(x) for k, x in sorted(v.items(), key=lambda kv: str(kv[0]))}
    from spsdk.sbfile.sb31.commands import MainCmd

    if isinstance(v, MainCmd):
        try:
            return "cmd:" + hashlib.sha1(v.export()).hexdigest()
        except Exception:  # noqa
            return "cmd:" + type(v).__name__
    return "<" + type(v).__name__ + ">"


def _vars_repr(obj: Any, random_bytes: tuple = ()) -> dict:
    return {k: (bool(v) if k in random_bytes else _attr_repr(v)) for k, v in sorted(vars(obj).items())}


def run_history(case: dict, seed: int) -> dict:
    """case: {"b": base index, "hist": "EAE.."}.  Replays the history on a fresh object; judges the export of every E."""
    viol: list = []
    count: dict = {}
    base = HIST_BASES[case["b"]]
    p = resolve({"h": base})
    try:
        sb, given = build_container(p, seed)
    except (Rejected, WrongType) as e:
        raise core.HarnessError(f"history base rejected: {base}: {e}")
    program = list(p["program"])
    pidx = list(range(len(program)))
    states = [canon(sb, program)]
    exports = 0
    last_masked = None  # (masked bytes, program) of the previous export
    earlier: list = []  # (program, payload indices) at the earlier exports of this object
    judged_all = True
    for step, op in enumerate(case["hist"]):
        try:
            if op in "EP":
                if op == "P":
                    # the documented second form: embed an already serialised block (here: of a separately built
                    # CertBlockV21 object with the same keys / ISK data, as if signed elsewhere and delivered as a file)
                    other, _g = build_container(dict(p, program=[]), seed)
                    data = sb.export(cert_block=other.cert_block.export())
                else:
                    data = sb.export()
                exports += 1
                count["history_exports"] = count.get("history_exports", 0) + 1
                nv = len(viol)
                skip: tuple = ()
                if exports > 1:
                    # a later export is judged against a FRESH object with the same content: what that one already gets
                    # wrong is reported by the input families (clause C05.rom-accepts), not again here
                    from vf.ref import rom_sb31

                    fresh, _g = build_container(dict(p, program=[]), seed)
                    for spec, pi in zip(program, pidx):
                        fresh.sb_commands.add_command(mk_cmd(spec, seed, pi))
                    # (same entry point: a first export(cert_block=...) on a fresh object is a case of its own, "P")
                    d0 = fresh.export(cert_block=other.cert_block.export()) if op == "P" else fresh.export()
                    _r0, pr0 = rom_sb31.analyze(d0, given["pck"], root_keys=given["roots"],
                                                kdk_access_rights=given["kdk"], encrypted=given["enc"])
                    skip = tuple(st for st, _m in pr0)
                res = judge(data, given, program, seed, viol, count, reexport=exports > 1, payload_index=pidx, skip_stages=skip,
                            earlier=earlier)
                earlier.append((list(program), list(pidx)))
                if res is None or res.get("commands") is None:
                    judged_all = False
                clean = len(viol) == nv  # a difference between two exports is reported only when both are valid files
                if not clean:
                    last_masked = None
                elif res is not None and res.get("regions"):
                    m = mask_signatures(data, res)
                    if last_masked is not None and last_masked[1] == [program, pidx] and last_masked[0] != m:
                        i = next((i for i, (x, y) in enumerate(zip(last_masked[0], m)) if x != y), min(len(m), len(last_masked[0])))
                        where = next((region_class(n) for n, a, b in res["regions"] if a <= i < b), "length")
                        viol.append(("C05.export-differs", where, f"export #{exports} differs from the previous export of the "
                                     f"same commands at offset {i} (outside the signature bytes)"))
                    last_masked = (m, [list(program), list(pidx)])
            elif op == "S":
                str(sb)
            elif op == "V":
                sb.validate()
            elif op in HIST_ADD:
                spec = HIST_ADD[op]
                sb.sb_commands.add_command(mk_cmd(spec, seed, 100 + step))
                program.append(spec)
                pidx.append(100 + step)
            elif op in HIST_INSERT:
                spec = HIST_INSERT[op]
                at = {"I": 0, "M": max(1, len(program) // 2), "N": -1}[op]
                sb.sb_commands.insert_command(at, mk_cmd(spec, seed, 300 + step))
                if at == -1:  # documented in insert_command: -1 appends
                    at = len(program)
                program.insert(at, spec)
                pidx.insert(at, 300 + step)
            elif op == "T":
                current = list(sb.sb_commands.commands)
                sb.sb_commands.set_commands([mk_cmd(HIST_SET_FIRST, seed, 400 + step)] + current[::-1])
                program[:] = [HIST_SET_FIRST] + program[::-1]
                pidx[:] = [400 + step] + pidx[::-1]
            elif op == "X":
                sb.sb_commands.export()
                exports += 1  # a later export() of the container is a re-export of the commands blob
            elif op == "O":
                p2 = resolve({"h": OTHER_BASE})
                sb2, given2 = build_container(p2, seed)
                d2 = sb2.export()
                judge(d2, given2, p2["program"], seed, viol, count)
            elif op == "C":
                from spsdk.sbfile.sb31.images import SecureBinary31

                sb3 = SecureBinary31(family=FAMILY, cert_block=sb.cert_block, firmware_version=7,
                                     signature_provider=sb.signature_provider, pck=given["pck"],
                                     kdk_access_rights=given["kdk"] if given["enc"] else None, description="shared",
                                     timestamp=0x999 + step, is_encrypted=given["enc"])
                prog3 = [["fill", 0x10 * step, 0x20, 0x5A5A5A5A], ["load", 0x100, 3, 250]]
                for i, spec in enumerate(prog3):
                    sb3.sb_commands.add_command(mk_cmd(spec, seed, 200 + i))
                given3 = dict(given, flags=0, timestamp=0x999 + step, firmware_version=7, image_type=6,
                              description=b"shared".ljust(16, b"\0"))
                judge(sb3.export(), given3, prog3, seed, viol, count, payload_index=[200, 201])
        except (core.Watchdog, core.HarnessError):
            raise
        except Exception as e:  # noqa
            from spsdk.exceptions import SPSDKError

            judged_all = False
            if isinstance(e, SPSDKError) and op in "EPSVX" and not any(o in "EPSVX" for o in case["hist"][:step]):
                count["history_base_rejected"] = 1  # the builder refuses the object at its first use (see family lat)
            else:
                viol.append(("C05.history-error", f"{_tname(e)}@{_site(e)}", f"step {step} ({op}) of {case['hist']}: {type(e).__name__}: {e}"[:300]))
            break
        states.append(canon(sb, program))
    if judged_all and exports:
        count["traces_validated"] = 1
    return {"viol": core.dedupe(viol), "count": count, "distinct": [], "states": states}


# ---------------------------------------------------------------------------------------------
# nxpimage sb31 export through click's CliRunner

CLI_CASES = [
    {"trust": "p256/1/0/none", "enc": 1},
    {"trust": "p384/4/2/same", "enc": 1, "iskud": 48, "iskc": 1, "kdk": 3, "desc": "0123456789abcdefg", "ts": U32 + 1},
    {"trust": "p384/2/1/other", "enc": 1, "pck": "seed16", "fw": U32, "flags": 1},
    {"trust": "p256/3/0/same", "enc": 0, "kdk": 0, "iskud": 4},
]
# call and reset are in no family's `supported_commands` list of the database: the configuration schema refuses them
CLI_PROGRAM = [["erase", 0x1000, 0x100, 1], ["load", 0x1000, 2, 300], ["cmac", 4, 1, 17], ["hashlock", 8, 0, 33], ["execute", 0x11],
               ["fuses", 4, 5], ["ifr", 4, 16], ["copy", 4, 0x100, 0x2000, 1, 2], ["keyblob", 4, 17, 48],
               ["cfgmem", 4, 9], ["fill", 4, 0x100, 0xA5], ["fwcheck", 1, 2]]


def _yaml_cmd(spec: list, seed: int, idx: int, td: str) -> dict:
    def f(n: int) -> str:
        fn = os.path.join(td, f"d{idx}.bin")
        with open(fn, "wb") as fh:
            fh.write(payload(seed, idx, n))
        return fn

    k = spec[0]
    if k == "erase":
        return {"erase": {"address": spec[1], "size": spec[2], "memoryId": spec[3]}}
    if k == "load":
        return {"load": {"address": spec[1], "memoryId": spec[2], "file": f(spec[3])}}
    if k == "cmac":
        return {"loadCMAC": {"address": spec[1], "memoryId": spec[2], "file": f(spec[3])}}
    if k == "hashlock":
        return {"loadHashLocking": {"address": spec[1], "memoryId": spec[2], "file": f(spec[3])}}
    if k == "execute":
        return {"execute": {"address": spec[1]}}
    if k == "call":
        return {"call": {"address": spec[1]}}
    if k == "fuses":
        words = struct.unpack(f"<{spec[2]}L", payload(seed, idx, 4 * spec[2]))
        return {"programFuses": {"address": spec[1], "values": ",".join(hex(w) for w in words)}}
    if k == "ifr":
        return {"programIFR": {"address": spec[1], "file": f(spec[2])}}
    if k == "copy":
        return {"copy": {"addressFrom": spec[1], "size": spec[2], "addressTo": spec[3], "memoryIdFrom": spec[4], "memoryIdTo": spec[5]}}
    if k == "keyblob":
        return {"loadKeyBlob": {"offset": spec[1], "wrappingKeyId": {16: "NXP_CUST_KEK_INT_SK", 17: "NXP_CUST_KEK_EXT_SK"}[spec[2]],
                                "file": f(spec[3])}}
    if k == "cfgmem":
        return {"configureMemory": {"configAddress": spec[1], "memoryId": spec[2]}}
    if k == "fill":
        return {"fillMemory": {"address": spec[1], "size": spec[2], "pattern": spec[3]}}
    if k == "fwcheck":
        return {"checkFwVersion": {"value": spec[1], "counterId": {1: "nonsecure", 2: "secure"}[spec[2]]}}
    raise core.HarnessError(f"no YAML form for {spec}")


def run_cli_case(case: dict, seed: int) -> dict:
    import tempfile

    import yaml
    from click.testing import CliRunner

    from spsdk.apps import nxpimage
    from spsdk.exceptions import SPSDKError

    viol: list = []
    count: dict = {"cli_cases": 1}
    dep = CLI_CASES[case["cli"]]
    p = resolve({"h": dep, "p": CLI_PROGRAM})
    tk = trust_keys(p["trust"], p["kv"])
    enc = bool(p["enc"])
    with tempfile.TemporaryDirectory(prefix="vf-c05-cli-") as td:
        cb_cfg: dict = {"useIsk": tk["isk"] is not None, "mainRootCertId": tk["used"],
                        "mainRootCertPrivateKeyFile": fixtures.key_path(tk["roots"][tk["used"]], private=True, enc="pem")}
        for i, n in enumerate(tk["roots"]):
            cb_cfg[f"rootCertificate{i}File"] = fixtures.key_path(n, private=False, enc="pem")
        ud = core.seeded_bytes(seed, "c05|iskud", p["iskud"]) if tk["isk"] else b""
        if tk["isk"]:
            cb_cfg["signingCertificateFile"] = fixtures.key_path(tk["isk"], private=False, enc="pem")
            cb_cfg["signingCertificateConstraint"] = p["iskc"]
            if ud:
                with open(os.path.join(td, "ud.bin"), "wb") as fh:
                    fh.write(ud)
                cb_cfg["signCertData"] = os.path.join(td, "ud.bin")
        cb_path = os.path.join(td, "cert_block.yaml")
        with open(cb_path, "w") as fh:
            yaml.safe_dump(cb_cfg, fh)
        out = os.path.join(td, "out.sb3")
        cfg: dict = {
            "family": FAMILY, "containerOutputFile": out, "certBlock": cb_path,
            "signPrivateKey": fixtures.key_path(tk["isk"] or tk["roots"][tk["used"]], private=True, enc="pem"),
            "firmwareVersion": p["fw"], "kdkAccessRights": p["kdk"], "containerConfigurationWord": p["flags"],
            "isNxpContainer": bool(p["nxp"]), "isEncrypted": enc, "timestamp": p["ts"],
            "commands": [_yaml_cmd(s, seed, i, td) for i, s in enumerate(CLI_PROGRAM)],
        }
        if p["desc"] is not None:
            cfg["description"] = p["desc"]
        if enc:
            cfg["containerKeyBlobEncryptionKey"] = pck_bytes(p["pck"], seed).hex()
        cpath = os.path.join(td, "cfg.yaml")
        with open(cpath, "w") as fh:
            yaml.safe_dump(cfg, fh)
        r = CliRunner().invoke(nxpimage.main, ["sb31", "export", "-c", cpath], catch_exceptions=True)
        if r.exit_code != 0 or not os.path.exists(out):
            if isinstance(r.exception, SPSDKError) or r.exit_code == 1 and "SPSDK" in (r.output or ""):
                viol.append(("C05.cli", "export-rejected", f"the CLI refuses a configuration the API accepts: {(r.output or '')[-300:]}"))
            else:
                viol.append(("C05.cli", "export-failed", f"exit {r.exit_code}: {(r.output or '')[-300:]} {r.exception!r}"))
            return {"viol": viol, "count": count, "distinct": []}
        data = open(out, "rb").read()
        rkth_line = [ln for ln in (r.output or "").splitlines() if ln.startswith("RKTH:")]
    count["accepted"] = 1
    try:
        sb, given = build_container(p, seed)
        api = do_export(sb)
    except (Rejected, WrongType) as e:
        viol.append(("C05.cli", "api-rejects", str(e)[:200]))
        return {"viol": viol, "count": count, "distinct": []}
    res = judge(data, given, CLI_PROGRAM, seed, viol, count)
    from vf.ref import certblock_v21, rom_sb31

    if rkth_line and rkth_line[0].split(":", 1)[1].strip() != certblock_v21.rkth_of(given["roots"]).hex():
        viol.append(("C05.cli", "rkth-line", f"{rkth_line[0]} is not the hash of the root keys supplied"))
    res_api, _pr = rom_sb31.analyze(api, given["pck"], root_keys=given["roots"], kdk_access_rights=given["kdk"], encrypted=given["enc"])
    if res is not None and res.get("regions") and res_api.get("regions"):
        a, b = mask_signatures(api, res_api), mask_signatures(data, res)
        if a != b:
            i = next((i for i, (x, y) in enumerate(zip(a, b)) if x != y), min(len(a), len(b)))
            viol.append(("C05.cli", "api-vs-cli-bytes", f"first difference outside the signatures at offset {i} (api {len(a)} B, cli {len(b)} B)"))
    return {"viol": core.dedupe(viol), "count": count, "distinct": [core.short_hash(["cli", dep])]}


# ---------------------------------------------------------------------------------------------
# out-of-domain inputs: observation only (counted per outcome, never a violation)

OBS_CASES = [
    {"what": "timestamp=0 (falsy: replaced by the current time)", "h": {"ts": 0}},
    {"what": "timestamp=2^64", "h": {"ts": 1 << 64}},
    {"what": "firmware_version=2^32", "h": {"fw": 1 << 32}},
    {"what": "flags=2^32", "h": {"flags": 1 << 32}},
    {"what": "description non-ASCII", "h": {"desc": "é"}},
    {"what": "kdk_access_rights=4", "h": {"kdk": 4}},
    {"what": "address=2^32", "p": [["execute", 1 << 32]]},
    {"what": "address=-1", "p": [["erase", -1, 0, 0]]},
    {"what": "erase length=2^32", "p": [["erase", 0, 1 << 32, 0]]},
    {"what": "key blob offset=2^16", "p": [["keyblob", 1 << 16, 16, 4]]},
    {"what": "no command at all", "p": []},
]


def run_obs_case(case: dict, seed: int) -> dict:
    from vf.ref import rom_sb31

    o = OBS_CASES[case["obs"]]
    p = resolve({"h": {k: v for k, v in o.get("h", {}).items()}, **({"p": o["p"]} if "p" in o else {})})
    for k, v in o.get("h", {}).items():
        p[k] = v
    try:
        sb, given = build_container(p, seed)
        data = do_export(sb)
    except Rejected:
        return {"viol": [], "count": {"obs:rejected-SPSDKError": 1}, "distinct": [], "obs": [o["what"], "SPSDKError"]}
    except WrongType as e:
        tn = _tname(e.exc)
        return {"viol": [], "count": {"obs:" + tn: 1}, "distinct": [], "obs": [o["what"], f"{tn}@{_site(e.exc)} ({e.where})"]}
    _res, problems = rom_sb31.analyze(data, given["pck"], root_keys=given["roots"], kdk_access_rights=given["kdk"], encrypted=given["enc"])
    outcome = "accepted; model: " + (problems[0][0] if problems else "ok")
    return {"viol": [], "count": {"obs:accepted": 1}, "distinct": [], "obs": [o["what"], outcome]}


# ---------------------------------------------------------------------------------------------
# calibration of the ROM model on the repository's golden files

GOLDEN_KEYS_DIR = "nxpimage/data/workspace/keys_certs"
GOLDEN_PCK = "nxpimage/data/workspace/keys/userkey.txt"
# not referenced by any test and not in the SB3.1 layout the builder (and the ROM chapters) describe: certificate block
# offset 76 with 32-byte hashes / another magic (an older draft of the format)
GOLDEN_OLD_FORMAT = {"normal_boot_sb3.sb3", "normal_boot_sb3_ft.sb3", "normal_boot_sb3_unencrypted.sb3", "sb3Img.sb3",
                     "sb3Img_unecrypted.sb3"}
# built from cfgs/cert_block/cert_384_2_256_data.yaml, which selects root 2 (mainRootCertId: 2) but names the private key
# of root 0: the ISK certificate in the file is signed by root 0 while the record carries root 2.  The calibration
# demands exactly that explanation (ISK signature verifies under root 0 of the test key set).
GOLDEN_MISMATCHED_ROOT = {"sb3_384_256.sb3"}
# referenced by no test, no configuration in the repository: encrypted with a key the tests do not know
GOLDEN_UNKNOWN_PCK = {"lpc55s3x/sb3_test_384_384.sb3"}
COUNTER_IDS = {"none": 0, "nonsecure": 1, "secure": 2, "radio": 3, "snt": 4, "bootloader": 5}


def _golden_root_sets(tests: str) -> dict:
    from cryptography import x509

    out = {}
    for c in (256, 384):
        keys = []
        for i in range(4):
            pub = x509.load_pem_x509_certificate(open(os.path.join(tests, GOLDEN_KEYS_DIR, f"ec_secp{c}r1_cert{i}.pem"), "rb").read()).public_key()
            n = pub.public_numbers()
            keys.append(n.x.to_bytes(c // 8, "big") + n.y.to_bytes(c // 8, "big"))
        out[c] = keys
    return out


def _int(v: Any) -> int:
    return v if isinstance(v, int) else int(str(v).replace("_", ""), 0)


def _yaml_expected(cmd: dict, ws: str) -> Optional[dict]:
    """Meaning of one command of a test configuration, read with plain yaml (fields per the configuration schema's text)."""
    (name, a), = cmd.items()

    def rd(path: str) -> bytes:
        return open(os.path.join(ws, path.replace("\\", "/").lstrip("./")), "rb").read()

    def words(v: Any) -> list:
        return [v] if isinstance(v, int) else [_int(s.strip()) for s in str(v).split(",")]

    if name == "erase":
        return {"cmd": "erase", "address": _int(a["address"]), "length": _int(a["size"]), "memory_id": _int(a.get("memoryId", 0))}
    if name == "load":
        kind = {"hashlocking": "loadHashLocking", "cmac": "loadCMAC"}.get(a.get("authentication"), "load")
        if a.get("file"):
            d = rd(a["file"])
        elif a.get("values"):
            d = b"".join(struct.pack("<L", w) for w in words(a["values"]))
        else:
            return None
        return {"cmd": kind, "address": _int(a["address"]), "memory_id": _int(a.get("memoryId", 0)), "data": d}
    if name == "loadKeyBlob":
        return {"cmd": "loadKeyBlob", "offset": _int(a["offset"]), "data": rd(a["file"])}
    if name == "programFuses":
        return {"cmd": "programFuses", "address": _int(a["address"]), "words": words(a["values"])}
    if name == "programIFR":
        return {"cmd": "programIFR", "address": _int(a["address"]), "data": rd(a["file"])} if a.get("file") else None
    if name in ("execute", "call"):
        return {"cmd": name, "address": _int(a["address"])}
    if name == "configureMemory":
        return {"cmd": "configureMemory", "address": _int(a["configAddress"]), "memory_id": _int(a.get("memoryId", 0))}
    if name == "fillMemory":
        return {"cmd": "fillMemory", "address": _int(a["address"]), "length": _int(a["size"]), "pattern": _int(a["pattern"])}
    if name == "copy":
        return {"cmd": "copy", "address": _int(a["addressFrom"]), "length": _int(a["size"]), "destination": _int(a["addressTo"]),
                "memory_id_from": _int(a.get("memoryIdFrom", 0)), "memory_id_to": _int(a.get("memoryIdTo", 0))}
    if name == "checkFwVersion":
        return {"cmd": "checkFwVersion", "value": _int(a["value"]), "counter_id": COUNTER_IDS[a["counterId"]]}
    return None


def w_golden(path: str) -> dict:
    """Every golden SB3.1 file of the repository must be accepted by the model, or be refused for a stated, verified reason."""
    import yaml

    from vf.ref import certblock_v21, rom_sb31

    tests = path[:path.index(os.sep + "tests" + os.sep) + 6]
    ws = os.path.join(tests, "nxpimage", "data")
    data = open(path, "rb").read()
    base = os.path.basename(path)
    rel2 = os.path.basename(os.path.dirname(path)) + "/" + base
    roots = _golden_root_sets(tests)
    anchors = [certblock_v21.rkth_of(roots[c][:k]) for c in roots for k in (1, 2, 3, 4)]
    pck = bytes.fromhex(open(os.path.join(tests, GOLDEN_PCK)).read().strip())
    best = None
    for enc in (True, False):
        for r in ((0, 1, 2, 3) if enc else (0,)):
            res, prob = rom_sb31.analyze(data, pck if enc else None, kdk_access_rights=r, encrypted=enc)
            if best is None or len(prob) < len(best[1]):
                best = (res, prob, enc, r)
    res, prob, enc, r = best
    if not prob:
        if res["cert"]["rkth"] not in anchors:
            return {"golden_rejected": f"{path}: RKTH is not the hash of a prefix of the test root keys"}
        cnt = {"golden_accepted": 1, "golden_commands": len(res["commands"])}
        # decoder calibration: the configuration the golden was made from, where the repository has it
        cfgp = os.path.join(ws, "workspace", "cfgs", os.path.basename(os.path.dirname(path)), base[:-4] + ".yaml")
        if os.path.exists(cfgp):
            cfg = yaml.safe_load(open(cfgp))
            exp = [_yaml_expected(c, ws) for c in cfg["commands"]]
            if len(exp) != len(res["commands"]) or ("timestamp" in cfg and res["header"]["timestamp"] != _int(cfg["timestamp"])):
                # the stored file was made from an earlier version of the configuration (the tests compare no bytes)
                cnt["golden_config_is_not_the_source"] = 1
                return {"count": cnt}
            for i, (e, g) in enumerate(zip(exp, res["commands"])):
                if e is None:
                    continue
                bad = diff_semantic(e, g)
                if bad:
                    return {"golden_rejected": f"{path}: command {i} decodes to {_short(g)}, configuration says {_short(e)} ({bad})"}
                cnt["golden_commands_matched_to_config"] = cnt.get("golden_commands_matched_to_config", 0) + 1
            hd = res["header"]
            if "timestamp" in cfg and hd["timestamp"] != _int(cfg["timestamp"]):
                return {"golden_rejected": f"{path}: timestamp {hd['timestamp']} != configured {cfg['timestamp']}"}
            if hd["firmware_version"] != _int(cfg.get("firmwareVersion", 1)) or enc != cfg.get("isEncrypted", True) or \
                    (enc and r != _int(cfg.get("kdkAccessRights", 0))):
                return {"golden_rejected": f"{path}: firmware version / encryption / kdk access rights differ from the configuration"}
            cnt["golden_with_config"] = 1
        return {"count": cnt}
    stages = [s for s, _ in prob]
    if base in GOLDEN_OLD_FORMAT and stages[0] in ("header-cert-offset", "header-magic"):
        return {"count": {"golden_old_format_unreferenced": 1}}
    if base in GOLDEN_MISMATCHED_ROOT and stages == ["cert-isk-signature"]:
        c = certblock_v21.read(data, res["header"]["cert_block_offset"], verify=False)
        isk_start = c["end"] - 96 - (12 + 64 + len(c["isk"]["user_data"]))
        rec = data[c["offset"] + 12:isk_start]
        signed = bytes(rec) + bytes(data[isk_start:c["end"] - 96])
        root0 = certblock_v21.ec_public(2, roots[384][0], "root 0")
        if c["used_root"] == 2 and c["root_key"] == roots[384][2] and certblock_v21.ecdsa_verify(root0, 2, data[c["end"] - 96:c["end"]], signed):
            return {"count": {"golden_test_config_names_wrong_root_key": 1}}
    if rel2 in GOLDEN_UNKNOWN_PCK and stages == ["section-header"]:
        return {"count": {"golden_unknown_pck": 1}}
    return {"golden_rejected": f"{path}: {prob[:3]}"}


def golden_files() -> list:
    import glob

    root = os.path.join(core.REPO, "tests")
    if not os.path.isdir(root):
        root = "/repo/tests"
    return sorted(glob.glob(os.path.join(root, "**", "*.sb3"), recursive=True))


# ---------------------------------------------------------------------------------------------
# worker entry + enumeration

_SEED = 0


def w_case(case: dict) -> dict:
    if "cli" in case:
        return run_cli_case(case, _SEED)
    if "obs" in case:
        return run_obs_case(case, _SEED)
    if "hist" in case:
        return run_history(case, _SEED)
    return run_case(case, _SEED)


def _init_worker() -> None:
    import logging

    logging.disable(logging.CRITICAL)


SEQ_CONFIGS = [{}, {"trust": "p384/1/0/none", "pck": "seed16", "kdk": 2}]
ALL4_CONFIGS = [{}, {"enc": 0}, {"trust": "p384/1/0/none"}, {"trust": "p384/1/0/none", "enc": 0}]


def enumerate_cases(tier: str) -> dict:
    quick = tier == "quick"
    fam: dict = {}
    k = 2 if quick else 3
    kt = k  # lattice bound with tamper sweep
    lat = [d for d in lattice(k) if applicable(d)]
    fam[f"lat k<={kt} (tamper)"] = [{"h": d, "t": 1} for d in lat if len(d) <= kt]
    if k > kt:
        fam[f"lat k<={k}"] = [{"h": d, "pd": 0} for d in lat if len(d) > kt]
    fam["iskp"] = [{"h": {"trust": f"{c}/2/1/{i}", "iskc": ic, "iskud": iu}, "t": 1}
                   for c in ("p256", "p384") for i in ("same", "other") for ic in DIMS["iskc"] for iu in DIMS["iskud"]]
    fam["len"] = [{"h": h, "p": [["load", 0x2000, 0, n]]} for h in (ALL4_CONFIGS[:3:2] if quick else ALL4_CONFIGS)
                  for n in range(0, 1320)]
    # block numbers beyond one byte (KDF constant, block-number word): 257 / 258 / 274 blocks
    fam["len"] += [{"h": h, "p": [["load", 0x2000, 0, n]], "pd": 0} for h in ALL4_CONFIGS[:3:2] for n in (65488, 65489, 70000)]
    fam["strad"] = [{"h": h, "p": [["load", 0x2000, 0, 16 * i], c]} for h in SEQ_CONFIGS for i in range(16) for c in ONE_PER_CLASS]
    fam["seq<=1:tamper"] = [{"h": h, "p": [c], "t": 1} for h in ALL4_CONFIGS for c in ALPHABET]
    fam["seq=2"] = [{"h": h, "p": [a, b], "pd": 0} for h in SEQ_CONFIGS for a in ALPHABET for b in ALPHABET]
    bits = [{}, {"trust": "p384/2/1/same", "iskud": 4}] if quick else \
        [{}, {"enc": 0}, {"trust": "p384/2/1/same", "iskud": 4}, {"trust": "p256/4/3/other"}, {"trust": "p384/1/0/none", "prog": "base"}]
    fam["bits"] = [{"h": {"prog": "one-block", **h}, "t": 2, "tp": [i, 16], "pd": 0} for h in bits for i in range(16)]
    fam["cli"] = [{"cli": i} for i in range(len(CLI_CASES))]
    fam["obs"] = [{"obs": i} for i in range(len(OBS_CASES))]
    if quick:
        fam["seq=3:reduced"] = [{"h": {}, "p": [a, b, c], "pd": 0} for a in ALPHABET3 for b in ALPHABET3 for c in ALPHABET3]
    else:
        fam["seq=3"] = [{"h": h, "p": [a, b, c], "pd": 0} for h in SEQ_CONFIGS for a in ALPHABET for b in ALPHABET for c in ALPHABET]
        fam["seq=4:reduced"] = [{"h": {}, "p": [a, b, c, d], "pd": 0} for a in ALPHABET3 for b in ALPHABET3 for c in ALPHABET3
                                for d in ALPHABET3]
    return fam


class HistoryBfs:
    """E2: level-synchronous BFS over operation histories per base object, deduplicated on the canonical state.

    A state is the history that reaches it (live objects do not copy): every node is replayed on a fresh object in a
    worker; only the last operation's export needs judging there, its prefixes were judged as nodes of earlier levels."""

    def __init__(self, ctx: core.Ctx):
        self.ctx = ctx
        self.seen: dict = {}  # (base, state hash) -> shortest history
        self.frontier = [(b, "") for b in range(len(HIST_BASES))]
        self.transitions = 0
        self.traces = 0
        self.levels: list = []
        self.completed = 0

    def level(self, optional: bool = False) -> bool:
        """Run one more level.  Returns False when the budget cut it (`optional`: a cut is not a loss of the stated bound)."""
        ctx = self.ctx
        d = self.completed + 1
        cases = [{"b": b, "hist": h + op} for (b, h) in self.frontier for op in ops_for(b)]
        nxt = []
        new_states = 0
        done = 0
        gen = ctx.pool_map(w_case, cases, timeout=60, initfn=_init_worker, chunksize=8, check_det=3 if d == 1 else 0)
        for case, res in gen:
            ok = ctx.absorb(case, res)
            self.transitions += 1
            done += 1
            if done % 2048 == 0 and ctx.time_left() <= 0:
                gen.close()
                self.levels.append({"depth": d, "histories": len(cases), "histories_run": done, "completed": False})
                if not optional:
                    ctx.exhaustive = False
                return False
            if not ok:
                continue
            self.traces += res["count"].get("traces_validated", 0)
            st = res["states"]
            if d == 1:
                self.seen.setdefault((case["b"], core.short_hash(st[0])), "")
            if len(st) != len(case["hist"]) + 1:
                continue  # the history stopped on an exception (reported or counted)
            key = (case["b"], core.short_hash(st[-1]))
            if key not in self.seen:
                self.seen[key] = case["hist"]
                new_states += 1
                nxt.append((case["b"], case["hist"]))
                ctx.add_distinct("hist|%d|%s" % key)
            if case["hist"] in ("E", "EE", "EAE", "XEB", "SCEBE", "P", "PE", "EIE", "ETE"):
                ctx.sample(case, limit=30)
        self.levels.append({"depth": d, "histories": len(cases), "histories_run": done, "new_states": new_states, "completed": True})
        self.frontier = nxt
        self.completed = d
        return True

    def report(self) -> None:
        cov = self.ctx.cov
        cov["states"] = len(self.seen)
        cov["transitions"] = self.transitions
        cov["traces_validated_against_impl"] = self.traces
        cov["history_depth_completed"] = self.completed
        cov["history_levels"] = self.levels
        cov["history_bases"] = HIST_BASES
        cov["history_ops"] = OP_DOC


def run(ctx: core.Ctx) -> None:
    global _SEED
    _SEED = ctx.seed
    # import in the parent so that forked workers share the modules
    import spsdk.apps.nxpimage  # noqa
    import spsdk.sbfile.sb31.images  # noqa
    from vf.ref import rom_sb31  # noqa

    _kidx()
    quick = ctx.tier == "quick"
    # ---- calibration of the trusted base on the repository's golden files
    gold = golden_files()
    for path, res in ctx.pool_map(w_golden, gold, timeout=120, initfn=_init_worker, chunksize=1, check_det=0):
        if res.get("__crash__"):
            raise core.HarnessError(f"golden calibration crashed on {path}: {res['__crash__']}\n{res.get('tb', '')}")
        if res.get("golden_rejected"):
            raise core.HarnessError(f"ROM model rejects a golden file of the repository: {res['golden_rejected']}")
        for kname, n in res.get("count", {}).items():
            ctx.count(kname, n)
    ctx.cov["golden_files"] = {"found": len(gold), **{k: v for k, v in ctx.counters.items() if k.startswith("golden_")}}
    if gold and not ctx.counters.get("golden_accepted"):
        raise core.HarnessError("no golden SB3.1 file was accepted by the ROM model")
    fam = enumerate_cases(ctx.tier)
    ctx.rule = (
        "Families, each enumerated completely: lat = every assignment of the %d configuration dimensions with <= %d departures "
        "from the base (trust = full product root curve x root count x used index x ISK none/same/other curve: %d values; "
        "<= %d departures with the tamper sweep: single-bit flips at first/middle/last byte of every region + truncation); "
        "iskp = ISK constraints x user data x ISK curve x root curve; len = one LOAD of every length 0..1319 (stream ends at "
        "every 16-aligned offset mod 256, 1..6 blocks) x %d configurations; strad = LOAD(16k), k = 0..15, followed by one "
        "command of each of the 14 classes; seq = every command sequence of length <= 2 over the %d-symbol boundary alphabet "
        "(length 1 under 4 configurations with tamper sweep, length 2 under 2)%s; bits = every bit of the file of %d small "
        "base cases; cli = %d nxpimage sb31 export runs (CliRunner); hist = BFS over operation histories (alphabet %s; on the last %d of the base objects the "
        "alphabet %s: export(cert_block=bytes) and every public mutator of the command container) up to "
        "depth %d on %d base objects, deduplicated on the canonical object state (all attributes of the objects).  A case is distinct/non-trivial when the "
        "builder accepted it and the ROM model decoded the command stream; the token is (program, departures) or (base, "
        "canonical state)."
        % (len(DIMS), 2 if quick else 3, len(DIMS["trust"]), 2 if quick else 3, 2 if quick else 4, len(ALPHABET),
           "; length 3 over the %d-symbol reduced alphabet" % len(ALPHABET3) if quick else
           "; length 3 over the full alphabet under 2 configurations; length 4 over the %d-symbol reduced alphabet" % len(ALPHABET3),
           len(fam["bits"]) // 16, len(CLI_CASES), "".join(OPS), len(HIST_BASES_EXT), "".join(OPS_EXT), 3 if quick else 4,
           len(HIST_BASES)))
    ctx.cov["alphabet"] = len(ALPHABET)
    ctx.cov["alphabet_reduced"] = len(ALPHABET3)
    ctx.cov["dimensions"] = {n: len(v) for n, v in DIMS.items()}
    ctx.cov["families"] = {}
    ctx.cov["bounds_completed"] = []
    rejected_samples: list = []
    observations: list = []
    per_dim: dict = {}
    # ---- histories first (the part the level is named after), then the input families, long sweeps last
    bfs = HistoryBfs(ctx)
    for _ in range(3 if quick else 4):
        if ctx.out_of_budget() or not bfs.level():
            break
    bfs.report()
    for name, cases in fam.items():
        if ctx.out_of_budget():
            ctx.cov["families"][name] = {"cases": len(cases), "done": 0, "completed": False}
            continue
        n = acc = rej = err = 0
        heavy = "tamper" in name or name in ("cli", "bits", "iskp")
        gen = ctx.pool_map(w_case, cases, timeout=120 if heavy else 30, initfn=_init_worker,
                           chunksize=1 if heavy else 16, check_det=3)
        cut = False
        for case, res in gen:
            ok = ctx.absorb(case, res)
            n += 1
            if ok:
                if res.get("rejected"):
                    rej += 1
                    outcome = "rejected"
                    if len(rejected_samples) < 12:
                        rejected_samples.append({"case": case, "why": res["rejected"]})
                    if not case.get("h") and "p" not in case:
                        raise core.HarnessError(f"base case rejected: {case}: {res['rejected']}")
                elif res.get("count", {}).get("accepted") or "obs" in case:
                    acc += 1
                    outcome = "accepted"
                else:
                    err += 1
                    outcome = "error"
                if res.get("obs"):
                    observations.append(res["obs"])
                if name.startswith("lat"):
                    for d, v in case.get("h", {}).items():
                        t = per_dim.setdefault(d, {}).setdefault(str(v), {"tried": 0, "accepted": 0, "rejected": 0, "error": 0})
                        t["tried"] += 1
                        t[outcome] += 1
            if n in (1, len(cases)):
                ctx.sample(case, limit=24)
            if n % 512 == 0 and ctx.time_left() <= 0:
                cut = True
                break
        if cut:
            gen.close()
            ctx.exhaustive = False
            ctx.cov["families"][name] = {"cases": len(cases), "done": n, "accepted": acc, "rejected": rej,
                                         "builder_error": err, "completed": False}
            continue
        ctx.cov["families"][name] = {"cases": len(cases), "done": n, "accepted": acc, "rejected": rej,
                                     "builder_error": err, "completed": True}
        ctx.cov["bounds_completed"].append(name)
    if not quick and bfs.completed == 4 and ctx.time_left() > 500:
        # one more level where the budget allows it (not part of the stated bound: a cut here is reported, not a loss)
        bfs.level(optional=True)
        bfs.report()
    ctx.cov["per_dimension"] = per_dim
    ctx.cov["rejected_samples"] = rejected_samples
    ctx.cov["observations_out_of_domain"] = observations
    ctx.cov["stream_end_offsets_mod256"] = sorted(int(k.split("=")[1]) for k in ctx.counters if k.startswith("stream_end_mod256="))
    ctx.cov["block_counts_seen"] = sorted(int(k.split("=")[1]) for k in ctx.counters if k.startswith("blocks="))
    ctx.cov["clauses"] = CLAUSES
    ctx.assumptions += [
        "rom_sb31.py + certblock_v21.py are the trusted base: written from the SB 3.1 / certificate block v2.1 format "
        "description and calibrated at the start of every run on every golden .sb3 file under <repo>/tests (PCK and root keys "
        "of the tests; decoded commands compared with the YAML configuration the golden was made from); a golden that is "
        "refused for any reason other than the three stated and verified ones is a harness error",
        "the model demands: block hash type = hash of the signing key's curve; block-0 length field = offset of data block 1; "
        "file length = block 0 + block count x block size; last block's next-hash = zeros; section uid 1 / type 1; fewer "
        "than 256 bytes after the section; reserved words of the memory-id / pattern / copy blocks = 0",
        "fields the ROM ignores (length word of execute/call/reset, the 64-byte hash area of loadHashLocking, padding "
        "content) are not compared with expectations; non-zero padding is counted as a note",
        "SB3.1 has no parser in SPSDK: the tamper sweep exercises the model only (every byte of the file lies in a region "
        "whose single-bit corruption the model refuses = the coverage claim of the statement)",
        "out-of-domain inputs (timestamp 0 or >= 2^64, values >= 2^32 or negative, non-ASCII description, key blob offset >= 2^16, "
        "fuse data not a multiple of 4 bytes) are observations only (family obs)",
        "private keys handed to the builder match the public keys (a root private key that does not belong to the selected "
        "root certificate is accepted silently by CertBlockV21 - see the two sb3_384_256 goldens - and is not enumerated)",
        "ECDSA signature bytes are random: verified, masked before two exports are compared",
    ]


def replay(ctx: core.Ctx, rec: dict) -> bool:
    global _SEED
    _SEED = ctx.seed
    _init_worker()
    case = rec["case"]
    res = core.run_with_watchdog(w_case, case, 600)
    if res.get("__watchdog__"):
        print("watchdog: does not terminate")
        return rec["clause"].endswith(".terminates")
    if res.get("rejected"):
        print("builder rejects the case:", res["rejected"])
    hits = [v for v in res["viol"] if v[0] == rec["clause"] and v[1] == rec["disc"]]
    for v in res["viol"]:
        print(("* " if v in hits else "  ") + f"{v[0]} [{v[1]}] {v[2]}")
    return bool(hits)
