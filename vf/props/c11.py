"""C11 — registers and bit-fields as independent bit-vectors.

Engine E2 (explicit-state BFS): per generated layout, breadth-first search over all operation
sequences up to a depth over a small alphabet, executed on *real* Registers objects built by
the real `_load_from_spec`; a state is the history reaching it (replayed on a fresh object),
deduplicated on the canonical raw state.  Oracle = a dict of ints (RegsModel below).

canon(obj) = (raw value of every leaf register (plain + sub-registers), len(_registers),
alias lists).  Correctness of the abstraction: every observable of a Registers object
(values, fields, group views, export, config) is a function of the layout (fixed per search)
and of these raw leaf values; nothing else is mutable except `_registers` itself and alias
lists, which are included.
"""
from __future__ import annotations

import copy
from typing import Any, Optional

from vf import core

LEVEL = "model_checking"

# ---------------------------------------------------------------------------------------------
# layouts: spec dicts in the JSON format of spsdk/data register files + grouped_registers


def _reg(uid, name, off, width, fields=None, reset=0):
    d = {"id": uid, "name": name, "offset_int": hex(off), "reg_width": str(width), "description": name,
         "reset_value_int": hex(reset)}
    if fields is not None:
        d["bitfields"] = fields
    return d


def _bf(uid, name, width, reset=0, enums=None, proc=None):
    d: dict[str, Any] = {"id": uid, "name": name, "width": str(width), "access": "RW", "reset_value_int": hex(reset),
                         "description": name}
    if enums:
        d["values"] = [{"name": n, "value": v, "description": n} for n, v in enums]
    if proc:
        d["config_preprocess"] = proc
    return d


def _gap(width):
    return {"width": str(width)}


def layouts(tier: str) -> list[dict]:
    L = []

    def add(name, regs, groups=None, endian="big", depth_q=3, depth_t=5):
        L.append({"name": name, "spec": {"groups": [{"registers": regs}]}, "grouped": groups or [],
                  "endian": endian, "depth": depth_q if tier == "quick" else depth_t})

    # all compositions of 8 bits into <= 3 fields: representative boundary partitions
    add("w8-full", [_reg("r0", "R0", 0, 8, [_bf("r0f0", "F0", 8)])])
    add("w8-3-5", [_reg("r0", "R0", 0, 8, [_bf("r0f0", "F0", 3, enums=[("ZERO", 0), ("FIVE", 5)]), _bf("r0f1", "F1", 5)])])
    add("w8-1-3-4", [_reg("r0", "R0", 0, 8, [_bf("r0f0", "F0", 1, enums=[("OFF", 0), ("ON", 1)]), _bf("r0f1", "F1", 3),
                                            _bf("r0f2", "F2", 4, reset=0xA)])])
    add("w8-1-gap-1", [_reg("r0", "R0", 0, 8, [_bf("r0f0", "F0", 1), _gap(6), _bf("r0f2", "F2", 1)])])
    add("w16-shift", [_reg("r0", "R0", 0, 16, [_bf("r0f0", "F0", 4, proc="SHIFT_RIGHT:COUNT=2"),
                                              _bf("r0f1", "F1", 12)])])
    # two fields with the same processor type and different parameters (and a second register with a third)
    add("w32-two-shifts", [_reg("r0", "R0", 0, 32, [_bf("r0f0", "F0", 8, proc="SHIFT_RIGHT:COUNT=2"),
                                                   _bf("r0f1", "F1", 8, proc="SHIFT_RIGHT:COUNT=4"), _bf("r0f2", "F2", 16)]),
                           _reg("r1", "R1", 4, 16, [_bf("r1f0", "G0", 12, proc="SHIFT_RIGHT:COUNT=8"), _bf("r1f1", "G1", 4)])],
        depth_q=2, depth_t=3)
    add("w32-two-regs", [_reg("r0", "R0", 0, 32, [_bf("r0f0", "F0", 1), _bf("r0f1", "F1", 30), _bf("r0f2", "F2", 1)], reset=0),
                         _reg("r1", "R1", 4, 32, None, reset=0x12345678)], depth_q=3, depth_t=4)
    add("w32-le", [_reg("r0", "R0", 0, 32, [_bf("r0f0", "F0", 16), _bf("r0f1", "F1", 16)]),
                   _reg("r1", "R1", 4, 16, None)], endian="little", depth_q=3, depth_t=4)
    add("w64", [_reg("r0", "R0", 0, 64, [_bf("r0f0", "F0", 63), _bf("r0f1", "F1", 1)])])
    add("w128", [_reg("r0", "R0", 0, 128, None)])
    add("w512", [_reg("r0", "R0", 0, 512, [_bf("r0f0", "F0", 1), _gap(510), _bf("r0f2", "F2", 1)])])
    sub2 = [_reg("s0", "S0", 0, 32, [_bf("s0f0", "A", 4), _bf("s0f1", "B", 28)]), _reg("s1", "S1", 4, 32, None)]
    add("grp2", copy.deepcopy(sub2), [{"uid": "g", "name": "G", "sub_regs": ["s0", "s1"]}], depth_q=3, depth_t=4)
    add("grp2-revorder", copy.deepcopy(sub2), [{"uid": "g", "name": "G", "sub_regs": ["s0", "s1"], "reverse_subregs_order": True}],
        depth_q=3, depth_t=4)
    add("grp2-reversed", copy.deepcopy(sub2), [{"uid": "g", "name": "G", "sub_regs": ["s0", "s1"], "reversed": True}],
        depth_q=3, depth_t=4)
    add("grp2-reversed-le", copy.deepcopy(sub2), [{"uid": "g", "name": "G", "sub_regs": ["s0", "s1"], "reversed": True}],
        endian="little", depth_q=3, depth_t=4)
    sub4 = [_reg(f"s{i}", f"S{i}", 4 * i, 32, None) for i in range(4)]
    add("grp4-hex-reversed", copy.deepcopy(sub4), [{"uid": "g", "name": "G", "width": 128, "sub_regs": ["s0", "s1", "s2", "s3"],
                                                   "reversed": True, "config_as_hexstring": True}], depth_q=3, depth_t=4)
    # alternative widths: the combinations the device database really uses (PFR ROTKH / fuse RKTH: reversed + hex string,
    # little-endian base; CUST_MK_SK: plain), then the remaining combinations
    add("grp4-alt-reversed-le", copy.deepcopy(sub4), [{"uid": "g", "name": "G", "width": 128, "sub_regs": ["s0", "s1", "s2", "s3"],
                                                      "reversed": True, "config_as_hexstring": True, "alternative_widths": [64]}],
        endian="little", depth_q=3, depth_t=4)
    add("grp4-alt-plain-le", copy.deepcopy(sub4), [{"uid": "g", "name": "G", "width": 128, "sub_regs": ["s0", "s1", "s2", "s3"],
                                                   "config_as_hexstring": True, "alternative_widths": [64]}],
        endian="little", depth_q=3, depth_t=4)
    add("grp4-alt-reversed-be", copy.deepcopy(sub4), [{"uid": "g", "name": "G", "width": 128, "sub_regs": ["s0", "s1", "s2", "s3"],
                                                      "reversed": True, "config_as_hexstring": True, "alternative_widths": [64]}],
        depth_q=3, depth_t=4)
    add("grp4-alt-revorder-be", copy.deepcopy(sub4), [{"uid": "g", "name": "G", "width": 128, "sub_regs": ["s0", "s1", "s2", "s3"],
                                                      "reverse_subregs_order": True, "alternative_widths": [64]}],
        depth_q=3, depth_t=4)
    # all three group options together (each pair is used by the device database, the triple by none - yet)
    add("grp4-alt-revorder-reversed-le", copy.deepcopy(sub4), [{"uid": "g", "name": "G", "width": 128, "sub_regs": ["s0", "s1", "s2", "s3"],
                                                               "reverse_subregs_order": True, "reversed": True, "config_as_hexstring": True,
                                                               "alternative_widths": [64]}],
        endian="little", depth_q=3, depth_t=4)
    # layouts the spec loader cannot produce, built through the public class API (Register(reverse=True) with bit-fields;
    # a group register with bit-fields of its own, one of them straddling the sub-register boundary)
    add("api-reversed-fields", [_reg("r0", "R0", 0, 32, [_bf("r0f0", "F0", 8), _bf("r0f1", "F1", 16), _bf("r0f2", "F2", 8)])],
        depth_q=2, depth_t=3)
    L[-1]["api"] = {"reverse": ["r0"]}
    # widths that are not 2^n bytes (24 and 48 bits), byte-reversed: width-from-magnitude helpers round to 2^n bytes by default
    add("api-reversed-w48-w24", [_reg("r0", "R0", 0, 48, [_bf("r0f0", "F0", 8), _bf("r0f1", "F1", 40)]), _reg("r1", "R1", 8, 24, None)],
        depth_q=2, depth_t=3)
    L[-1]["api"] = {"reverse": ["r0", "r1"]}
    add("api-group-own-fields", copy.deepcopy(sub2), [{"uid": "g", "name": "G", "sub_regs": ["s0", "s1"]}], depth_q=2, depth_t=3)
    L[-1]["api"] = {"group_fields": {"g": [["GLOW", 0, 28], ["GX", 28, 8], ["GHIGH", 36, 28]]}}
    # fuse map (FuseRegisters / FuseRegister): the same register file plus lock views derived from a lock register
    fl = _reg("lock", "LOCK", 0, 32, [_bf("lkf0", "W_A", 1), _bf("lkf1", "R_A", 1), _bf("lkf2", "O_A", 1), _bf("lkf3", "W_G", 1),
                                      _bf("lkf4", "REST", 28)])
    fa = _reg("fa", "FA", 4, 32, [_bf("faf0", "LOW", 16), _bf("faf1", "HIGH", 16)])
    fg0, fg1 = _reg("fg0", "FG0", 8, 32, None), _reg("fg1", "FG1", 12, 32, None)
    for i, r in enumerate((fl, fa, fg0, fg1)):
        r["index_int"] = hex(i)
    fa["lock"] = {"register_id": "lock", "write_lock_int": "0x1", "read_lock_int": "0x2", "operation_lock_int": "0x4"}
    fg0["lock"] = {"register_id": "lock", "write_lock_int": "0x8"}
    add("fuse-locks", [fl, fa, fg0, fg1], [{"uid": "fg", "name": "FG", "sub_regs": ["fg0", "fg1"]}], depth_q=2, depth_t=3)
    L[-1]["cls"] = "fuse"
    L[-1]["locks"] = {"fa": {"lock": "lock", "WRITE_LOCK": 1, "READ_LOCK": 2, "OPERATION_LOCK": 4},
                      "fg0": {"lock": "lock", "WRITE_LOCK": 8}}
    return L


def build(layout: dict):
    from spsdk.utils.misc import Endianness
    from spsdk.utils.registers import Registers

    if layout.get("cls") == "fuse":
        from spsdk.fuses.fuse_registers import FuseRegisters

        regs = FuseRegisters.__new__(FuseRegisters)
        regs.shadow_reg_base_addr = None
    else:
        regs = Registers.__new__(Registers)
    regs._registers = []
    regs.family = "verif"
    regs.revision = "latest"
    regs.base_endianness = Endianness.BIG if layout["endian"] == "big" else Endianness.LITTLE
    regs.feature = "verif"
    regs.base_key = None
    regs._load_from_spec(copy.deepcopy(layout["spec"]), copy.deepcopy(layout["grouped"]))
    api = layout.get("api") or {}
    if api:
        from spsdk.utils.registers import RegsBitField

        for uid in api.get("reverse", []):
            regs.get_reg(uid).reverse = True
        for gid, fl in api.get("group_fields", {}).items():
            g = regs.get_reg(gid)
            for name, off, w in fl:
                g.add_bitfield(RegsBitField(g, name, off, w, f"{gid}-{name}"))
    return regs


# ---------------------------------------------------------------------------------------------
# reference model


class RegsModel:
    """Leaf registers as ints; groups as views. Built from the layout dict only."""

    def __init__(self, layout: dict):
        self.layout = layout
        self.leaf: dict[str, int] = {}
        self.width: dict[str, int] = {}
        self.fields: dict[str, list[dict]] = {}
        self.reset: dict[str, int] = {}
        self.order: list[str] = []
        self.groups: dict[str, dict] = {}
        member = {}
        for g in layout["grouped"]:
            self.groups[g["uid"]] = g
            for s in g["sub_regs"]:
                member[s] = g["uid"]
        self.top: list[str] = []  # order of top-level registers
        for r in layout["spec"]["groups"][0]["registers"]:
            uid = r["id"]
            w = int(r["reg_width"])
            self.width[uid] = w
            self.order.append(uid)
            fl = []
            off = 0
            rv = int(r.get("reset_value_int", "0"), 16)
            for b in r.get("bitfields", []) or []:
                bw = int(b["width"])
                if "name" in b:
                    proc = b.get("config_preprocess")
                    shift = int(proc.split("=")[1]) if proc else 0
                    fl.append({"name": b["name"], "off": off, "w": bw, "shift": shift,
                               "enums": {v["name"]: v["value"] for v in b.get("values", [])},
                               "reset": int(b.get("reset_value_int", "0"), 16)})
                    rv |= (int(b.get("reset_value_int", "0"), 16) & ((1 << bw) - 1)) << off
                off += bw
            self.fields[uid] = fl
            self.reset[uid] = rv
            self.leaf[uid] = rv
            t = member.get(uid, uid)
            if t not in self.top:
                self.top.append(t)
        for gid, g in self.groups.items():
            subs = g["sub_regs"]
            self.width[gid] = int(g.get("width", 0)) or sum(self.width[s] for s in subs)
        api = layout.get("api") or {}
        self.rev_plain = set(api.get("reverse", []))
        for gid, fl in api.get("group_fields", {}).items():
            self.fields[gid] = [{"name": n, "off": o, "w": w, "shift": 0, "enums": {}, "reset": 0} for n, o, w in fl]

    # group helpers --------------------------------------------------------------------------
    def g_raw(self, gid: str) -> int:
        g = self.groups[gid]
        subs = g["sub_regs"]
        sw = self.width[subs[0]]
        W = self.width[gid]
        v = 0
        for i, s in enumerate(subs):
            pos = W - (i + 1) * sw if g.get("reverse_subregs_order") else i * sw
            v |= self.leaf[s] << pos
        return v

    def g_set_raw(self, gid: str, v: int) -> None:
        g = self.groups[gid]
        subs = g["sub_regs"]
        sw = self.width[subs[0]]
        W = self.width[gid]
        for i, s in enumerate(subs):
            pos = W - (i + 1) * sw if g.get("reverse_subregs_order") else i * sw
            self.leaf[s] = (v >> pos) & ((1 << sw) - 1)

    def is_reversed(self, uid: str) -> bool:
        return (uid in self.groups and bool(self.groups[uid].get("reversed"))) or uid in self.rev_plain

    def has_alt(self, uid: str) -> bool:
        return uid in self.groups and bool(self.groups[uid].get("alternative_widths"))

    @staticmethod
    def brev(v: int, nbytes: int) -> int:
        return int.from_bytes(v.to_bytes(nbytes, "big"), "little")

    def get(self, uid: str, raw: bool) -> int:
        v = self.g_raw(uid) if uid in self.groups else self.leaf[uid]
        if not raw and self.is_reversed(uid):
            v = self.brev(v, self.width[uid] // 8)
        return v

    def set(self, uid: str, v: int, raw: bool) -> None:
        if not raw and self.is_reversed(uid):
            v = self.brev(v, self.width[uid] // 8)
        if uid in self.groups:
            self.g_set_raw(uid, v)
        else:
            self.leaf[uid] = v

    def field(self, uid: str, f: dict) -> int:
        # a bit-field is a window on the register's user-facing (non-raw) value
        return ((self.get(uid, False) >> f["off"]) & ((1 << f["w"]) - 1)) << f["shift"]

    def set_field(self, uid: str, f: dict, v: int, raw_space: bool = False) -> None:
        cur = self.get(uid, raw_space)
        cur = (cur & ~(((1 << f["w"]) - 1) << f["off"])) | (v << f["off"])
        self.set(uid, cur, raw_space)

    def snapshot(self) -> tuple:
        return tuple(self.leaf[u] for u in self.order)


def parse_num(v: Any) -> Optional[int]:
    """Documented number grammar for the tiny value alphabet used here."""
    if isinstance(v, int):
        return v
    from vf.props.c20 import ref_value_to_int

    return ref_value_to_int(v) if v != "" else None


# ---------------------------------------------------------------------------------------------


def leaf_regs(regs) -> dict:
    out = {}
    for r in regs._registers:
        if r.has_group_registers():
            for s in r.sub_regs:
                out[s.uid] = s
        else:
            out[r.uid] = r
    return out


def canon(regs, model: RegsModel) -> tuple:
    lr = leaf_regs(regs)
    return (tuple(lr[u]._value if u in lr else None for u in model.order), len(regs._registers),
            tuple(tuple(r._alias_names) for r in regs._registers))


def ops_for(layout: dict, model: RegsModel) -> list[tuple]:
    ops: list[tuple] = []
    allregs = list(model.order) + list(model.groups.keys())
    for uid in allregs:
        w = model.width[uid]
        vals = [0, 1, 1 << (w - 1), (1 << w) - 1, 1 << w, (1 << w) + 1, -1, hex((0xA5A5A5A5A5A5A5A5 >> 3) & ((1 << w) - 1)),
                "0b1", "1_0", "zz"]
        if uid in model.groups:
            vals += [0x0102030405060708 & ((1 << w) - 1), (1 << 64) | 1 if w > 64 else 3]
            # top byte 0x0B: written without prefix (hex-string groups) the text starts with "0B" - a binary literal to a
            # number parser; once followed by 0/1 digits only, once by other digits
            vals += [int("0B" + "10" * (w // 8 - 1), 16), int("0B" + "A5" * (w // 8 - 1), 16)]
        for v in vals:
            ops.append(("rset", uid, v, False))
        for v in (1, (1 << w) - 1, 1 << w, 0x0102030405060708 & ((1 << w) - 1)):
            ops.append(("rset", uid, v, True))
        ops.append(("rreset", uid))
    for uid in list(model.order) + [g for g in model.groups if g in model.fields]:
        for f in model.fields[uid]:
            w = f["w"] + f["shift"]
            vals = [0, 1, 1 << (w - 1), (1 << w) - 1, 1 << w, (1 << w) + 1, -1, "0x1", "zz"]
            for v in dict.fromkeys(vals):
                ops.append(("bset", uid, f["name"], v))
            ev = list(f["enums"].keys()) + [1, "RAW:0x1", f"RAW:{hex(1 << f['w'])}", "NOPE", "0b1"]
            for v in ev:
                ops.append(("benum", uid, f["name"], v))
            ops.append(("cfg1", uid, f["name"], 1))
            ops.append(("cfg1", uid, f["name"], (1 << f["w"]) << f["shift"]))
    ops += [("reset_all",), ("rt_bin",), ("rt_cfg", False), ("rt_cfg", True), ("parse_prefix", 0), ("parse_prefix", 1),
            ("parse_prefix", -1)]
    if layout.get("locks"):
        ops.append(("update_locks",))
        for q in ("get_lock_fuses", "get_by_otp_index", "get_lock_fuse"):
            ops.append(("q", q))
    for q in ("get_registers", "get_registers_grp", "get_reg_names_grp", "get_reg_names_excl", "find_reg", "get_reg",
              "get_bitfields", "schema", "get_diff", "image_info", "str", "get_config", "export"):
        ops.append(("q", q))
    return ops


def query(regs, name: str, model: RegsModel) -> Any:
    first = regs._registers[0]
    if name == "get_registers":
        return [r.uid for r in regs.get_registers()]
    if name == "get_registers_grp":
        return [r.uid for r in regs.get_registers(include_group_regs=True)]
    if name == "get_reg_names_grp":
        return regs.get_reg_names(include_group_regs=True)
    if name == "get_reg_names_excl":
        return regs.get_reg_names(exclude=["S1", "R1"], include_group_regs=True)
    if name == "find_reg":
        return regs.find_reg(first.name, include_group_regs=True).uid
    if name == "get_reg":
        return regs.get_reg(model.order[-1]).name
    if name == "get_bitfields":
        return [[b.name for b in r.get_bitfields()] for r in leaf_regs(regs).values()]
    if name == "schema":
        return core.jdump(regs.get_validation_schema())
    if name == "get_diff":
        return len(regs.get_diff(regs))
    if name == "image_info":
        return len(regs.image_info())
    if name == "str":
        return str(regs)
    if name == "get_config":
        return core.jdump(regs.get_config())
    if name == "export":
        return regs.export()
    if name == "get_lock_fuses":
        return sorted(r.uid for r in regs.get_lock_fuses())
    if name == "get_by_otp_index":
        return [regs.get_by_otp_index(i).uid for i in range(len(model.order))]
    if name == "get_lock_fuse":
        return [getattr(regs.get_lock_fuse(find_target(regs, u)), "uid", None) for u in model.order]
    raise AssertionError(name)


def find_target(regs, uid: str):
    for r in regs._registers:
        if r.uid == uid:
            return r
        for s in r.sub_regs:
            if s.uid == uid:
                return s
    raise AssertionError(uid)


def step(regs, model: RegsModel, op: tuple, lname: str) -> list:
    """Execute one operation on implementation and model; return violations; resync the model."""
    from spsdk.exceptions import SPSDKError

    viol: list = []
    before = canon(regs, model)
    kind = op[0]
    exc: Optional[str] = None
    impl_ret = None
    try:
        if kind == "rset":
            find_target(regs, op[1]).set_value(op[2], raw=op[3])
        elif kind == "rreset":
            find_target(regs, op[1]).reset_value()
        elif kind == "bset":
            find_target(regs, op[1]).find_bitfield(op[2]).set_value(op[3])
        elif kind == "benum":
            find_target(regs, op[1]).find_bitfield(op[2]).set_enum_value(op[3])
        elif kind == "cfg1":
            regs.load_yml_config({find_target(regs, op[1]).name: {op[2]: op[3]}})
        elif kind == "reset_all":
            regs.reset_values()
        elif kind == "update_locks":
            regs.update_locks()
        elif kind == "rt_bin":
            data = regs.export()
            impl_ret = len(data)
            regs.reset_values()
            regs.parse(data)
        elif kind == "rt_cfg":
            cfg = regs.get_config(diff=op[1])
            regs.reset_values()
            regs.load_yml_config(cfg)
        elif kind == "parse_prefix":
            data = regs.export()
            k = op[1] if op[1] >= 0 else len(data) - 1
            regs.parse(data[:k])
        elif kind == "q":
            a = query(regs, op[1], model)
            b = query(regs, op[1], model)
            if core.jdump(a) != core.jdump(b):
                viol.append(("C11.query-stable", op[1], f"{lname}: two consecutive answers differ"))
    except SPSDKError as e:
        exc = "spsdk"
    except Exception as e:  # noqa
        exc = type(e).__name__
        viol.append(("C11.undocumented-exception", f"{kind}:{exc}", f"{lname} {op}: {e}"))
    after = canon(regs, model)

    # ---- model ------------------------------------------------------------------------------
    exp_reject = False
    checked_state = True
    m0 = dict(model.leaf)
    if kind == "rset":
        uid, v, raw = op[1], parse_num(op[2]), op[3]
        if v is None or v < 0 or v >= (1 << model.width[uid]):
            exp_reject = True
        elif model.has_alt(uid):
            checked_state = False  # placement of shorter values is implementation-defined; read-back checked below
        else:
            model.set(uid, v, raw)
    elif kind == "rreset":
        uid = op[1]
        if uid in model.groups:
            checked_state = False  # group reset value is derived; only "no exception" + views checked
        else:
            model.leaf[uid] = model.reset[uid]
    elif kind in ("bset", "benum", "cfg1"):
        uid, fname, val = op[1], op[2], op[3]
        f = next(x for x in model.fields[uid] if x["name"] == fname)
        pre = True
        if kind in ("benum", "cfg1") and isinstance(val, str) and val in f["enums"]:
            v = f["enums"][val]
        elif kind in ("benum", "cfg1") and isinstance(val, str) and val.startswith("RAW:"):
            v = parse_num(val[4:])
            pre = False
        else:
            v = parse_num(val)
        if v is not None and pre:
            v = v >> f["shift"] if v >= 0 else v
        if v is None or v < 0 or v >= (1 << f["w"]):
            exp_reject = True
        else:
            model.set_field(uid, f, v)
    elif kind == "reset_all":
        for u in model.order:
            model.leaf[u] = model.reset[u]
    # rt_bin, rt_cfg, parse_prefix, q: state unchanged

    tgt = f"{kind}" + (":raw" if kind == "rset" and op[3] else "")
    if exp_reject:
        if exc is None:
            viol.append(("C11.misfit-accepted", _misfit_disc(op, model), f"{lname} {op}: accepted; state {before[0]} -> {after[0]}"))
        elif after != before:
            viol.append(("C11.reject-changes-state", tgt, f"{lname} {op}"))
        model.leaf = m0
    elif exc == "spsdk":
        if kind in ("q", "rt_bin", "rt_cfg", "parse_prefix", "reset_all", "rreset"):
            viol.append(("C11.op-raises", f"{tgt}" + (f":{op[1]}" if kind in ("q", "rt_cfg") else ""), f"{lname} {op} raised SPSDKError from state {before[0]}"))
        else:
            viol.append(("C11.fit-rejected", tgt + _grp_disc(op, model), f"{lname} {op} rejected from state {before[0]}"))
        model.leaf = m0
        if after != before:
            viol.append(("C11.reject-changes-state", tgt, f"{lname} {op}"))
    elif exc is None:
        if kind == "q" and after != before:
            viol.append(("C11.query-mutates", op[1], f"{lname}: {before} -> {after}"))
        if checked_state and kind != "q":
            exp = model.snapshot()
            if after[0] != exp:
                disc = tgt + _grp_disc(op, model)
                viol.append(("C11.state", disc, f"{lname} {op}: from {before[0]} expected {exp} got {after[0]}"))
        if kind in ("rt_bin", "rt_cfg", "parse_prefix", "q") and (after[1:] != before[1:]):
            viol.append(("C11.query-mutates", f"{kind}:structure", f"{lname} {op}: {before[1:]} -> {after[1:]}"))
        if kind == "rset" and not op[3]:
            # read-back of the last whole-register write (also for alt-width groups)
            try:
                rb = find_target(regs, op[1]).get_value()
                want = parse_num(op[2])
                if rb != want:
                    viol.append(("C11.readback", "rset" + _grp_disc(op, model), f"{lname} {op}: reads back {rb:#x}"))
            except Exception as e:  # noqa
                viol.append(("C11.readback", "rset-raises" + _grp_disc(op, model), f"{lname} {op}: get_value raised {type(e).__name__}: {e}"))
    # resync model with implementation (so that one defect is not reported as a cascade)
    lr = leaf_regs(regs)
    for u in model.order:
        if u in lr:
            model.leaf[u] = lr[u]._value
    # ---- views: every bit-field and group view must agree with the leaf values ---------------
    try:
        for u in model.order:
            r = lr.get(u)
            if r is None:
                continue
            for f in model.fields[u]:
                got = r.find_bitfield(f["name"]).get_value()
                if got != model.field(u, f):
                    viol.append(("C11.field-view", f"shift={f['shift']}", f"{lname} after {op}: {u}.{f['name']} reads {got}, bits say {model.field(u, f)}"))
        for gid in model.groups:
            for f in model.fields.get(gid, []):
                got = find_target(regs, gid).find_bitfield(f["name"]).get_value()
                if got != model.field(gid, f):
                    viol.append(("C11.field-view", "group-own-field", f"{lname} after {op}: {gid}.{f['name']} reads {got}, register value says {model.field(gid, f)}"))
        for gid in model.groups:
            if model.has_alt(gid):
                continue
            g = find_target(regs, gid)
            for raw in (True, False):
                got = g.get_value(raw=raw)
                if got != model.get(gid, raw):
                    viol.append(("C11.group-view", f"raw={raw}" + _grp_disc(("", gid), model), f"{lname} after {op}: group reads {got:#x}, sub-registers say {model.get(gid, raw):#x}"))
        # fuse locks: right after an operation that re-derives them (configuration load, update_locks) every lock flag
        # equals (lock register value & mask) != 0, and is_readable / is_writable follow; stored values never depend on locks
        locks = model.layout.get("locks")
        if locks and exc is None and kind in ("cfg1", "rt_cfg", "update_locks"):
            from spsdk.fuses.fuse_registers import FuseLock

            for u, spec in locks.items():
                r = find_target(regs, u)
                lv = model.get(spec["lock"], False)
                for lt in ("WRITE_LOCK", "READ_LOCK", "OPERATION_LOCK"):
                    want = (lv & spec[lt]) != 0 if lt in spec else False
                    got = FuseLock.from_label(lt) in r.get_active_locks() if hasattr(FuseLock, "from_label") else None
                    got = getattr(FuseLock, lt) in r.get_active_locks()
                    if got != want:
                        viol.append(("C11.lock-view", lt, f"{lname} after {op}: {u} {lt} is {got}, lock register {lv:#x} & {spec.get(lt, 0):#x} says {want}"))
                wl = (lv & spec.get("WRITE_LOCK", 0)) != 0
                rl = (lv & spec.get("READ_LOCK", 0)) != 0
                if r.is_writable != (not wl) or r.is_readable != (not rl):
                    viol.append(("C11.lock-view", "is_readable/is_writable", f"{lname} after {op}: {u} readable {r.is_readable} writable {r.is_writable}, locks say read-locked {rl} write-locked {wl}"))
        if locks and kind == "q" and exc is None and op[1] in ("get_lock_fuses", "get_by_otp_index", "get_lock_fuse"):
            want_q = {"get_lock_fuses": sorted({sp["lock"] for sp in locks.values()}),
                      "get_by_otp_index": list(model.order),
                      "get_lock_fuse": [locks.get(u, {}).get("lock") for u in model.order]}[op[1]]
            got_q = query(regs, op[1], model)
            if got_q != want_q:
                viol.append(("C11.fuse-query", op[1], f"{lname}: {got_q} expected {want_q}"))
    except Exception as e:  # noqa
        viol.append(("C11.view-raises", type(e).__name__, f"{lname} after {op}: {e}"))
    return viol


def _grp_disc(op: tuple, model: RegsModel) -> str:
    uid = op[1] if len(op) > 1 else None
    if uid in model.groups:
        g = model.groups[uid]
        return ":group" + ("+reversed" if g.get("reversed") else "") + ("+revorder" if g.get("reverse_subregs_order") else "") + \
            ("+alt" if g.get("alternative_widths") else "")
    if uid in model.rev_plain:
        return ":reversed-register-with-fields"
    return ""


def _misfit_disc(op: tuple, model: RegsModel) -> str:
    kind = op[0]
    val = op[3] if kind in ("bset", "benum", "cfg1") else op[2]
    raw_prefix = isinstance(val, str) and val.startswith("RAW:")
    v = parse_num(val[4:] if raw_prefix else val)
    if v is None:
        cls = "not-a-number"
    elif v < 0:
        cls = "negative"
    else:
        if kind == "rset":
            w = model.width[op[1]]
        else:
            f = next(x for x in model.fields[op[1]] if x["name"] == op[2])
            w = f["w"]
            if not raw_prefix:
                v >>= f["shift"]
        cls = "2^w" if v == (1 << w) else ">2^w"
    return f"{kind}:{cls}" + (":RAW" if raw_prefix else "")


def explore(task: Any) -> dict:
    layout, max_depth = task
    model0 = RegsModel(layout)
    ops = ops_for(layout, model0)
    viol: list = []
    seen: dict = {}
    # layouts with alternative-width groups carry their class in every discriminator, so that a
    # known finding about them can never cover a failure in another kind of layout
    lclass = ""
    if any(g.get("alternative_widths") for g in layout["grouped"]):
        lclass = "@" + layout["name"]
    regs0 = build(layout)
    k0 = canon(regs0, model0)
    if k0[0] != model0.snapshot():
        viol.append(("C11.initial-state", "reset", f"{layout['name']}: {k0[0]} vs model {model0.snapshot()}"))
    seen[k0] = ()
    frontier = [()]
    transitions = 0
    outcomes = set()
    depth_done = 0
    for depth in range(1, max_depth + 1):
        nxt = []
        for hist in frontier:
            for op in ops:
                regs = build(layout)
                model = RegsModel(layout)
                for h in hist:
                    step(regs, model, h, layout["name"])
                v = step(regs, model, op, layout["name"])
                transitions += 1
                for x in v:
                    viol.append((x[0], x[1] + lclass, x[2] + f" | history={list(hist)}"))
                k = canon(regs, model)
                outcomes.add((op[0], bool(v)))
                if k not in seen:
                    seen[k] = hist + (op,)
                    nxt.append(hist + (op,))
        frontier = nxt
        depth_done = depth
        if not frontier:
            break
    if lclass:
        # pin every (clause, discriminator) of these layouts to its WITNESS: the first failing transition in BFS order (shortest
        # history, fixed operation order) with the values it produced.  A known finding then names one specific history and
        # outcome; any change of behaviour in the same corner gives another witness and is reported as a new violation.
        import hashlib

        first: dict = {}
        for cl, disc, det in viol:
            first.setdefault((cl, disc), hashlib.sha1(det.encode()).hexdigest()[:8])
        viol = [(cl, f"{disc}#{first[(cl, disc)]}", det) for cl, disc, det in viol]
    return {"viol": core.dedupe(viol), "count": {"states": len(seen), "transitions": transitions, "ops": len(ops)},
            "depth_done": depth_done, "fixpoint": not frontier, "layout": layout["name"],
            "sample": [list(map(list, seen[k])) for k in list(seen)[-2:]]}


def run(ctx: core.Ctx) -> None:
    ls = layouts(ctx.tier)
    tasks = [(l, l["depth"]) for l in ls]
    per = {}
    for case, res in ctx.pool_map(explore, tasks, timeout=1500 if ctx.tier == "thorough" else 160, chunksize=1, check_det=1):
        name = case[0]["name"]
        if ctx.absorb({"layout": name, "depth": case[1]}, res):
            per[name] = {"states": res["count"]["states"], "transitions": res["count"]["transitions"], "ops": res["count"]["ops"],
                         "depth": res["depth_done"], "state_space_closed": res["fixpoint"]}
            if len(ctx.samples) < 6:
                ctx.sample({"layout": name, "history": res["sample"]})
            ctx.add_distinct(name)
    ctx.cov["states"] = ctx.counters.get("states", 0)
    ctx.cov["transitions"] = ctx.counters.get("transitions", 0)
    ctx.cov["traces_validated_against_impl"] = ctx.counters.get("transitions", 0)
    ctx.cov["evaluations"] = ctx.counters.get("transitions", 0)
    ctx.cov["distinct_nontrivial"] = ctx.counters.get("states", 0)
    ctx.cov["per_layout"] = per
    ctx.rule = ("per layout: BFS over all operation sequences (register/bit-field/enum/RAW writes over an 11-value boundary alphabet, "
                "resets, export/parse and get_config/load round trips, short-binary parses, read-only queries) up to the stated depth, "
                "each transition executed on a real Registers object rebuilt from its history; states deduplicated on the raw leaf "
                "values; distinct_nontrivial = distinct canonical states reached; every transition is an implementation run")
    ctx.assumptions += ["bit-fields cover their register completely (as the NXP register files do)",
                        "placement of a shorter value inside an alternative-width group is implementation-defined; only read-back, round trips and views are checked there"]


def replay(ctx: core.Ctx, rec: dict) -> bool:
    case = rec["case"]
    layout = next(l for l in layouts("thorough") if l["name"] == case["layout"])
    res = explore((layout, case["depth"]))
    hits = [v for v in res["viol"] if v[0] == rec["clause"] and v[1] == rec["disc"]]
    for h in hits[:3]:
        print(h)
    return bool(hits)
