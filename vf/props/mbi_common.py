"""Shared machinery of C01 / C02 (Master Boot Image): enumeration of the device database,
equivalence classes (DESIGN §1.9), option dimensions, configuration builder, one execution of
the real code (build -> export -> parse -> re-export -> create_config -> reload -> export) and
the independent expectations (application bytes, TrustZone bytes, device facts for the ROM model).

A *case* is a small JSON-able dict:

    {"fam": family, "rev": revision, "tgt": target, "auth": authentication,
     "len": payload length, "content": content class, "opts": {dimension: value label}, ...}

Everything a case needs is derived from it deterministically (seed only varies byte content).
spsdk is imported inside functions only (the runner binds it to $VERIF_REPO first).
"""
from __future__ import annotations

import copy
import hashlib
import json
import os
import shutil
import struct
import traceback
from typing import Any, Optional

from vf import core, fixtures
from vf.engine.lattice import Dim, Lattice

TARGET_CFG = {"xip": "xip", "load_to_ram": "load-to-ram"}
AUTH_CFG = {"plain": "plain", "crc": "crc", "signed": "signed", "nxp_signed": "signed-nxp",
            "encrypted": "signed-encrypted"}
PROTECTED = ("crc", "signed", "nxp_signed", "encrypted")

LENGTHS = [0x38, 0x39, 0x3C, 0x40, 0x1F0, 0x200, 0x201, 0x3FF]
CONTENTS = ["counter", "seeded", "reloc-like-n1", "reloc-like-n0", "ivt-ff"]
DSC_BASE = 0xC00  # MC56F81xxx / MCXC images carry BCA/FCF/header areas below this offset

IVT_WORDS = (0x20, 0x24, 0x28, 0x34)
KEYSTORE_LEN = 1424


# ---------------------------------------------------------------------------------------------
# device database


def _db(fam: str, rev: str = "latest"):
    from spsdk.utils.database import get_db

    return get_db(fam, rev)


def families() -> list[str]:
    from spsdk.image.mbi.mbi import mbi_get_supported_families

    return sorted(mbi_get_supported_families())


def revisions(fam: str) -> list[str]:
    return [r.name for r in _db(fam).device.revisions]


def latest_revision(fam: str) -> str:
    return _db(fam).name


_TRIPLES: dict = {}


def triples(fam: str, rev: str = "latest") -> list[dict]:
    """Every (target, authentication) the database offers for the family, in database order."""
    key = (fam, rev)
    if key not in _TRIPLES:
        from spsdk.utils.database import DatabaseManager

        db = _db(fam, rev)
        images = db.get_dict(DatabaseManager.MBI, "images")
        classes = db.get_dict(DatabaseManager.MBI, "mbi_classes")
        out = []
        for tgt in images:
            for auth in images[tgt]:
                cn = images[tgt][auth]
                out.append({"fam": fam, "rev": rev, "tgt": tgt, "auth": auth, "cls": cn,
                            "image_type": classes[cn]["image_type"],
                            "mixins": [m.replace("Mbi_", "") for m in classes[cn]["mixins"]]})
        _TRIPLES[key] = out
    return _TRIPLES[key]


def triple(fam: str, rev: str, tgt: str, auth: str) -> dict:
    for t in triples(fam, rev):
        if t["tgt"] == tgt and t["auth"] == auth:
            return t
    raise KeyError((fam, rev, tgt, auth))


def has(t: dict, *names: str) -> bool:
    return any(("Mixin" + n) in t["mixins"] or n in t["mixins"] for n in names)


_TZ: dict = {}


def tz_spec(fam: str, rev: str = "latest") -> Optional[list]:
    """[(register name, default value)] of the device's TrustZone preset, read from the data file
    directly (own YAML/JSON load), or None when the device has no TrustZone feature."""
    key = (fam, rev)
    if key not in _TZ:
        import yaml
        from spsdk.exceptions import SPSDKError
        from spsdk.utils.database import DatabaseManager

        try:
            path = _db(fam, rev).get_file_path(DatabaseManager.TZ, "reg_spec")
        except SPSDKError:
            _TZ[key] = None
            return None
        with open(path, "r", encoding="utf-8") as f:
            raw = yaml.safe_load(f)
        _TZ[key] = [(k, int(str(v), 0)) for k, v in raw.items()]
    return _TZ[key]


def dev_facts(t: dict) -> dict:
    """What the ROM of this device knows (parameters of vf.ref.rom_mbi)."""
    spec = tz_spec(t["fam"], t["rev"]) if has(t, "TrustZone", "TrustZoneMandatory", "ManifestCrc",
                                             "ManifestDigest") else None
    ivt = has(t, "Ivt", "IvtZeroTotalLength")
    return {
        "tz_size": 4 * len(spec) if spec else None,
        "cert": "v1" if has(t, "CertBlockV1") else "v21" if has(t, "CertBlockV21") else
                "vx" if has(t, "CertBlockVx") else None,
        "hmac_hdr": has(t, "Hmac", "HmacMandatory"),
        "manifest_crc": has(t, "ManifestCrc"),
        "kind": "ivt" if ivt else ("bca-dsc" if has(t, "BcaTable") else "bca-mcxc"),
    }


def composition(t: dict) -> tuple:
    return (t["image_type"], tuple(t["mixins"]))


def parse_candidates(t: dict) -> list:
    """Classes of the family the parser may pick for this image type (it takes the first)."""
    return [(x["tgt"], x["auth"], tuple(x["mixins"])) for x in triples(t["fam"], t["rev"])
            if x["image_type"] == t["image_type"]]


def class_key(t: dict, recorded: Optional[list] = None) -> str:
    """Equivalence class of a (family, revision, target, authentication) — DESIGN §1.9.

    Key = mixin composition + the compositions the parser can choose from for this image type +
    every database value / data file the MBI code read for this family during a dry run of the
    base case (`recorded`, see `record_db_reads`)."""
    key = {"comp": composition(t), "parse": parse_candidates(t), "db": recorded or []}
    return hashlib.sha1(core.jdump(key).encode()).hexdigest()[:12]


class record_db_reads:
    """Context manager: records (feature, key, value | sha1 of the referenced data file) of every
    `Features.get_value` / `get_file_path` call made while it is active."""

    SKIP = {("mbi", "images"), ("mbi", "mbi_classes")}

    def __enter__(self):
        from spsdk.utils import database

        self.F = database.Features
        self.orig_get = self.F.get_value
        self.orig_path = self.F.get_file_path
        self.log: list = []
        rec = self

        def get_value(self_, feature, key, default=None):
            k = list(key) if isinstance(key, list) else key
            val = rec.orig_get(self_, feature, key, default)
            kk = "/".join(k) if isinstance(k, list) else k
            if (feature, kk) not in rec.SKIP and not kk.startswith("images"):
                rec.log.append(("v", feature, kk, core.short_hash(val)))
            return val

        def get_file_path(self_, feature, key, default=None, just_standard_lib=False):
            path = rec.orig_path(self_, feature, key, default, just_standard_lib)
            try:
                h = hashlib.sha1(open(path, "rb").read()).hexdigest()[:12]
            except OSError:
                h = "missing"
            rec.log.append(("f", feature, str(key), h))
            return path

        self.F.get_value = get_value
        self.F.get_file_path = get_file_path
        return self

    def __exit__(self, *exc):
        self.F.get_value = self.orig_get
        self.F.get_file_path = self.orig_path
        return False

    def result(self) -> list:
        return sorted(set(self.log))


# ---------------------------------------------------------------------------------------------
# payloads


def payload(length: int, content: str, seed: int) -> bytes:
    """Application payload of `length` bytes; the first three vectors always differ."""
    if content == "counter":
        b = bytearray((i * 7 + 1) & 0xFF for i in range(length))
    else:
        b = bytearray(core.seeded_bytes(seed, f"mbi-app|{content}", length))
    # distinct, plausible SP / PC / third vector
    b[0:12] = struct.pack("<3I", 0x20008000 + (length & 0xFF0), 0x00000141, 0x00000149)
    if content == "ivt-ff":
        for off in IVT_WORDS:
            b[off:off + 4] = b"\xff\xff\xff\xff"
    if content.startswith("reloc-like") and length >= 0x38 + 16:
        n = 1 if content.endswith("n1") else 0
        end = length - length % 4  # the look-alike ends the 4-aligned part of the payload
        b[end - 16:end] = struct.pack("<4I", 0x4C54424C, 0, n, 0x40)
    return bytes(b[:length])


def align4(b: bytes) -> bytes:
    return b + bytes(-len(b) % 4)


def expected_app(p: bytes) -> bytes:
    """What parse() has to give back: the payload padded to 4 with the exporter's words zeroed."""
    b = bytearray(align4(p))
    for off in IVT_WORDS:
        b[off:off + 4] = bytes(4)
    return bytes(b)


def mask_words(b: bytes) -> bytes:
    b = bytearray(b)
    for off in IVT_WORDS:
        if len(b) >= off + 4:
            b[off:off + 4] = bytes(4)
    return bytes(b)


# ---------------------------------------------------------------------------------------------
# option dimensions (labels are JSON-able; element 0 = default)

RSA_SIZES = [2048, 3072, 4096]
ROOT_SETS = ["1/0", "2/0", "2/1", "3/0", "3/1", "3/2", "4/0", "4/1", "4/2", "4/3"]  # count/used
RELOCS = ["none", "1x4", "2x1,5", "3x4,1,16"]
ISK = ["none", "p256", "p384", "p256+ud4", "p256+udmax", "p384+ud4", "p256x0"]


def dims_for(t: dict) -> Lattice:
    """The option lattice of one mixin composition (only dimensions the class really has)."""
    d: list[Dim] = []
    if has(t, "LoadAddress", "LoadAddressOptional"):
        d.append(Dim("load", [0, 0x20000000, 0xFFFFFFFC]))
    if has(t, "ImageVersion"):
        d.append(Dim("imgver", [0, 1, 0xFFFF]))
    if has(t, "ManifestCrc", "ManifestDigest", "FwVersion", "BcaObsolete"):
        d.append(Dim("fwver", [0, 1, 0xFFFF, 0xFFFFFFFF]))
    if has(t, "ImageSubType"):
        d.append(Dim("subtype", ["main", "nbu", "recovery"]))
    if has(t, "TrustZone"):
        d.append(Dim("tz", ["disabled", "enabled", "custom-yaml", "custom-bin"] + TZ_YAML[1:]))
    elif has(t, "TrustZoneMandatory", "ManifestCrc", "ManifestDigest"):
        d.append(Dim("tz", ["enabled", "custom-yaml", "custom-bin"] + TZ_YAML[1:]))
    if has(t, "HwKey"):
        d.append(Dim("hwkey", [False, True]))
    if has(t, "KeyStore"):
        d.append(Dim("keystore", ["absent", "full", "empty"]))
    if has(t, "RelocTable"):
        d.append(Dim("reloc", RELOCS))
    if has(t, "Hmac", "HmacMandatory"):
        d.append(Dim("hmackey", ["A", "B"]))
    if has(t, "CtrInitVector"):
        # source of the counter IV: explicit (two patterns), omitted in the configuration, omitted in
        # the class-constructor API (both documented as "a random value is used")
        d.append(Dim("iv", ["A", "B", "omitted-config", "omitted-ctor"]))
    if has(t, "Ivt", "IvtZeroTotalLength"):
        # the same settings handed to the class constructor (create_mbi_class(...)(app=..., ...)) instead
        # of load_from_config
        d.append(Dim("api", ["config", "ctor"]))
    groups = []
    if has(t, "CertBlockV1"):
        d += [Dim("rsa", RSA_SIZES), Dim("depth", [1, 2, 3, 4]), Dim("roots", ROOT_SETS),
              Dim("build", [0, 1, 0xFFFFFFFF])]
        groups.append(("rsa", "depth", "roots"))
    if has(t, "CertBlockV21"):
        d += [Dim("curve", ["p256", "p384"]), Dim("roots", ROOT_SETS), Dim("isk", ISK),
              Dim("rootkey", ["std", "x0", "y0"]), Dim("constraint", [0, 1, 0xFFFFFFFF])]
        groups.append(("curve", "roots", "isk"))
    if has(t, "ManifestDigest"):
        d.append(Dim("digest", ["none", "sha256", "sha384", "sha512", "auto"]))
    return Lattice(d, groups)


#: dimensions that feed independent bits / fields of the IVT flag word, with the one non-default value
#: used in the *flag product* (full product of {default, this value} over the dimensions a class has)
FLAG_DIMS = {"hwkey": True, "keystore": "full", "reloc": "2x1,5", "imgver": 1, "subtype": "nbu",
             "tz": "custom-bin"}
#: small groups whose complete product is explored in every tier (key store x relocation table)
SMALL_GROUPS = [("keystore", "reloc")]


def digest_product(t: dict) -> list:
    """Manifest-digest classes: {root curve} x {ISK absent / P-256 / P-384} x {digest none / automatic}; the
    option sets with >= 2 departures (the others are in the k <= 1 lattice)."""
    if not has(t, "ManifestDigest"):
        return []
    out = []
    for curve in ("p256", "p384"):
        for isk in ("none", "p256", "p384"):
            for digest in ("none", "auto"):
                o = {}
                if curve != "p256":
                    o["curve"] = curve
                if isk != "none":
                    o["isk"] = isk
                if digest != "none":
                    o["digest"] = digest
                if len(o) >= 2:
                    out.append(o)
    return out


def flag_product(t: dict) -> list:
    """Option sets (>= 2 departures; the single ones are in the k <= 1 lattice) of the flag product."""
    import itertools

    names = {d.name for d in dims_for(t).dims}
    dims = [n for n in FLAG_DIMS if n in names and not (n == "tz" and not tz_spec(t["fam"], t["rev"]))]
    out = []
    for r in range(2, len(dims) + 1):
        for combo in itertools.combinations(dims, r):
            out.append({n: FLAG_DIMS[n] for n in combo})
    return out


# ---------------------------------------------------------------------------------------------
# configuration builder


def _w(path: str, data) -> str:
    mode = "wb" if isinstance(data, (bytes, bytearray)) else "w"
    with open(path, mode) as f:
        f.write(data)
    return path


def hmac_key(label: str, seed: int) -> bytes:
    if label == "A":
        return bytes.fromhex("E39FD7AB61AE6DDDA37158A0FC3008C6D61100A03C7516EA1BE55A39F546BAD5")
    return core.seeded_bytes(seed, "mbi-hmac-key", 32)


def ctr_iv(label: str, seed: int) -> Optional[bytes]:
    if label == "A":
        return bytes.fromhex("c3df2316fd40b15586cb5ae49483aee2")
    if label == "B":
        return b"\xff" * 12 + b"\xff\xff\xff\xfe"  # counter wraps inside the image
    return None


def reloc_entries(label: str, seed: int) -> list:
    if label == "none":
        return []
    lens = [int(x) for x in label.split("x")[1].split(",")]
    return [{"dst": 0x20100000 + 0x1000 * i, "data": core.seeded_bytes(seed, f"reloc{i}", n)}
            for i, n in enumerate(lens)]


TZ_YAML = ["custom-yaml", "custom-yaml-full-rev", "custom-yaml-full-rot", "custom-yaml-part-rev"]


def tz_custom_map(spec: Optional[list], label: str) -> list:
    """[(register name, value)] of a custom preset file, in the order in which the file lists them.

    custom-yaml           first and last register, device order
    custom-yaml-full-rev  every register, reversed key order, value = 0x01000000 + device index
    custom-yaml-full-rot  every register, rotated by half the list, value = 0x02000000 + device index
    custom-yaml-part-rev  last, middle, first register (non-canonical order), value = 0x03000000 + index"""
    if not spec:
        return [("no-such-register", 0)]
    n = len(spec)
    if label == "custom-yaml":
        return [(spec[0][0], 0xA5A55A5A), (spec[-1][0], 0x12345678)]
    if label == "custom-yaml-full-rev":
        return [(spec[i][0], 0x01000000 + i) for i in reversed(range(n))]
    if label == "custom-yaml-full-rot":
        return [(spec[i][0], 0x02000000 + i) for i in list(range(n // 2, n)) + list(range(n // 2))]
    return [(spec[i][0], 0x03000000 + i) for i in dict.fromkeys((n - 1, n // 2, 0))]


def tz_bytes(t: dict, label: str, seed: int) -> Optional[bytes]:
    """Bytes of the TrustZone preset block the image has to carry (b"" when none): word i is the value
    configured for the i-th register of the device's TrustZone description (its default otherwise)."""
    if label in ("disabled", "enabled"):
        return b""
    spec = tz_spec(t["fam"], t["rev"])
    if spec is None:  # the family has TrustZone mixins but no preset data: the builder has to refuse
        return core.seeded_bytes(seed, "mbi-tz-bin", 16)
    if label == "custom-bin":
        return core.seeded_bytes(seed, "mbi-tz-bin", 4 * len(spec))
    index = {name: i for i, (name, _) in enumerate(spec)}
    vals = [v for _, v in spec]
    for name, v in tz_custom_map(spec, label):
        vals[index[name]] = v
    return struct.pack(f"<{len(vals)}I", *vals)


def make_config(case: dict, wd: str, seed: int) -> tuple[dict, dict]:
    """Write the input files of a case into `wd`; return (MBI configuration, expectations)."""
    t = triple(case["fam"], case.get("rev", "latest"), case["tgt"], case["auth"])
    lat = dims_for(t)
    o = {d.name: d.values[0] for d in lat.dims}
    o.update(case.get("opts", {}))
    facts = dev_facts(t)
    base_off = 0 if facts["kind"] == "ivt" else DSC_BASE
    pay = payload(case["len"] + base_off, case["content"], seed)
    if facts["kind"] != "ivt":
        pay = _dsc_payload(pay, facts["kind"])
    _w(os.path.join(wd, "app.bin"), pay)
    cfg: dict[str, Any] = {
        "family": case["fam"], "revision": case.get("rev", "latest"),
        "outputImageExecutionTarget": TARGET_CFG[case["tgt"]],
        "outputImageAuthenticationType": AUTH_CFG[case["auth"]],
        "masterBootOutputFile": "out.bin", "inputImageFile": "app.bin",
    }
    exp: dict[str, Any] = {"payload": pay, "facts": facts, "triple": t, "opts": o}
    if "load" in o:
        cfg["outputImageExecutionAddress"] = o["load"]
        exp["load_address"] = o["load"]
    if "imgver" in o:
        cfg["imageVersion"] = o["imgver"]
        exp["image_version"] = o["imgver"]
    if "fwver" in o:
        cfg["firmwareVersion"] = o["fwver"]
        exp["firmware_version"] = o["fwver"]
    if "subtype" in o:
        cfg["outputImageSubtype"] = o["subtype"]
        exp["image_subtype"] = {"main": 0, "nbu": 1, "recovery": 1}[o["subtype"]]
    if "tz" in o:
        lab = o["tz"]
        if has(t, "TrustZone"):
            cfg["enableTrustZone"] = lab != "disabled"
        if lab in TZ_YAML:
            preset = {name: f"{v:#010x}" for name, v in tz_custom_map(tz_spec(t["fam"], t["rev"]), lab)}
            _w(os.path.join(wd, "tz.yaml"), json.dumps(
                {"family": case["fam"], "revision": case.get("rev", "latest"),
                 "tzpOutputFile": "tz_out.bin", "trustZonePreset": preset}))
            cfg["trustZonePresetFile"] = "tz.yaml"
        elif lab == "custom-bin":
            _w(os.path.join(wd, "tz.bin"), tz_bytes(t, lab, seed))
            cfg["trustZonePresetFile"] = "tz.bin"
        exp["tz_type"] = {"enabled": 0, "disabled": 2}.get(lab, 1)
        exp["tz"] = tz_bytes(t, lab, seed)
    if "hwkey" in o:
        cfg["enableHwUserModeKeys"] = o["hwkey"]
        exp["hwkey"] = o["hwkey"]
    if "keystore" in o:
        if o["keystore"] == "full":
            ks = core.seeded_bytes(seed, "mbi-keystore", KEYSTORE_LEN)
            _w(os.path.join(wd, "keystore.bin"), ks)
            cfg["keyStoreFile"] = "keystore.bin"
            exp["key_store"] = ks
        elif o["keystore"] == "empty":
            _w(os.path.join(wd, "keystore.bin"), b"")
            cfg["keyStoreFile"] = "keystore.bin"
            exp["key_store"] = b""
        else:
            exp["key_store"] = None
    if "reloc" in o:
        ents = reloc_entries(o["reloc"], seed)
        if ents:
            tab = []
            for i, e in enumerate(ents):
                _w(os.path.join(wd, f"reloc{i}.bin"), e["data"])
                tab.append({"binary": f"reloc{i}.bin", "destAddress": e["dst"], "load": True})
            cfg["applicationTable"] = tab
        exp["reloc"] = ents
    if "hmackey" in o:
        k = hmac_key(o["hmackey"], seed)
        cfg["outputImageEncryptionKeyFile"] = k.hex()
        exp["user_key"] = k
    exp["api"] = "ctor" if (o.get("api") == "ctor" or o.get("iv") == "omitted-ctor") else "config"
    if "iv" in o:
        iv = ctr_iv(o["iv"], seed)
        if iv is not None:
            cfg["CtrInitVector"] = iv.hex()
        exp["iv"] = iv
    if has(t, "CertBlockV1"):
        _cert_v1(cfg, exp, o, wd)
    if has(t, "CertBlockV21"):
        _cert_v21(cfg, exp, o, wd, case["fam"])
    if "digest" in o:
        if o["digest"] == "auto":
            cfg["addManifestDigest"] = True
        elif o["digest"] != "none":
            cfg["manifestDigestHashAlgorithm"] = o["digest"]
        exp["digest"] = o["digest"]
    if has(t, "CertBlockVx"):
        _cert_vx(cfg, exp, wd)
    return cfg, exp


def _dsc_payload(pay: bytes, kind: str) -> bytes:
    """Images without IVT words: keep the header area (vector table / BCA / FCF) well-formed so
    that the builder's own header parsers accept it: an erased (0xFF) configuration area."""
    b = bytearray(pay)
    if kind == "bca-dsc":
        b[0x360:0xC00] = b"\xff" * (0xC00 - 0x360)
    else:
        b[0x3C0:0x410] = b"\xff" * 0x50
    return bytes(b)


def _cert_v1(cfg: dict, exp: dict, o: dict, wd: str) -> None:
    idx = fixtures.cert_index()
    bits, depth = o["rsa"], o["depth"]
    count, used = (int(x) for x in o["roots"].split("/"))
    cb: dict[str, Any] = {"imageBuildNumber": o["build"], "mainRootCertId": used}
    for r in range(count):
        ent = idx[f"rsa{bits}_root{r}"]
        if r == used:
            chain = ent[f"d{depth}"]["chain"]
            cb[f"rootCertificate{r}File"] = fixtures.path(chain[0] + ".der")
            for i, c in enumerate(chain[1:]):
                cb[f"chainCertificate{r}File{i}"] = fixtures.path(c + ".der")
            key = ent[f"d{depth}"]["signing_key"]
        else:
            cb[f"rootCertificate{r}File"] = fixtures.path(ent["d1"]["chain"][0] + ".der")
    _w(os.path.join(wd, "cert_block_v1.json"), json.dumps(cb))
    cfg["certBlock"] = "cert_block_v1.json"
    cfg["signPrivateKey"] = fixtures.key_path(key)
    exp["sign_key"] = fixtures.key_path(key)
    exp["root_keys"] = [idx[f"rsa{bits}_root{r}"]["root_key"] for r in range(count)]
    exp["used_root"] = used
    exp["cert_override"] = {"certBlock": "cert_block_v1.json"}


def _cert_v21(cfg: dict, exp: dict, o: dict, wd: str, fam: str) -> None:
    curve = o["curve"]
    count, used = (int(x) for x in o["roots"].split("/"))
    names = [f"{curve}_{i}" for i in range(count)]
    if o["rootkey"] != "std":
        names[used] = f"{curve}_{o['rootkey']}"
    cb: dict[str, Any] = {"mainRootCertId": used, "useIsk": o["isk"] != "none",
                          "mainRootCertPrivateKeyFile": fixtures.key_path(names[used])}
    for i, n in enumerate(names):
        cb[f"rootCertificate{i}File"] = fixtures.key_path(n, private=False)
    sign = names[used]
    exp["isk"] = None
    if o["isk"] != "none":
        lab = o["isk"]
        isk_curve = lab[:4]
        isk_name = f"{isk_curve}_x0" if "x0" in lab else f"{isk_curve}_y0"
        cb["signingCertificateFile"] = fixtures.key_path(isk_name, private=False)
        cb["signingCertificateConstraint"] = o["constraint"]
        ud = b""
        if "+ud" in lab:
            n = 4 if lab.endswith("ud4") else 96
            ud = core.seeded_bytes(0, "isk-user-data", n)
            _w(os.path.join(wd, "isk_ud.bin"), ud)
            cb["signCertData"] = "isk_ud.bin"
        sign = isk_name
        exp["isk"] = {"key": isk_name, "user_data": ud, "constraints": o["constraint"]}
    _w(os.path.join(wd, "cert_block_v21.json"), json.dumps(cb))
    cfg["certBlock"] = "cert_block_v21.json"
    cfg["signPrivateKey"] = fixtures.key_path(sign)
    exp["sign_key"] = fixtures.key_path(sign)
    exp["root_keys"] = names
    exp["used_root"] = used
    exp["cert_override"] = {"certBlock": "cert_block_v21.json"}


def _cert_vx(cfg: dict, exp: dict, wd: str) -> None:
    cb = {"selfSigned": True, "iskPublicKey": fixtures.key_path("p256_1", private=False),
          "mainRootCertPrivateKeyFile": fixtures.key_path("p256_1")}
    _w(os.path.join(wd, "cert_block_vx.json"), json.dumps(cb))
    cfg["certBlock"] = "cert_block_vx.json"
    cfg["signPrivateKey"] = fixtures.key_path("p256_1")
    cfg["addCertHash"] = True
    exp["sign_key"] = fixtures.key_path("p256_1")
    exp["cert_override"] = {"certBlock": "cert_block_vx.json"}


# ---------------------------------------------------------------------------------------------
# owned randomness


class det_random:
    """Replace the generator behind spsdk.crypto.rng for the duration of a case: draw #i of n
    bytes = SHA-256(tag | i)[:n] (same case => same bytes, in any process)."""

    def __init__(self, tag: str):
        self.tag = tag
        self.i = 0

    def __enter__(self):
        import spsdk.crypto.rng as rng

        self.rng = rng
        self.orig = rng.token_bytes

        def token_bytes(n=None):
            n = 32 if n is None else n
            self.i += 1
            return core.seeded_bytes(0, f"rng|{self.tag}|{self.i}", n)

        rng.token_bytes = token_bytes
        return self

    def __exit__(self, *exc):
        self.rng.token_bytes = self.orig
        return False


# ---------------------------------------------------------------------------------------------
# one execution of the real code


def _exc(e: BaseException) -> dict:
    tb = traceback.extract_tb(e.__traceback__)
    where = ""
    for fr in reversed(tb):
        if "/spsdk/" in fr.filename:
            where = f"{os.path.basename(fr.filename)}:{fr.name}"
            break
    return {"type": type(e).__name__, "msg": str(e)[:300], "where": where}


def build(cfg: dict, wd: str):
    """The documented flow of `nxpimage mbi export`, through the API.  Returns the loaded object."""
    from spsdk.image.mbi.mbi import get_mbi_class
    from spsdk.utils.schema_validator import check_config

    cfg = copy.deepcopy(cfg)
    cls = get_mbi_class(cfg)
    check_config(cfg, cls.get_validation_schemas_family())
    check_config(cfg, cls.get_validation_schemas(cfg["family"], cfg.get("revision", "latest")),
                 search_paths=[wd, "."])
    obj = cls()
    obj.load_from_config(cfg, search_paths=[wd, "."])
    return obj


CTOR_KWARGS = ("app", "app_table", "load_address", "trust_zone", "cert_block", "signature_provider",
               "user_hw_key_enabled", "key_store", "hmac_key", "image_version", "firmware_version",
               "image_subtype", "manifest")


def via_ctor(donor: Any, t: dict, explicit_iv: Optional[bytes]):
    """The class-constructor API of the repository's own tests: create_mbi_class(name, family)(**kwargs)
    with the settings of `donor` (an object loaded from the configuration, never exported).  The counter
    IV is passed only when the case makes it explicit; otherwise the builder has to choose one."""
    from spsdk.image.mbi.mbi import create_mbi_class

    cls = create_mbi_class(t["cls"], t["fam"], t["rev"])
    kw: dict[str, Any] = {"family": donor.family, "revision": donor.revision}
    for name in CTOR_KWARGS:
        if hasattr(donor, name):
            kw[name] = getattr(donor, name)
    if explicit_iv is not None:
        kw["ctr_init_vector"] = explicit_iv
    return cls(**kw)


def snapshot(p: Any) -> dict:
    """The settings of an MBI object that the statement calls 'the same settings'."""
    MISSING = "<absent>"
    s: dict[str, Any] = {"class": type(p).__name__,
                         "mixins": [b.__name__.replace("Mbi_", "") for b in type(p).__bases__[1:]]}
    s["app"] = bytes(getattr(p, "app", b"") or b"")
    for name in ("load_address", "image_version", "firmware_version", "image_subtype"):
        s[name] = getattr(p, name, MISSING)
    s["hwkey"] = getattr(p, "user_hw_key_enabled", MISSING)
    tz = getattr(p, "trust_zone", None)
    if tz is None:
        s["tz_type"], s["tz"] = MISSING, MISSING
    else:
        s["tz_type"] = tz.type.tag
        s["tz"] = bytes(tz.export())
    if hasattr(p, "key_store"):
        s["key_store"] = None if p.key_store is None else bytes(p.key_store.export())
    else:
        s["key_store"] = MISSING
    if hasattr(p, "app_table"):
        s["reloc"] = ([{"dst": e.dst_addr, "data": bytes(e.image), "flags": e.flags}
                       for e in p.app_table.entries] if p.app_table is not None else None)
    else:
        s["reloc"] = MISSING
    s["user_key"] = bytes(p.hmac_key) if getattr(p, "hmac_key", None) else (
        MISSING if not hasattr(p, "hmac_key") else None)
    s["iv"] = bytes(p._ctr_init_vector) if getattr(p, "_ctr_init_vector", None) else (
        MISSING if not hasattr(p, "_ctr_init_vector") else None)
    cb = getattr(p, "cert_block", None)
    try:
        s["cert_block"] = bytes(cb.export()) if cb is not None else (
            MISSING if not hasattr(p, "cert_block") else None)
    except Exception as e:  # noqa
        s["cert_block"] = f"<export failed: {type(e).__name__}: {e}>"
    man = getattr(p, "manifest", None)
    if man is not None and hasattr(man, "digest_hash_algo"):
        s["digest"] = man.digest_hash_algo.label if man.digest_hash_algo else "none"
    return s


def execute(case: dict, wd: str, seed: int, want: tuple = ("parse", "reexport", "config")) -> dict:
    """Run one case through the real code.  Never raises for behaviour of the code under check:
    everything is reported in the returned observation record."""
    from spsdk.exceptions import SPSDKError
    from spsdk.image.mbi.mbi import MasterBootImage, get_mbi_class
    from spsdk.utils.schema_validator import check_config

    if os.path.isdir(wd):
        shutil.rmtree(wd)
    os.makedirs(wd)
    cfg, exp = make_config(case, wd, seed)
    ob: dict[str, Any] = {"cfg": cfg, "exp": exp, "status": "ok"}
    tag = core.short_hash(case)
    with det_random(tag):
        # ---- build + export
        try:
            obj = build(cfg, wd)
            if exp["api"] == "ctor":
                obj = via_ctor(obj, exp["triple"], exp.get("iv"))
            img = obj.export()
            ob["image"] = bytes(img)
            ob["built"] = snapshot(obj)
            ob["rkth"] = obj.rkth
        except SPSDKError as e:
            ob["status"] = "rejected"
            ob["reject"] = _exc(e)
            return ob
        except Exception as e:  # noqa
            ob["status"] = "build-exception"
            ob["error"] = _exc(e)
            return ob
        if "parse" not in want:
            return ob
        # ---- parse
        dek = exp["user_key"].hex() if exp.get("user_key") else None
        fam, rev = case["fam"], case.get("rev", "latest")
        try:
            p = MasterBootImage.parse(fam, ob["image"], dek=dek, revision=rev)
            ob["parsed"] = snapshot(p)
        except Exception as e:  # noqa
            ob["parse_error"] = _exc(e)
            ob["parse_error"]["spsdk"] = isinstance(e, SPSDKError)
            return ob
        # ---- the other mode of the optional `dek` argument: an image that is not encrypted has to parse
        # to the same members whether or not a key is handed over (given <-> not given)
        if case["auth"] != "encrypted" and exp["facts"]["kind"] == "ivt":
            dek2 = None if dek else hmac_key("A", seed).hex()
            ob["parse2_mode"] = "no-dek" if dek else "dek-given"
            try:
                ob["parsed2"] = snapshot(MasterBootImage.parse(fam, ob["image"], dek=dek2, revision=rev))
            except Exception as e:  # noqa
                ob["parse2_error"] = _exc(e)
        # ---- a wrong parse result is reported by its own clause; the re-export clauses are then
        # evaluated on the object with that one value put right (DESIGN §1.7: a known finding must
        # not make the dependent clauses meaningless)
        rep = []
        if set(ob["built"]["mixins"]) <= set(ob["parsed"]["mixins"]) and exp["facts"]["kind"] == "ivt":
            if ob["parsed"]["app"] != expected_app(exp["payload"]):
                p.app = expected_app(exp["payload"])
                rep.append("app")
            if "reloc" in exp and ob["parsed"]["reloc"] != ob["built"]["reloc"]:
                p.app_table = obj.app_table
                rep.append("reloc")
            if "tz_type" in exp and (ob["parsed"]["tz_type"], ob["parsed"]["tz"]) != (
                    ob["built"]["tz_type"], ob["built"]["tz"]):
                p.trust_zone = obj.trust_zone
                if getattr(obj, "manifest", None) is not None:
                    p.manifest = obj.manifest
                rep.append("tz")
        ob["repaired"] = rep
        # ---- re-export of the parsed object with the same keys
        if "reexport" in want:
            try:
                if hasattr(p, "signature_provider") and exp.get("sign_key"):
                    from spsdk.crypto.signature_provider import get_signature_provider

                    p.signature_provider = get_signature_provider(local_file_key=exp["sign_key"])
                ob["reexport"] = bytes(p.export())
            except Exception as e:  # noqa
                ob["reexport_error"] = _exc(e)
        # ---- create_config -> reload with the same keys -> export
        if "config" in want:
            out = os.path.join(wd, "parsed")
            os.makedirs(out, exist_ok=True)
            try:
                c2 = dict(p.create_config(out))
                ob["created_cfg"] = {k: v for k, v in c2.items()}
                same_keys(c2, cfg, exp, wd, out)
                ob["reload_cfg"] = c2
                obj2 = build(c2, out)
                ob["config_reexport"] = bytes(obj2.export())
            except Exception as e:  # noqa
                ob["config_error"] = _exc(e)
                ob["config_error"]["spsdk"] = isinstance(e, SPSDKError)
    return ob


def same_keys(c2: dict, cfg: dict, exp: dict, wd: str, out: str) -> None:
    """'re-exporting ... with the same keys': what create_config cannot know (private keys, the
    HMAC / encryption key, the root-of-trust certificates whose hashes only are in the image) is
    supplied again by the user exactly as for the first export."""
    if "signPrivateKey" in c2 or exp.get("sign_key"):
        c2["signPrivateKey"] = exp["sign_key"]
    if exp.get("cert_override"):
        for k, v in exp["cert_override"].items():
            shutil.copy(os.path.join(wd, v), os.path.join(out, v))
            for extra in ("isk_ud.bin",):
                if os.path.exists(os.path.join(wd, extra)):
                    shutil.copy(os.path.join(wd, extra), os.path.join(out, extra))
            c2[k] = v
    if "outputImageEncryptionKeyFile" in c2 and exp.get("user_key"):
        c2["outputImageEncryptionKeyFile"] = exp["user_key"].hex()
    if c2.get("keyStoreFile", "x") is None:
        del c2["keyStoreFile"]


# ---------------------------------------------------------------------------------------------
# helpers shared by the two oracles


def path_tag(t: dict) -> str:
    """Names the code path (export mixins) — the coarse part of every discriminator."""
    ex = [m.replace("ExportMixin", "") for m in t["mixins"] if m.startswith("ExportMixin")]
    return "+".join(ex)


def size_class(t: dict, app_len: int) -> str:
    """Only for images with the HMAC header: the application ends before / at / after offset 0x40."""
    if not has(t, "Hmac", "HmacMandatory"):
        return ""
    return ";app<0x40" if app_len < 0x40 else ";app=0x40" if app_len == 0x40 else ""


def rom_keys(ob: dict) -> dict:
    exp = ob["exp"]
    keys: dict[str, Any] = {}
    if exp.get("user_key"):
        keys["user_key"] = exp["user_key"]
        # provisioning of the device: a key store (in the image or resident) => user key is the
        # image key; otherwise the image key is derived from the OTP master key
        keys["key_source"] = "otp" if exp.get("key_store") is None else "keystore"
    return keys


def rom_read(ob: dict, verify: bool, policy: Optional[str] = None, image: Optional[bytes] = None):
    from vf.ref import rom_mbi

    facts = ob["exp"]["facts"]
    img = ob["image"] if image is None else image
    if facts["kind"] == "ivt":
        return rom_mbi.read(img, facts, rom_keys(ob), policy=policy, verify=verify)
    if facts["kind"] == "bca-dsc":
        return rom_mbi.read_bca_dsc(img, policy or ob["exp"]["triple"]["auth"], verify=verify)
    return {"len": len(img), "regions": [], "class": "plain"}


def region_at(regions: list, off: int) -> str:
    for r in regions:
        if r[1] <= off < r[2]:
            return r[0]
    return "outside-regions"


def first_diff(a: bytes, b: bytes, regions: list, masked: tuple = ()) -> Optional[tuple]:
    """(offset, region name) of the first difference outside the masked regions, or None."""
    if len(a) != len(b):
        return (min(len(a), len(b)), f"length {len(b):#x} instead of {len(a):#x}")
    if a == b:
        return None
    skip = [(r[1], r[2]) for r in regions if r[0] in masked]
    for i, (x, y) in enumerate(zip(a, b)):
        if x != y and not any(s <= i < e for s, e in skip):
            return (i, region_at(regions, i))
    return None


def _num(x) -> int:
    return int(str(x), 0)


def fixture_rkth(exp: dict) -> Optional[bytes]:
    """Root-key-table hash computed from the fixture key numbers (never from the image)."""
    ki = fixtures.key_index()
    names = exp.get("root_keys")
    if not names:
        return None
    first = ki[names[0]]
    if first["type"] == "rsa":
        tab = b""
        for n in names:
            nn, ee = _num(ki[n]["n"]), _num(ki[n]["e"])
            tab += hashlib.sha256(nn.to_bytes((nn.bit_length() + 7) // 8, "big")
                                  + ee.to_bytes((ee.bit_length() + 7) // 8, "big")).digest()
        tab += bytes(32 * (4 - len(names)))
        return hashlib.sha256(tab).digest()
    bits = _num(first["bits"])
    size = bits // 8
    hfn = hashlib.sha256 if bits == 256 else hashlib.sha384
    hs = []
    for n in names:
        k = ki[n]
        hs.append(hfn(_num(k["x"]).to_bytes(size, "big") + _num(k["y"]).to_bytes(size, "big")).digest())
    return hs[0] if len(hs) == 1 else hfn(b"".join(hs)).digest()


VOLATILE = ("signature", "isk-signature", "digest", "manifest-crc", "isk-hash")


def stable_token(ob: dict) -> str:
    """Identity of an exported image for the 'distinct' count: SHA-1 of the bytes with the fields that
    depend on ECDSA's random nonce blanked (so that the same case gives the same token in any run)."""
    from vf.ref.rom_mbi import Reject

    img = bytearray(ob["image"])
    try:
        regions = rom_read(ob, verify=False)["regions"]
    except Reject:
        regions = []
        if ob["exp"]["facts"]["cert"] in ("v21", "vx"):
            return "case-" + core.short_hash({k: v for k, v in ob["cfg"].items()})
    for r in regions:
        if r[0] in VOLATILE:
            img[r[1]:r[2]] = bytes(r[2] - r[1])
    return hashlib.sha1(bytes(img)).hexdigest()[:16]


# ---------------------------------------------------------------------------------------------
# object histories (state carried between exports) and wrong-key attempts

#: step -> (departure that describes the final option set, public attributes replaced on the live object)
HISTORY_STEPS = {
    "none": ({}, ()),
    "app": ({}, ("app",)),  # final payload length differs (case["len2"])
    "trust_zone": ({"tz": "custom-bin"}, ("trust_zone",)),
    "key_store": ({"keystore": "full"}, ("key_store",)),
    "app_table": ({"reloc": "1x4"}, ("app_table",)),
    "hmac_key": ({"hmackey": "B"}, ("hmac_key",)),
    "cert_block_v1": ({"depth": 2}, ("cert_block", "signature_provider")),
    "cert_block_v21": ({"roots": "2/0"}, ("cert_block",)),
}


STEPWISE = {"certv1_stepwise_rkh": {"depth": 1, "roots": "2/0"},
            "certv1_stepwise_chain": {"depth": 2, "roots": "3/1"}}


def stepwise_cert_v1(obj: Any, o: dict) -> None:
    """Build the certificate block with the step-by-step API of tests/image/mbi/test_mbi.py
    (add_certificate / set_root_key_hash) on the live MBI object, reading cert_block.export(),
    mbi.total_len and mbi.rkth between the builder calls (a read may be refused while the block is
    incomplete)."""
    from spsdk.crypto.certificate import Certificate
    from spsdk.exceptions import SPSDKError
    from spsdk.utils.crypto.cert_blocks import CertBlockV1

    idx = fixtures.cert_index()
    bits, depth = o["rsa"], o["depth"]
    count, used = (int(x) for x in o["roots"].split("/"))
    chain = [Certificate.load(fixtures.path(c + ".der")) for c in idx[f"rsa{bits}_root{used}"][f"d{depth}"]["chain"]]

    def read() -> None:
        for fn in (lambda: cb.export(), lambda: obj.total_len, lambda: obj.rkth):
            try:
                fn()
            except SPSDKError:
                pass

    cb = CertBlockV1(build_number=o["build"])
    obj.cert_block = cb
    cb.add_certificate(chain[0])
    cb.set_root_key_hash(used, chain[0])
    read()
    for c in chain[1:]:
        cb.add_certificate(c)
        read()
    for r in range(count):
        if r != used:
            other = Certificate.load(fixtures.path(idx[f"rsa{bits}_root{r}"]["d1"]["chain"][0] + ".der"))
            cb.set_root_key_hash(r, other)
            read()


def history_steps(t: dict) -> list:
    """Steps that apply to a mixin composition (one length-relevant member each)."""
    if dev_facts(t)["kind"] != "ivt":
        return []
    names = {d.name for d in dims_for(t).dims}
    out = ["none", "app"]
    if "tz" in names and not has(t, "ManifestCrc", "ManifestDigest") and tz_spec(t["fam"], t["rev"]):
        out.append("trust_zone")  # (manifest classes keep the preset inside the manifest object)
    if "keystore" in names:
        out.append("key_store")
    if "reloc" in names:
        out.append("app_table")
    if "hmackey" in names:
        out.append("hmac_key")
    if has(t, "CertBlockV1"):
        out += ["cert_block_v1"] + list(STEPWISE)
    if has(t, "CertBlockV21"):
        out.append("cert_block_v21")
    return out


def execute_history(case: dict, wd: str, seed: int) -> dict:
    """export -> export again -> replace ONE member through its public attribute -> export, next to a FRESH
    object loaded with the final option set.  case["hist"] names the step."""
    from spsdk.exceptions import SPSDKError

    step = case["hist"]
    dep, attrs = HISTORY_STEPS.get(step) or (STEPWISE[step], ())
    case_b = dict(case, opts=dict(case.get("opts", {}), **dep))
    if step == "app":
        case_b["len"] = case.get("len2", 0x200)
    for d in (wd + "-a", wd + "-b"):
        if os.path.isdir(d):
            shutil.rmtree(d)
        os.makedirs(d)
    cfg_a, exp_a = make_config(case, wd + "-a", seed)
    cfg_b, exp_b = make_config(case_b, wd + "-b", seed)
    ob: dict[str, Any] = {"cfg": cfg_b, "exp": exp_b, "exp_a": exp_a, "status": "ok", "step": step}
    with det_random(core.short_hash(case)):
        try:
            fresh = build(cfg_b, wd + "-b")
            if step in STEPWISE:
                obj = build(cfg_b, wd + "-b")
                stepwise_cert_v1(obj, exp_b["opts"])
                ob["exp_a"] = exp_b
            else:
                obj = build(cfg_a, wd + "-a")
                ob["img1"] = bytes(obj.export())
                ob["img1b"] = bytes(obj.export())
                donor = build(cfg_b, wd + "-b")
                for a in attrs:
                    setattr(obj, a, getattr(donor, a))
            ob["image"] = bytes(obj.export())
            ob["rkth"] = obj.rkth
            ob["fresh"] = bytes(fresh.export())
            if step in STEPWISE:
                ob["img1"] = ob["img1b"] = ob["fresh"]
        except SPSDKError as e:
            ob["status"] = "rejected"
            ob["reject"] = _exc(e)
        except Exception as e:  # noqa
            ob["status"] = "exception"
            ob["error"] = _exc(e)
    return ob


def wrong_key(path: str) -> str:
    """A private key of the same kind and size that belongs to no certificate / root of the case."""
    name = os.path.basename(path).rsplit(".", 1)[0]
    kind = name.rsplit("_", 1)[0]
    other = f"{kind}_4" if kind.startswith("rsa2048") else f"{kind}_3"
    if other == name:
        other = f"{kind}_2"
    return fixtures.key_path(other)


def execute_wrongkey(case: dict, wd: str, seed: int) -> dict:
    """A signature provider whose key does not match the certificate block: first export, retry on the
    same object, and a second image that re-uses the provider object.  Each attempt is either refused
    (SPSDKError) or yields an image, which then has to pass the ROM checks like any other export."""
    from spsdk.exceptions import SPSDKError

    if os.path.isdir(wd):
        shutil.rmtree(wd)
    os.makedirs(wd)
    cfg, exp = make_config(case, wd, seed)
    cfg["signPrivateKey"] = wrong_key(exp["sign_key"])
    ob: dict[str, Any] = {"cfg": cfg, "exp": exp, "status": "ok", "attempts": []}

    def attempt(name: str, fn) -> Any:
        try:
            r = fn()
            if isinstance(r, (bytes, bytearray)):
                ob["attempts"].append({"name": name, "status": "image", "image": bytes(r)})
            return r
        except SPSDKError as e:
            ob["attempts"].append({"name": name, "status": "refused", "msg": str(e)[:120]})
        except Exception as e:  # noqa
            ob["attempts"].append({"name": name, "status": "exception", "error": _exc(e)})
        return None

    with det_random(core.short_hash(case)):
        obj = attempt("load", lambda: build(cfg, wd))
        if obj is None:
            return ob
        attempt("first-export", obj.export)
        attempt("retry-same-object", obj.export)
        obj2 = attempt("load-second", lambda: build(cfg, wd))
        if obj2 is not None:
            obj2.signature_provider = obj.signature_provider
            attempt("second-image-same-provider", obj2.export)
    return ob
