"""C03 - the root-of-trust value is a pure function of the ordered root keys (engine E1/E6: full products).

Task kinds (a task = case = replay unit):
  seq     one algorithm class x one ordered selection of 1..4 keys from its 4-key pool; the worker runs the FULL
          product  tool path x used-root index (where the path has one) x encoding assignment  for that key list.
  isk     one EC class x one ordered selection: certificate block v2.1 with an ISK certificate, every used-root
          index x user-data length x ISK key; ROM-side parse, signature verification with own ECDSA.
  family  one database family (x revision): dispatch through Rot(family) / CMPA(family) / debug credential at the
          base configuration (every family is executed once; the products above run on one representative
          family per rot_type because the family is only a database index there).
  field   CMPA ROTKH field writer on synthetic hash patterns (zero bytes at either end).
  hist    operation histories on ONE object of the classes with an incremental API (CertBlockV1: set_root_key_hash /
          add_certificate; RKHTv1: set_rkh): every sequence of <= 4 (thorough 5) operations over {set slot i in 0..3 to
          key A|B, read every accessor}; after every read and at the end rkth / rkth_fuses / str() / rkh / rkh_index /
          export() / parse(export()).rkth must be the ones of the table AS IT IS NOW.

Encoding assignment of a key list = one encoding per key.  Enumerated: the path's base encoding for all keys;
every single departure (position x non-base encoding); all keys in the same non-base encoding; all keys as file
*paths* in every file encoding; all keys as bytearray.  Encodings: public PEM / public DER / NXP raw / X.509
(non-CA) PEM, DER / X.509 CA certificate PEM, DER / private PEM, DER / in-memory PublicKey, PrivateKey, Certificate,
CA Certificate.

Clauses
  C03.definition              accepted, RoT hash differs from vf.ref.rot_ref computed from the fixture numbers
  C03.table                   exported RoT table (RKHT / CTRK table / SRK table / RoT meta) differs from the layout
  C03.agreement               two accepted evaluations of one construction for one key list (+CA flags) differ
  C03.undocumented-exception  a documented encoding of a legal key list raises something that is not SPSDKError
  C03.order                   swapping two distinct keys does not change the value
  C03.fuses                   CertBlockV1.rkth_fuses is not the little-endian word view of RKTH
  C03.block-roundtrip         parse(export(b)).export() != export(b), or the parsed block reports another RKTH
  C03.block-rom               the exported block is not what a ROM reads: RKTH / used root / key count / root key
  C03.isk-signature           ISK signature does not verify under the selected root over exactly
                              root key record || ISK header || ISK key || user data, or verifies under another root
  C03.isk-fields              ISK certificate fields (key, user data, constraints, offset) are not the ones given
  C03.cmpa-field              CMPA.export(rotkh=h) does not store h (zero padded) in the ROTKH field
  C03.family-dispatch         Rot(family, revision) / `nxpcrypto rot -f -r` / CMPA / debug credential of a family x
                              revision disagrees with the construction the database names for THAT revision
  C03.history                 a value read from a CertBlockV1 / RKHTv1 object is not the one of its table as it is now
Discriminators: exceptions -> "<Type>@<innermost spsdk frame>"; value clauses -> construction + failure kind + the
dimensions (path, alg, n, idx, enc, mode, lz) in which the failing set is smaller than the judged set (computed over
the whole run, so one defect gives one discriminator whatever number of key lists it hits).
"""
from __future__ import annotations

import datetime
import hashlib
import itertools
import logging
import os
import shutil
import struct
import sys
import tempfile
import time
import traceback
from typing import Any, Callable, Optional

from vf import core, fixtures
from vf.ref import rot_ref as R

LEVEL = "exploration"

POOLS = {
    "rsa2048": ["rsa2048_0", "rsa2048_1", "rsa2048_2", "rsa2048_3"],
    "rsa3072": ["rsa3072_0", "rsa3072_1", "rsa3072_2", "rsa3072_3"],
    "rsa4096": ["rsa4096_0", "rsa4096_1", "rsa4096_2", "rsa4096_3"],
    "p256": ["p256_0", "p256_1", "p256_x0", "p256_y0"],
    "p384": ["p384_0", "p384_1", "p384_x0", "p384_y0"],
    "p521": ["p521_0", "p521_1", "p521_x0", "p521_y0"],
}
ALGS = list(POOLS)
TRAILING_ZERO_CERTS = {"rsa2048_0", "rsa3072_1", "rsa4096_0"}  # their leaf certificate's DER ends in a genuine 0x00 byte
ISK_KEYS = {"p256": "p256_2", "p384": "p384_2"}

E_FILE = ["pub_pem", "pub_der", "raw", "cert_pem", "cert_der", "certca_pem", "certca_der", "priv_pem", "priv_der"]
E_OBJ = ["obj_pub", "obj_priv", "obj_cert", "obj_certca"]
E_CERT = ["cert_pem", "cert_der", "certca_pem", "certca_der", "obj_cert", "obj_certca"]
E_CA = {"certca_pem", "certca_der", "obj_certca"}
EXT = {"pub_pem": "pub.pem", "pub_der": "pub.der", "raw": "raw.bin", "cert_pem": "crt.pem", "cert_der": "crt.der",
       "certca_pem": "ca.crt.pem", "certca_der": "ca.crt.der", "priv_pem": "prv.pem", "priv_der": "prv.der"}

ROT_FAMILY = {"cert_block_1": "lpc55s69", "cert_block_21": "lpc55s36", "srk_table_ahab": "mimxrt1189",
              "srk_table_ahab_v2": "mimx943", "srk_table_hab": "mimxrt1176"}
ROT_FAMILY_2 = {"cert_block_1": "mimxrt595s", "cert_block_21": "kw45b41z8", "srk_table_ahab": "mimx9352",
                "srk_table_ahab_v2": "mimx9596", "srk_table_hab": "mimxrt1050"}  # thorough: base + all-same only
ROT_CONS = {"cert_block_1": "v1", "cert_block_21": "v21", "srk_table_ahab": "ahab", "srk_table_ahab_v2": "ahab2",
            "srk_table_hab": "hab"}
CMPA_FAMILY = {"v1": ["lpc55s69", "mcxw236"], "v21": ["lpc55s36", "mcxn947"]}
ISK_FAMILY = "lpc55s36"
ISK_LIMIT = 96  # cross-checked against the database in run()

_MAT: Optional[dict] = None
_FAST_RSA = [True]
_PROFILE = os.environ.get("VERIF_C03_PROFILE") == "1"


# ---------------------------------------------------------------------------------------------
# seams and fixtures


def install_fast_rsa_load() -> None:
    """OpenSSL's consistency check of an RSA private key costs 50..350 ms per load; the products below load
    ~10^5 private keys.  The *library* loaders are wrapped (before spsdk.crypto.keys imports them) to skip that
    check for the harness' own, valid fixture keys.  `_FAST_RSA[0] = False` restores the original behaviour
    (used by the control evaluations of every RSA key)."""
    from cryptography.hazmat.primitives import serialization as ser

    if getattr(ser, "_vf_c03_fast", False):
        return
    if "spsdk.crypto.keys" in sys.modules:
        raise core.HarnessError("spsdk.crypto.keys imported before the RSA loader seam was installed")
    orig_pem, orig_der = ser.load_pem_private_key, ser.load_der_private_key

    def load_pem_private_key(data, password, backend=None, *, unsafe_skip_rsa_key_validation=False):
        return orig_pem(data, password, backend,
                        unsafe_skip_rsa_key_validation=unsafe_skip_rsa_key_validation or _FAST_RSA[0])

    def load_der_private_key(data, password, backend=None, *, unsafe_skip_rsa_key_validation=False):
        return orig_der(data, password, backend,
                        unsafe_skip_rsa_key_validation=unsafe_skip_rsa_key_validation or _FAST_RSA[0])

    ser.load_pem_private_key = load_pem_private_key
    ser.load_der_private_key = load_der_private_key
    ser._vf_c03_fast = True


def _make_cert(priv, name: str, ca: bool, attempt: int = 0):
    from cryptography import x509
    from cryptography.hazmat.primitives import hashes
    from cryptography.x509.oid import NameOID

    nm = x509.Name([x509.NameAttribute(NameOID.COMMON_NAME, f"vf-c03 {name} {'CA' if ca else 'leaf'}")])
    serial = (int.from_bytes(hashlib.sha256(f"{name}|{ca}".encode()).digest()[:8], "big") | 1) + 2 * attempt
    b = (x509.CertificateBuilder().subject_name(nm).issuer_name(nm).public_key(priv.public_key())
         .serial_number(serial).not_valid_before(datetime.datetime(2020, 1, 1))
         .not_valid_after(datetime.datetime(2040, 1, 1))
         .add_extension(x509.BasicConstraints(ca=ca, path_length=None), critical=True))
    if ca:
        b = b.add_extension(x509.KeyUsage(digital_signature=True, content_commitment=False, key_encipherment=False,
                                          data_encipherment=False, key_agreement=False, key_cert_sign=True,
                                          crl_sign=True, encipher_only=False, decipher_only=False), critical=True)
    return b.sign(priv, hashes.SHA256())


def materialize(base_dir: str) -> dict:
    """Write every pool key in every file encoding to <base_dir>/c03keys and keep the bytes in memory.
    Certificates (self-signed, non-CA and CA with keyCertSign) are generated here with `cryptography`; ECDSA
    signatures in them are random, they are inputs only.  Every file is checked against the fixture numbers with
    the independent DER reader."""
    global _MAT
    from cryptography.hazmat.primitives import serialization as ser

    from vf.ref import der

    d = os.path.join(base_dir, "c03keys")
    os.makedirs(d, exist_ok=True)
    ki = fixtures.key_index()
    names = sorted({n for p in POOLS.values() for n in p} | set(ISK_KEYS.values()))
    blobs: dict = {}
    nums: dict = {}
    for name in names:
        num = R.key_from_index(ki[name])
        nums[name] = num
        b = {
            "pub_pem": fixtures.read(f"keys/{name}.pub.pem"), "pub_der": fixtures.read(f"keys/{name}.pub.der"),
            "priv_pem": fixtures.read(f"keys/{name}.pem"), "priv_der": fixtures.read(f"keys/{name}.der"),
            "raw": R.raw_key(num),
        }
        priv = ser.load_der_private_key(b["priv_der"], None, unsafe_skip_rsa_key_validation=True)
        for ca, tag in ((False, "cert"), (True, "certca")):
            c = _make_cert(priv, name, ca)
            if name in TRAILING_ZERO_CERTS and not ca:
                # a certificate whose DER ends in 0x00 (the last signature byte) and is not a multiple of 4 long, so that
                # the zero padding of a certificate block touches a genuine zero: serial numbers are tried in order
                from cryptography.hazmat.primitives import serialization as _ser

                for attempt in range(1, 6000):
                    dd = c.public_bytes(_ser.Encoding.DER)
                    if dd[-1] == 0 and len(dd) % 4:
                        break
                    c = _make_cert(priv, name, ca, attempt)
                else:
                    raise core.HarnessError(f"no trailing-zero certificate found for {name}")
            b[tag + "_pem"] = c.public_bytes(ser.Encoding.PEM)
            b[tag + "_der"] = c.public_bytes(ser.Encoding.DER)
        # fixture integrity (independent reader): every encoding carries the numbers of index.json
        want = {k: num[k] for k in (("n", "e") if num["type"] == "rsa" else ("x", "y"))}
        for enc in ("pub_der", "cert_der", "certca_der"):
            got = der.parse_spki(b[enc]) if enc == "pub_der" else der.parse_certificate(b[enc])["spki"]
            if {k: got[k] for k in want} != want:
                raise core.HarnessError(f"fixture {name}/{enc} does not hold the numbers of keys/index.json")
        if der.parse_spki(der.pem_decode(b["pub_pem"])[1]) != der.parse_spki(b["pub_der"]):
            raise core.HarnessError(f"fixture {name}: PEM and DER public key differ")
        try:
            pk = der.parse_pkcs8(b["priv_der"])
        except der.DerError:
            pk = None  # not PKCS#8 (traditional OpenSSL encoding): nothing to cross-check here
        if pk is not None and num["type"] == "rsa" and (pk["n"], pk["e"]) != (num["n"], num["e"]):
            raise core.HarnessError(f"fixture {name}: private key does not match")
        for enc, data in b.items():
            with open(os.path.join(d, f"{name}.{EXT[enc]}"), "wb") as f:
                f.write(data)
            blobs[(name, enc)] = data
    _MAT = {"dir": d, "blobs": blobs, "nums": nums}
    return _MAT


def mat() -> dict:
    if _MAT is None:
        raise core.HarnessError("key material not prepared")
    return _MAT


class Src:
    """Turns (key name, encoding, transport) into the Python object handed to the code under check."""

    def __init__(self) -> None:
        self.m = mat()
        self._c: dict = {}

    def path(self, name: str, enc: str) -> str:
        return os.path.join(self.m["dir"], f"{name}.{EXT[enc]}")

    def num(self, name: str) -> dict:
        return self.m["nums"][name]

    def _crypto(self, name: str, what: str):
        key = (name, what)
        if key not in self._c:
            from cryptography import x509
            from cryptography.hazmat.primitives import serialization as ser
            from cryptography.hazmat.primitives.asymmetric import ec, rsa

            num = self.num(name)
            if what == "pub":
                if num["type"] == "rsa":
                    v = rsa.RSAPublicNumbers(num["e"], num["n"]).public_key()
                else:
                    crv = {"secp256r1": ec.SECP256R1, "secp384r1": ec.SECP384R1, "secp521r1": ec.SECP521R1}[num["curve"]]
                    v = ec.EllipticCurvePublicNumbers(num["x"], num["y"], crv()).public_key()
            elif what == "priv":
                v = ser.load_der_private_key(self.m["blobs"][(name, "priv_der")], None,
                                             unsafe_skip_rsa_key_validation=True)
            else:
                v = x509.load_der_x509_certificate(self.m["blobs"][(name, what + "_der")])
            self._c[key] = v
        return self._c[key]

    def get(self, name: str, enc: str, transport: str = "bytes") -> Any:
        if enc in EXT:
            if transport == "path":
                return self.path(name, enc)
            b = self.m["blobs"][(name, enc)]
            return bytearray(b) if transport == "bytearray" else b
        from spsdk.crypto.certificate import Certificate
        from spsdk.crypto.keys import PrivateKeyEcc, PrivateKeyRsa, PublicKeyEcc, PublicKeyRsa

        rsa_ = self.num(name)["type"] == "rsa"
        if enc == "obj_pub":
            return (PublicKeyRsa if rsa_ else PublicKeyEcc)(self._crypto(name, "pub"))
        if enc == "obj_priv":
            return (PrivateKeyRsa if rsa_ else PrivateKeyEcc)(self._crypto(name, "priv"))
        if enc == "obj_cert":
            return Certificate(self._crypto(name, "cert"))
        if enc == "obj_certca":
            return Certificate(self._crypto(name, "certca"))
        raise core.HarnessError(f"unknown encoding {enc}")


def _where(e: BaseException) -> str:
    """Innermost frame inside the spsdk package: identifies the defect, not the input."""
    tb = traceback.extract_tb(e.__traceback__)
    for fr in reversed(tb):
        fn = fr.filename.replace("\\", "/")
        if "/spsdk/" in fn:
            return f"{os.path.basename(fn)}:{fr.name}"
    return "outside-spsdk"


def call(fn: Callable) -> tuple:
    from spsdk.exceptions import SPSDKError

    try:
        return ("ok", fn())
    except SPSDKError as e:
        return ("SPSDKError", str(e)[:160].replace("\x1b", ""))
    except Exception as e:  # noqa  (Watchdog is a BaseException)
        return (type(e).__name__, f"{type(e).__name__}@{_where(e)}", str(e)[:160])


# ---------------------------------------------------------------------------------------------
# references per construction


def expected(cons: str, nums: list, flags: list, idx: Optional[int] = None) -> Optional[dict]:
    """{'hash': ..., 'table': ...} or None when the construction is not defined for these keys."""
    try:
        if cons == "v1":
            return {"hash": R.rkth_v1(nums), "table": R.rkht_v1(nums)}
        if cons == "v21":
            return {"hash": R.rkth_v21(nums), "table": R.rkht_v21(nums)}
        if cons == "ahab":
            return {"hash": R.ahab_hash(nums, flags), "table": R.ahab_table(nums, flags)}
        if cons == "ahab2":
            return {"hash": R.ahab_hash_v2(nums, flags), "table": R.ahab_table_v2(nums, flags)}
        if cons == "hab":
            return {"hash": R.hab_fuses(nums, flags), "table": R.hab_table(nums, flags)}
    except R.Unsupported:
        return None
    raise core.HarnessError(cons)


# ---------------------------------------------------------------------------------------------
# tool paths.  Each returns {'hash': bytes, 'table': bytes|None, ...}


def p_rkht(version: str) -> Callable:
    def f(inputs: list, idx: Optional[int], ctx: dict) -> dict:
        from spsdk.utils.crypto.rkht import RKHTv1, RKHTv21

        r = (RKHTv1 if version == "v1" else RKHTv21).from_keys(inputs)
        return {"hash": r.rkth(), "table": r.export()}
    return f


def p_rot(rot_type: str, family: Optional[str] = None) -> Callable:
    def f(inputs: list, idx: Optional[int], ctx: dict) -> dict:
        from spsdk.utils.crypto.rot import Rot

        if family:
            r = Rot(family, "latest", keys_or_certs=inputs)
        else:
            r = Rot.get_rot_class(ROT_FAMILY[rot_type])(keys_or_certs=inputs)
        return {"hash": r.calculate_hash(), "table": r.export()}
    return f


def p_cli(rot_type: str, family: Optional[str] = None) -> Callable:
    def f(inputs: list, idx: Optional[int], ctx: dict) -> dict:
        from click.testing import CliRunner

        from spsdk.apps import nxpcrypto
        from spsdk.exceptions import SPSDKError

        # the application's log installer adds a root handler and opens ~/.../debug.log on every invocation
        nxpcrypto.spsdk_logger.install = lambda *a, **k: None
        out = {}
        for cmd, obs in (("calculate-hash", "hash"), ("export", "table")):
            o = os.path.join(ctx["tmp"], f"cli_{obs}.bin")
            if os.path.exists(o):
                os.remove(o)
            args = ["rot", cmd, "-f", family or ROT_FAMILY[rot_type], "-o", o]
            for p in inputs:
                args += ["-k", p]
            res = CliRunner().invoke(nxpcrypto.main, args, catch_exceptions=True)
            if res.exit_code != 0:
                exc = res.exception
                if exc is None or isinstance(exc, SystemExit):
                    # the application caught an SPSDKError and turned it into exit code 1
                    raise SPSDKError(f"nxpcrypto exit code {res.exit_code}: {res.output[-120:]}")
                raise exc
            out[obs] = open(o, "rb").read()
        return out
    return f


def p_cmpa(family: str) -> Callable:
    def f(inputs: list, idx: Optional[int], ctx: dict) -> dict:
        from spsdk.crypto.keys import PublicKey
        from spsdk.crypto.utils import extract_public_keys
        from spsdk.pfr.pfr import CMPA

        keys = inputs if all(isinstance(x, PublicKey) for x in inputs) else extract_public_keys(inputs)
        c = ctx.setdefault("cmpa", {}).get(family)
        if c is None:
            c = ctx["cmpa"][family] = CMPA(family=family)
        data = c.export(keys=list(keys), draw=False)
        reg = c.registers.find_reg("ROTKH")
        return {"hash": data[reg.offset:reg.offset + reg.width // 8], "field_width": reg.width // 8}
    return f


def p_dat(family: str, revision: Optional[str] = None) -> Callable:
    def f(inputs: list, idx: Optional[int], ctx: dict) -> dict:
        from spsdk.dat.debug_credential import DebugCredentialCertificate

        cfg = {"family": family, "uuid": "00" * 16, "cc_socu": 0x3FF, "cc_vu": 0, "cc_beacon": 0,
               "rot_meta": list(inputs), "rot_id": idx, "rotk": ctx["rotk"][idx], "dck": ctx["dck"]}
        if revision:
            cfg["revision"] = revision
        dc = DebugCredentialCertificate.create_from_yaml_config(cfg)
        return {"hash": dc.calculate_hash(), "meta": dc.rot_meta.export(), "cls": type(dc).__name__}
    return f


def p_ahab_table(v2: bool, from_config: bool) -> Callable:
    def f(inputs: list, idx: Optional[int], ctx: dict) -> dict:
        from spsdk.exceptions import SPSDKError
        from spsdk.image.ahab.ahab_srk import SRKRecord, SRKRecordV2, SRKTable, SRKTableV2

        if from_config:
            t = (SRKTableV2 if v2 else SRKTable).load_from_config({"srk_array": list(inputs)})
        elif v2:
            t = SRKTableV2([SRKRecordV2.create_from_key(k, srk_id=i) for i, k in enumerate(inputs)])
        else:
            t = SRKTable([SRKRecord.create_from_key(k) for k in inputs])
        t.update_fields()
        ver = t.verify()
        if ver.has_errors:
            raise SPSDKError("SRK table verifier reports errors")
        data = t.export()
        return {"hash": t.compute_srk_hash(), "table": data,
                "hash2": (SRKTableV2 if v2 else SRKTable).parse(data).compute_srk_hash()}
    return f


def p_hab_table(inputs: list, idx: Optional[int], ctx: dict) -> dict:
    from spsdk.image.secret import SrkItem, SrkTable

    t = SrkTable()
    for c in inputs:
        t.append(SrkItem.from_certificate(c))
    return {"hash": t.export_fuses(), "table": t.export()}


def _specs(tier: str = "quick") -> list:
    """Path table: id, construction, base encoding + transport, encodings explored, whether it has a used-root
    index, and which encodings its signature documents (others may be refused with any exception)."""
    allenc = E_FILE + E_OBJ
    sp = []
    for v in ("v1", "v21"):
        sp.append({"id": f"RKHT{v}.from_keys", "cons": v, "fn": p_rkht(v), "base": "pub_pem", "transport": "bytes",
                   "encs": allenc, "path_encs": E_FILE, "doc": set(allenc), "k2": True})
    for rt, cons in ROT_CONS.items():
        hab = cons == "hab"
        sp.append({"id": f"Rot[{rt}]", "cons": cons, "fn": p_rot(rt), "base": "cert_pem" if hab else "pub_pem",
                   "transport": "bytes", "encs": allenc, "path_encs": E_FILE,
                   "doc": set(E_CERT) if hab else set(allenc)})
        if cons in ("v1", "v21"):
            # RotCertBlockv1/v21 hand the list to RKHTv1/v21.from_keys, which takes the full product in both tiers
            sp[-1]["quick_dep"] = "none"
        sp.append({"id": f"cli[{rt}]", "cons": cons, "fn": p_cli(rt), "base": "cert_pem" if hab else "pub_pem",
                   "transport": "path", "encs": [], "path_encs": E_FILE, "quick_dep": "none",
                   "doc": {"cert_pem", "cert_der", "certca_pem", "certca_der"} if hab else set(E_FILE)})
        if tier == "thorough":
            f2 = ROT_FAMILY_2[rt]
            sp.append({"id": f"Rot({f2})", "cons": cons, "fn": p_rot(rt, f2), "base": "cert_pem" if hab else "pub_pem",
                       "transport": "bytes", "encs": allenc, "path_encs": E_FILE, "nodep": True,
                       "doc": set(E_CERT) if hab else set(allenc)})
            sp.append({"id": f"cli({f2})", "cons": cons, "fn": p_cli(rt, f2), "base": "cert_pem" if hab else "pub_pem",
                       "transport": "path", "encs": [], "path_encs": E_FILE, "nodep": True,
                       "doc": {"cert_pem", "cert_der", "certca_pem", "certca_der"} if hab else set(E_FILE)})
    for cons, fams in CMPA_FAMILY.items():
        for i, fam in enumerate(fams):
            sp.append({"id": f"CMPA[{fam}]", "cons": cons, "fn": p_cmpa(fam), "base": "pub_pem", "transport": "path",
                       "encs": [], "path_encs": E_FILE if i == 0 else ["pub_pem"], "extra_all": ["obj_pub"],
                       "doc": set(E_FILE) | {"obj_pub"}, "pad": True, "quick_dep": "none"})
    sp.append({"id": "ahab.SRKTable", "cons": "ahab", "fn": p_ahab_table(False, False), "base": "obj_pub",
               "transport": "bytes", "encs": ["obj_pub"], "path_encs": [], "doc": {"obj_pub"}})
    sp.append({"id": "ahab.SRKTableV2", "cons": "ahab2", "fn": p_ahab_table(True, False), "base": "obj_pub",
               "transport": "bytes", "encs": ["obj_pub"], "path_encs": [], "doc": {"obj_pub"}})
    sp.append({"id": "ahab.SRKTable.load_from_config", "cons": "ahab", "fn": p_ahab_table(False, True),
               "base": "pub_pem", "transport": "path", "encs": [], "path_encs": E_FILE, "doc": set(E_FILE),
               "sticky_ca": True})
    sp.append({"id": "ahab.SRKTableV2.load_from_config", "cons": "ahab2", "fn": p_ahab_table(True, True),
               "base": "pub_pem", "transport": "path", "encs": [], "path_encs": E_FILE, "doc": set(E_FILE),
               "sticky_ca": True})
    sp.append({"id": "hab.SrkTable", "cons": "hab", "fn": p_hab_table, "base": "obj_cert", "transport": "bytes",
               "encs": ["obj_cert", "obj_certca"], "path_encs": [], "doc": {"obj_cert", "obj_certca"}})
    return sp


def dat_spec(alg: str, n: int) -> list:
    """Debug-credential paths for this key list: the class is chosen by key type (RSA -> RotMetaRSA = v1 table,
    EC -> RotMetaEcc = v2.1 table) and by the family for EdgeLock Enclave parts (AHAB SRK table, 4 keys)."""
    out = []
    if alg == "rsa3072":
        return out  # the debug authentication protocol has versions for RSA-2048/4096 and P-256/384/521 only
    fam = "lpc55s69" if alg.startswith("rsa") else "lpc55s36"
    out.append({"id": f"dat[{fam}]", "cons": "v1" if alg.startswith("rsa") else "v21", "fn": p_dat(fam),
                "base": "pub_pem", "transport": "path", "encs": [], "path_encs": E_FILE, "doc": set(E_FILE),
                "idx": True, "dat": "rsa" if alg.startswith("rsa") else "ecc", "quick_dep": "idx0"})
    if not alg.startswith("rsa"):
        out.append({"id": "dat[kw45b41z8]", "cons": "v21", "fn": p_dat("kw45b41z8"), "base": "pub_pem",
                    "transport": "path", "encs": [], "path_encs": ["pub_pem", "raw"], "doc": set(E_FILE),
                    "idx": True, "dat": "ecc"})
    if n == 4:
        out.append({"id": "dat[mimxrt1189]", "cons": "ahab", "fn": p_dat("mimxrt1189"), "base": "pub_pem",
                    "transport": "path", "encs": [], "path_encs": E_FILE, "doc": set(E_FILE), "idx": True,
                    "dat": "ele", "quick_dep": "idx0"})
    return out


def assignments(spec: dict, n: int, tier: str = "thorough", idx: Optional[int] = None):
    """(label, [encoding per key], transport) - base, single departures, all-same, all as paths, bytearray.

    quick tier: paths marked `quick_dep` (2..10 ms per call) take their single departures only at used-root index 0
    (debug credential: "idx0") or not at all (CLI, CMPA: "none" - base, all-same and all-as-path groups remain);
    everything else is the same in both tiers.  thorough tier: no such reduction, and paths marked `k2` additionally
    take every pair of departures (two positions x two encodings); `nodep` paths (second representative family) never
    take single departures."""
    base, bt = spec["base"], spec["transport"]
    yield ("base", [base] * n, bt)
    deps = [e for e in (spec["encs"] if bt == "bytes" else spec["path_encs"]) if e != base]
    single = not spec.get("nodep")
    if tier == "quick" and spec.get("quick_dep") == "none":
        single = False
    if tier == "quick" and spec.get("quick_dep") == "idx0" and idx not in (None, 0):
        single = False
    if single:
        for pos in range(n):
            for e in deps:
                a = [base] * n
                a[pos] = e
                yield (f"dep{pos}:{e}", a, bt)
    if n > 1 or not single:
        for e in deps:
            yield (f"all:{e}", [e] * n, bt)
    if bt == "bytes":
        for e in spec["path_encs"]:
            yield (f"allpath:{e}", [e] * n, "path")
        if base in EXT:
            yield (f"allbytearray:{base}", [base] * n, "bytearray")
    for e in spec.get("extra_all", []):
        yield (f"all:{e}", [e] * n, "bytes")
    if tier == "thorough" and spec.get("k2") and n >= 2:
        for p1, p2 in itertools.combinations(range(n), 2):
            for e1 in deps:
                for e2 in deps:
                    if e1 == e2 and n == 2:
                        continue  # = all:e1
                    a = [base] * n
                    a[p1], a[p2] = e1, e2
                    yield (f"dep{p1}{p2}:{e1}+{e2}", a, bt)


# ---------------------------------------------------------------------------------------------
# bookkeeping shared by the workers


class Tally:
    def __init__(self, task: dict) -> None:
        self.task = task
        self.tried: dict = {}
        self.fails: dict = {}
        self.cnt: dict = {}
        self.values: dict = {}  # (cons, flags) -> {hash hex: first dims}
        self.nfail = 0

    def count(self, k: str, n: int = 1) -> None:
        self.cnt[k] = self.cnt.get(k, 0) + n

    def judged(self, cons: str, dims: dict) -> None:
        g = self.tried.setdefault(cons, {}).setdefault(str(dims.get("path")), {})
        for d, v in dims.items():
            if d != "path":
                g.setdefault(d, set()).add(str(v))
        self.count("judged")

    def timed(self, key: str, dt: float) -> None:
        """Per-path CPU accounting, development aid only (VERIF_C03_PROFILE=1): timings would make the results of the
        determinism double-run differ, so they are never part of a normal run."""
        if _PROFILE:
            self.cnt["us:" + key] = self.cnt.get("us:" + key, 0) + int(dt * 1e6)

    def fail(self, clause: str, cons: str, kind: str, dims: dict, detail: str, focus: dict) -> None:
        key = (clause, cons, kind)
        f = self.fails.get(key)
        if f is None:
            f = self.fails[key] = {"dims": {}, "detail": detail[:700], "focus": focus, "n": 0}
        f["n"] += 1
        self.nfail += 1
        for d, v in dims.items():
            f["dims"].setdefault(d, set()).add(str(v))

    def result(self) -> dict:
        fails = [{"clause": k[0], "cons": k[1], "kind": k[2], "dims": {d: sorted(v) for d, v in f["dims"].items()},
                  "detail": f["detail"], "focus": f["focus"], "n": f["n"]} for k, f in sorted(self.fails.items())]
        tried = {c: {p: {d: sorted(v) for d, v in dd.items()} for p, dd in sorted(pp.items())}
                 for c, pp in sorted(self.tried.items())}
        return {"fails": fails, "tried": tried, "count": dict(self.cnt)}


def _lz(nums: list) -> str:
    return "lz" if any(R.has_leading_zero(k) for k in nums) else "nolz"


def _hx(b: Any) -> str:
    if isinstance(b, (bytes, bytearray)):
        return bytes(b).hex() if len(b) <= 64 else f"{bytes(b[:48]).hex()}..({len(b)}B)"
    return repr(b)


def _worker_setup() -> dict:
    logging.disable(logging.CRITICAL)
    tmp = tempfile.mkdtemp(prefix="c03w-", dir=os.path.dirname(mat()["dir"]))
    return {"tmp": tmp}


# ---------------------------------------------------------------------------------------------
# task kind "seq"


def run_eval(spec: dict, src: Src, names: list, encs: list, transport: str, idx: Optional[int], wctx: dict) -> tuple:
    inputs = [src.get(nm, e, transport) for nm, e in zip(names, encs)]
    return call(lambda: spec["fn"](inputs, idx, wctx))


def flags_for(spec: dict, encs: list) -> list:
    """CA flag per SRK record as the input encodings imply it (a CA certificate carries keyCertSign / cA=TRUE).
    SRKTable.load_from_config documents ONE `flag_ca` per table, so for that path only uniform inputs are judged."""
    return [0x80 if e in E_CA else 0 for e in encs]


def _bucket(cons: str, flags: list) -> tuple:
    return (cons, tuple(flags) if cons in ("ahab", "ahab2", "hab") else ())


def w_seq(task: dict) -> dict:
    t = Tally(task)
    src = Src()
    wctx = _worker_setup()
    try:
        _seq_body(task, t, src, wctx)
    finally:
        shutil.rmtree(wctx["tmp"], ignore_errors=True)
    return t.result()


def _seq_body(task: dict, t: Tally, src: Src, wctx: dict) -> None:
    alg, seq = task["alg"], task["seq"]
    names = [POOLS[alg][i] for i in seq]
    nums = [src.num(nm) for nm in names]
    n = len(names)
    lz = _lz(nums)
    focus = task.get("focus")
    wctx["dck"] = src.path(names[0], "pub_pem")
    wctx["rotk"] = [src.path(nm, "priv_pem") for nm in names]
    specs = _specs(task["tier"]) + dat_spec(alg, n)
    if task.get("paths"):
        specs = [s for s in specs if s["id"] in task["paths"]]
    base_val: dict = {}  # (unused, kept for the signature of _judge)
    for spec in specs:
        if focus and spec["id"] != focus.get("path"):
            continue
        idxs = list(range(n)) if spec.get("idx") else [None]
        for idx in idxs:
            base_ok = True
            for label, encs, transport in assignments(spec, n, task["tier"], idx):
                if not base_ok:
                    # the path refuses this key list already in its base encoding (key type / key count not supported
                    # by this RoT type): one evaluation records the refusal, the encodings cannot matter
                    t.count("skipped_after_base_refusal")
                    continue
                if focus and (label not in ("base", focus.get("label")) or (focus.get("idx") not in (None, idx))):
                    continue
                st = _judge(t, spec, src, names, nums, alg, lz, label, encs, transport, idx, wctx, base_val)
                if label == "base" and st != "ok":
                    base_ok = False
        if not focus or focus.get("label") == "order":
            _order(t, spec, src, names, nums, alg, lz, wctx)
    if not focus:
        _controls(t, src, names, nums, alg)
        _certblock_v1(t, task, src, names, nums, alg, lz, wctx)
        _certblock_v21(t, task, src, names, nums, alg, lz, wctx)
    elif focus.get("path", "").startswith("CertBlockV1"):
        _certblock_v1(t, task, src, names, nums, alg, lz, wctx)
    elif focus.get("path", "").startswith("CertBlockV21"):
        _certblock_v21(t, task, src, names, nums, alg, lz, wctx)
    # agreement over everything this task accepted
    for (cons, fl), vals in sorted(t.values.items()):
        if len(vals) > 1:
            items = sorted(vals.items(), key=lambda kv: -kv[1]["n"])
            major, minor = items[0], items[1]
            t.fail("C03.agreement", cons, "two-values", minor[1]["dims"],
                   f"{alg} {names} flags={list(fl)}: {minor[1]['dims']['path']} [{minor[1]['label']}] -> {minor[0][:48]} "
                   f"but {major[1]['dims']['path']} [{major[1]['label']}] -> {major[0][:48]}",
                   {"path": minor[1]["dims"]["path"], "label": minor[1]["label"], "idx": minor[1].get("idx")})


def _dims(spec: dict, alg: str, n: int, idx: Optional[int], label: str, lz: str) -> dict:
    mode, _, enc = label.partition(":")
    return {"path": spec["id"], "alg": alg, "n": n, "idx": "-" if idx is None else ("0" if idx == 0 else "+"),
            "enc": enc or "base", "mode": mode.rstrip("0123456789"), "lz": lz}


def _judge(t: Tally, spec: dict, src: Src, names: list, nums: list, alg: str, lz: str, label: str, encs: list,
           transport: str, idx: Optional[int], wctx: dict, base_val: dict) -> str:
    n = len(names)
    cons = spec["cons"]
    flags = flags_for(spec, encs)
    if spec.get("sticky_ca") and len(set(flags)) > 1:
        t.count("skipped_mixed_ca_in_table_config")
        return "skipped"
    t0 = time.perf_counter()
    res = run_eval(spec, src, names, encs, transport, idx, wctx)
    t.timed(spec["id"], time.perf_counter() - t0)
    t.count("evaluations_total")
    t.count(f"path:{spec['id']}")
    dims = _dims(spec, alg, n, idx, label, lz)
    focus = {"path": spec["id"], "label": label, "idx": idx}
    exp = expected(cons, nums, flags, idx)
    what = f"{spec['id']} {alg} keys={names} idx={idx} [{label}; {transport}]"
    documented = all(e in spec["doc"] for e in encs)
    if res[0] == "SPSDKError":
        t.count("rejected")
        t.count(f"rejected:{spec['id']}:{dims['enc']}")
        return "rejected"
    if res[0] != "ok":
        if exp is not None and documented:
            t.fail("C03.undocumented-exception", "exc", res[1], dims, f"{what} raised {res[1]}: {res[2]}", focus)
        else:
            t.count("refused_with_non_spsdk_error")
            t.count(f"refused_non_spsdk:{spec['id']}:{res[1]}")
        return "refused"
    obs = res[1]
    h = bytes(obs["hash"])
    wrong = False
    if exp is None:
        t.count("accepted_without_reference")
        t.count(f"accepted_without_reference:{spec['id']}:{alg}")
    else:
        t.judged(cons, dims)
        want = exp["hash"]
        if spec.get("pad"):
            want = want.ljust(obs["field_width"], b"\x00") if len(want) <= obs["field_width"] else want
        if h != want:
            t.fail("C03.definition", cons, "wrong-hash", dims, f"{what} -> {_hx(h)}, construction {_hx(want)}", focus)
            wrong = True
        tab = obs.get("table")
        if tab is not None and bytes(tab) != exp["table"]:
            t.fail("C03.table", cons, "wrong-table", dims, f"{what} table {_hx(tab)}, layout {_hx(exp['table'])}", focus)
        if "meta" in obs:
            _judge_meta(t, spec, obs, exp, nums, idx, dims, what, focus)
        if "hash2" in obs and bytes(obs["hash2"]) != h:
            t.fail("C03.agreement", cons, "parsed-table-hash-differs", dims,
                   f"{what}: the exported SRK table parsed again reports {_hx(obs['hash2'])}, built table {_hx(h)}", focus)
    # agreement bucket (normalised: the CMPA field is the hash padded with zeros).  A value already reported by
    # C03.definition is not reported a second time as a disagreement.
    if wrong:
        return "ok"
    hv = h
    if spec.get("pad") and exp is not None:
        hv = h[:len(exp["hash"])] if h[len(exp["hash"]):] == bytes(len(h) - len(exp["hash"])) else h
    b = t.values.setdefault(_bucket(cons, flags), {})
    e = b.setdefault(hv.hex(), {"dims": dims, "label": label, "idx": idx, "n": 0})
    e["n"] += 1
    return "ok"


def _judge_meta(t: Tally, spec: dict, obs: dict, exp: dict, nums: list, idx: Optional[int], dims: dict, what: str,
                focus: dict) -> None:
    """RoT meta of a debug credential: RSA = the 4 x 32 B table; EC = flags word (1<<31 | used<<8 | count<<4) +
    CTRK table; EdgeLock = the same flags word + the SRK table."""
    meta = bytes(obs["meta"])
    kind = spec["dat"]
    if kind == "rsa":
        want = exp["table"]
    else:
        want = struct.pack("<L", (1 << 31) | (idx << 8) | (len(nums) << 4)) + exp["table"]
    if meta != want:
        t.fail("C03.table", spec["cons"], "wrong-rot-meta", dims, f"{what} RoT meta {_hx(meta)}, layout {_hx(want)}", focus)


def _order(t: Tally, spec: dict, src: Src, names: list, nums: list, alg: str, lz: str, wctx: dict) -> None:
    """Clause 3: swapping two (distinct) keys changes the value - at the base encoding, every pair of positions."""
    n = len(names)
    if n < 2:
        return
    idx = 0 if spec.get("idx") else None
    bt = spec["transport"]
    base = run_eval(spec, src, names, [spec["base"]] * n, bt, idx, wctx)
    if base[0] != "ok":
        return
    for i, j in itertools.combinations(range(n), 2):
        sw = list(names)
        sw[i], sw[j] = sw[j], sw[i]
        r = run_eval(spec, src, sw, [spec["base"]] * n, bt, idx, wctx)
        t.count("order_evaluations")
        if r[0] != "ok":
            continue
        dims = _dims(spec, alg, n, idx, "base", lz)
        dims["swap"] = f"{i}{j}"
        t.judged("order:" + spec["cons"], dims)
        if bytes(r[1]["hash"]) == bytes(base[1]["hash"]):
            t.fail("C03.order", "order:" + spec["cons"], "swap-invisible", dims,
                   f"{spec['id']} {alg}: {names} and {sw} give the same value {_hx(base[1]['hash'])}",
                   {"path": spec["id"], "label": "order", "idx": idx})


def _controls(t: Tally, src: Src, names: list, nums: list, alg: str) -> None:
    """The RSA private-key loader seam is switched off for one evaluation per key of a single-key list: the real
    OpenSSL consistency check runs and the value must be the same."""
    if not alg.startswith("rsa") or len(names) != 1:
        return
    from spsdk.utils.crypto.rkht import RKHTv1

    _FAST_RSA[0] = False
    try:
        for enc in ("priv_pem", "priv_der"):
            r = call(lambda: RKHTv1.from_keys([src.get(names[0], enc)]).rkth())
            t.count("rsa_loader_control_evaluations")
            if r[0] != "ok" or r[1] != R.rkth_v1(nums):
                t.fail("C03.definition", "v1", "wrong-hash-real-rsa-loader", {"path": "RKHTv1.from_keys", "alg": alg},
                       f"unpatched RSA loader: {names} {enc} -> {r}", {"path": "control"})
    finally:
        _FAST_RSA[0] = True


# ---------------------------------------------------------------------------------------------
# certificate blocks


def _cb_common(t: Tally, cons: str, pid: str, label: str, dims: dict, what: str, focus: dict, rkth: bytes, exp: dict,
               exported: bytes, rom: Optional[dict], rom_err: Optional[str], reparsed: tuple, idx: int, n: int,
               root_raw: Optional[bytes]) -> None:
    """Clauses common to both certificate block versions.  `rom` is what the independent ROM-side reader gets out
    of the exported bytes: the RKTH it computes must be the value SPSDK reports (and that value the construction)."""
    t.judged(cons, dims)
    wrong = rkth != exp["hash"]
    if wrong:
        t.fail("C03.definition", cons, "wrong-hash", dims, f"{what} rkth {_hx(rkth)}, construction {_hx(exp['hash'])}", focus)
    if rom_err is not None:
        t.fail("C03.block-rom", cons, "rom-rejects", dims, f"{what}: ROM-side reader refuses the exported block: {rom_err}", focus)
    elif rom is not None:
        if rom["rkth"] != rkth:
            t.fail("C03.block-rom", cons, "rom-rkth", dims,
                   f"{what}: RKTH a ROM computes from the exported block {_hx(rom['rkth'])}, reported rkth {_hx(rkth)}", focus)
        if rom["used"] != idx or rom["count"] != n:
            t.fail("C03.block-rom", cons, "rom-used-root", dims,
                   f"{what}: block says used root {rom['used']} of {rom['count']}, built with {idx} of {n}", focus)
        if root_raw is not None and rom.get("root") != root_raw:
            t.fail("C03.block-rom", cons, "rom-root-key", dims, f"{what}: root key in the block is not key #{idx}", focus)
    if reparsed[0] == "ok":
        re_exp, re_rkth = reparsed[1]
        if re_exp != exported:
            t.fail("C03.block-roundtrip", cons, "re-export-differs", dims,
                   f"{what}: parse(export).export() differs ({len(re_exp)} vs {len(exported)} B)", focus)
        if re_rkth != rkth:
            t.fail("C03.block-roundtrip", cons, "parsed-rkth-differs", dims,
                   f"{what}: parsed block reports rkth {_hx(re_rkth)}, built block {_hx(rkth)}", focus)
    else:
        t.fail("C03.block-roundtrip", cons, "parse-raises:" + str(reparsed[1])[:60], dims,
               f"{what}: parse(export) raised {reparsed[1:]}", focus)
    if wrong:
        return
    b = t.values.setdefault(_bucket(cons, []), {})
    e = b.setdefault(rkth.hex(), {"dims": dims, "label": label, "idx": idx, "n": 0})
    e["n"] += 1


def _certblock_v1(t: Tally, task: dict, src: Src, names: list, nums: list, alg: str, lz: str, wctx: dict) -> None:
    """CertBlockV1 (RSA): from_config with certificate files, the object API, chain depth 1 (and 2 in thorough)."""
    if not alg.startswith("rsa"):
        return
    from spsdk.crypto.certificate import Certificate
    from spsdk.utils.crypto.cert_blocks import CertBlockV1

    from vf.ref import certblock_v1 as CB1

    n = len(names)
    exp = expected("v1", nums, [0] * n)
    ci = fixtures.cert_index()
    focus_t = task.get("focus")
    variants = []
    spec = {"id": "CertBlockV1.from_config", "base": "cert_pem", "transport": "path", "encs": [],
            "path_encs": ["cert_pem", "cert_der", "certca_pem", "certca_der"]}
    for label, encs, _ in assignments(spec, n):
        variants.append(("CertBlockV1.from_config", label, encs))
    variants.append(("CertBlockV1.from_config", "auto-index", ["cert_pem"] * n))
    # the same configuration with its keys written in another order (a YAML mapping has no order)
    variants.append(("CertBlockV1.from_config", "keys-reversed", ["cert_pem"] * n))
    variants.append(("CertBlockV1.from_config", "keys-rotated", ["cert_pem"] * n))
    variants.append(("CertBlockV1.api", "all:obj_cert", ["obj_cert"] * n))
    variants.append(("CertBlockV1.api", "all:cert_der", ["cert_der"] * n))
    variants.append(("CertBlockV1.api", "hashes", ["cert_der"] * n))
    if task["tier"] == "thorough":
        variants.append(("CertBlockV1.from_config", "chain2", ["cert_pem"] * n))
        variants.append(("CertBlockV1.from_config", "chain3", ["cert_pem"] * n))
    for pid, label, encs in variants:
        for idx in range(n):
            if focus_t and (pid != focus_t.get("path") or label != focus_t.get("label") or idx != focus_t.get("idx")):
                continue
            dims = _dims({"id": pid}, alg, n, idx, label if ":" in label else label + ":", lz)
            dims["enc"] = label.partition(":")[2] or label
            focus = {"path": pid, "label": label, "idx": idx}
            what = f"{pid} {alg} keys={names} idx={idx} [{label}]"
            align = 16 if pid.endswith("from_config") else 4  # default alignment / the one MBI uses

            def build():
                if pid.endswith("from_config"):
                    cfg: dict = {"imageBuildNumber": 1}
                    for i, (nm, e) in enumerate(zip(names, encs)):
                        cfg[f"rootCertificate{i}File"] = src.path(nm, e)
                    if label == "auto-index":
                        cfg["mainCertPrivateKeyFile"] = src.path(names[idx], "priv_pem")
                    else:
                        cfg["mainRootCertId"] = idx
                    if label.startswith("chain"):
                        root = f"{alg}_root{POOLS[alg].index(names[idx])}"
                        chain = ci[root]["d2" if label == "chain2" else "d3"]["chain"]
                        cfg[f"rootCertificate{idx}File"] = fixtures.path(chain[0] + ".pem")
                        for j, c in enumerate(chain[1:]):
                            cfg[f"chainCertificate{idx}File{j}"] = fixtures.path(c + ".der")
                    cfg = _reorder_cfg(cfg, label)
                    cb = CertBlockV1.from_config(cfg)
                else:
                    cb = CertBlockV1(build_number=1)
                    sel = src.get(names[idx], "obj_cert" if label == "all:obj_cert" else "cert_der")
                    cb.add_certificate(sel)
                    for i, nm in enumerate(names):
                        if label == "hashes":
                            cb.set_root_key_hash(i, R.rkh_v1(src.num(nm)))
                        else:
                            cb.set_root_key_hash(i, Certificate.parse(src.get(nm, "cert_der"))
                                                 if label == "all:cert_der" else src.get(nm, "obj_cert"))
                if align != 16:
                    cb.alignment = align
                data = cb.export()
                return cb.rkth, data, cb.rkth_fuses, cb.rkh_index, list(cb.rkh)
            r = call(build)
            t.count("evaluations_total")
            t.count(f"path:{pid}")
            if r[0] == "SPSDKError":
                t.count("rejected")
                t.count(f"rejected:{pid}:{dims['enc']}")
                continue
            if r[0] != "ok":
                t.fail("C03.undocumented-exception", "exc", r[1], dims, f"{what} raised {r[1]}: {r[2]}", focus)
                continue
            rkth, data, fuses, rkh_index, rkh = r[1]
            rom, rom_err = None, None
            try:
                b = CB1.read(data, 0, alignment=align)
                rom = {"rkth": b["rkth"], "used": b["root_index"], "count": sum(1 for x in b["rkh"] if any(x)),
                       "table": b"".join(b["rkh"])}
            except CB1.CertBlockError as e:
                rom_err = str(e)
            rep = call(lambda: (lambda p: (p.export(), p.rkth))(_cb1_parse(CertBlockV1, data, align)))
            _cb_common(t, "v1", pid, label, dims, what, focus, rkth, exp, data, rom, rom_err, rep, idx, n, None)
            if rom is not None and rom["table"] != exp["table"]:
                t.fail("C03.table", "v1", "wrong-table", dims, f"{what}: RKH table in the block {_hx(rom['table'])}", focus)
            if b"".join(rkh).ljust(128, b"\x00") != exp["table"]:
                t.fail("C03.table", "v1", "wrong-table", dims, f"{what}: .rkh {_hx(b''.join(rkh))}", focus)
            if rkh_index != idx:
                t.fail("C03.block-rom", "v1", "rkh-index", dims, f"{what}: rkh_index {rkh_index}", focus)
            if list(fuses) != R.rkth_fuses(rkth) or struct.pack("<8I", *fuses) != rkth:
                t.fail("C03.fuses", "v1", "wrong-fuse-words", dims, f"{what}: rkth_fuses {[hex(x) for x in fuses]} for {_hx(rkth)}", focus)


def _reorder_cfg(cfg: dict, label: str) -> dict:
    """Same mapping, keys inserted in another order (reversed / rotated by one)."""
    items = list(cfg.items())
    if label == "keys-reversed":
        items = items[::-1]
    elif label == "keys-rotated":
        items = items[1:] + items[:1]
        rc = [kv for kv in items if kv[0].startswith("rootCertificate")]
        if len(rc) > 1:  # root slots as 1, 2, .., 0 in any case
            rest = [kv for kv in items if not kv[0].startswith("rootCertificate")]
            items = rest[:1] + rc[1:] + rc[:1] + rest[1:]
    return dict(items)


def _cb1_parse(cls, data: bytes, align: int):
    p = cls.parse(data)
    if align != 16:
        p.alignment = align  # the alignment is not stored in the block
    return p


def _certblock_v21(t: Tally, task: dict, src: Src, names: list, nums: list, alg: str, lz: str, wctx: dict) -> None:
    """CertBlockV21 without ISK (CA flag set): constructor with every encoding, from_config with files."""
    from spsdk.utils.crypto.cert_blocks import CertBlockV21

    n = len(names)
    exp = expected("v21", nums, [0] * n)
    ecc = not alg.startswith("rsa")
    focus_t = task.get("focus")
    variants = []
    spec = {"id": "CertBlockV21", "base": "pub_pem", "transport": "bytes", "encs": E_FILE + ["obj_pub"],
            "path_encs": []}
    for label, encs, tr in assignments(spec, n):
        variants.append(("CertBlockV21", label, encs, tr))
    spec = {"id": "CertBlockV21.from_config", "base": "pub_pem", "transport": "path", "encs": [], "path_encs": E_FILE}
    for label, encs, tr in assignments(spec, n):
        variants.append(("CertBlockV21.from_config", label, encs, tr))
    variants.append(("CertBlockV21.from_config", "auto-index", ["pub_pem"] * n, "path"))
    variants.append(("CertBlockV21.from_config", "keys-reversed", ["pub_pem"] * n, "path"))
    variants.append(("CertBlockV21.from_config", "keys-rotated", ["pub_pem"] * n, "path"))
    refused: set = set()
    for pid, label, encs, tr in variants:
        for idx in range(n):
            if focus_t and (pid != focus_t.get("path") or label != focus_t.get("label") or idx != focus_t.get("idx")):
                continue
            if (pid, idx) in refused:
                t.count("skipped_after_base_refusal")  # RSA / P-521 keys: refused in the base encoding already
                continue
            dims = _dims({"id": pid}, alg, n, idx, label if ":" in label else label + ":", lz)
            dims["enc"] = label.partition(":")[2] or label
            focus = {"path": pid, "label": label, "idx": idx}
            what = f"{pid} {alg} keys={names} idx={idx} [{label}; {tr}]"

            def build():
                if pid == "CertBlockV21":
                    cb = CertBlockV21(root_certs=[src.get(nm, e, tr) for nm, e in zip(names, encs)],
                                      used_root_cert=idx, ca_flag=True)
                    cb.calculate()
                else:
                    cfg: dict = {"family": ISK_FAMILY, "useIsk": False}
                    for i, (nm, e) in enumerate(zip(names, encs)):
                        cfg[f"rootCertificate{i}File"] = src.path(nm, e)
                    if label == "auto-index":
                        cfg["signPrivateKey"] = src.path(names[idx], "priv_pem")
                    else:
                        cfg["mainRootCertId"] = idx
                    cfg = _reorder_cfg(cfg, label)
                    cb = CertBlockV21.from_config(cfg)
                return cb.rkth, cb.export()
            r = call(build)
            t.count("evaluations_total")
            t.count(f"path:{pid}")
            if r[0] != "ok" and label == "base":
                refused.add((pid, idx))
            if r[0] == "SPSDKError":
                t.count("rejected")
                t.count(f"rejected:{pid}:{dims['enc']}")
                continue
            if r[0] != "ok":
                if exp is not None and ecc:
                    t.fail("C03.undocumented-exception", "exc", r[1], dims, f"{what} raised {r[1]}: {r[2]}", focus)
                else:
                    t.count("refused_with_non_spsdk_error")
                    t.count(f"refused_non_spsdk:{pid}:{r[1]}")
                continue
            rkth, data = r[1]
            if exp is None or not ecc:
                t.count("accepted_without_reference")
                continue
            rom, rom_err = None, None
            try:
                rom = R.parse_certblock_v21(data)
            except R.BlockError as e:
                rom_err = str(e)
            rep = call(lambda: (lambda p: (p.export(), p.rkth))(CertBlockV21.parse(data)))
            before = t.nfail
            _cb_common(t, "v21", pid, label, dims, what, focus, rkth, exp, data, rom, rom_err, rep, idx, n,
                       R.raw_key(nums[idx]))
            if rom is not None:
                if rom["table"] != exp["table"]:
                    t.fail("C03.table", "v21", "wrong-table", dims, f"{what}: CTRK table in the block {_hx(rom['table'])}", focus)
                if not rom["ca"] or rom["isk"] is not None:
                    t.fail("C03.block-rom", "v21", "rom-ca-flag", dims, f"{what}: CA flag {rom['ca']}", focus)
                if t.nfail == before and data[12:] != R.root_key_record_v21(nums, idx, True):
                    t.fail("C03.block-rom", "v21", "rom-record", dims, f"{what}: root key record differs from the layout", focus)


# ---------------------------------------------------------------------------------------------
# task kind "isk"


def w_isk(task: dict) -> dict:
    logging.disable(logging.CRITICAL)
    from spsdk.crypto.signature_provider import get_signature_provider
    from spsdk.utils.crypto.cert_blocks import CertBlockV21

    t = Tally(task)
    src = Src()
    alg, seq = task["alg"], task["seq"]
    names = [POOLS[alg][i] for i in seq]
    nums = [src.num(nm) for nm in names]
    n = len(names)
    lz = _lz(nums)
    exp = expected("v21", nums, [0] * n)
    focus_t = task.get("focus")
    tmp = tempfile.mkdtemp(prefix="c03i-", dir=os.path.dirname(mat()["dir"]))
    try:
        for idx in range(n):
            for isk_alg in task["isk_algs"]:
                isk_name = ISK_KEYS[isk_alg]
                isk_raw = R.raw_key(src.num(isk_name))
                for udl in task["ud_lens"]:
                    for how in task["hows"]:
                        label = f"{how}/isk={isk_alg}/ud={udl}"
                        if focus_t and (label != focus_t.get("label") or idx != focus_t.get("idx")):
                            continue
                        ud = core.seeded_bytes(task["seed"], f"ud|{alg}|{seq}|{idx}|{udl}", udl)
                        constraints = (idx * 7 + udl) & 0xFFFF
                        dims = {"path": "CertBlockV21+ISK", "alg": alg, "n": n, "idx": "0" if idx == 0 else "+",
                                "isk": isk_alg, "ud": udl, "how": how, "lz": lz}
                        focus = {"path": "CertBlockV21+ISK", "label": label, "idx": idx}
                        what = f"CertBlockV21+ISK {alg} keys={names} idx={idx} [{label}]"

                        def build():
                            if how == "ctor":
                                sp = get_signature_provider(local_file_key=src.path(names[idx], "priv_pem"))
                                cb = CertBlockV21(root_certs=[src.get(nm, "pub_pem") for nm in names],
                                                  used_root_cert=idx, ca_flag=False, signature_provider=sp,
                                                  isk_cert=src.get(isk_name, "pub_pem"), user_data=ud or None,
                                                  constraints=constraints, family=ISK_FAMILY)
                                cb.calculate()
                            else:
                                cfg: dict = {"family": ISK_FAMILY, "useIsk": True, "mainRootCertId": idx,
                                             "signPrivateKey": src.path(names[idx], "priv_der"),
                                             "iskPublicKey": src.path(isk_name, "pub_der" if how == "config" else "cert_pem"),
                                             "iskCertificateConstraint": constraints}
                                for i, nm in enumerate(names):
                                    cfg[f"rootCertificate{i}File"] = src.path(nm, "pub_der")
                                if ud:
                                    p = os.path.join(tmp, "ud.bin")
                                    with open(p, "wb") as f:
                                        f.write(ud)
                                    cfg["iskCertData"] = p
                                cb = CertBlockV21.from_config(cfg)
                            d1 = cb.export()
                            return cb.rkth, d1, cb.export()
                        r = call(build)
                        t.count("evaluations_total")
                        t.count("path:CertBlockV21+ISK")
                        if r[0] == "SPSDKError":
                            t.count("rejected")
                            t.count(f"rejected:CertBlockV21+ISK:{alg}")
                            continue
                        if r[0] != "ok":
                            if exp is not None:
                                t.fail("C03.undocumented-exception", "exc", r[1], dims, f"{what} raised {r[1]}: {r[2]}", focus)
                            else:
                                t.count("refused_with_non_spsdk_error")
                            continue
                        rkth, data, data2 = r[1]
                        if exp is None:
                            t.count("accepted_without_reference")
                            continue
                        rom, rom_err = None, None
                        try:
                            rom = R.parse_certblock_v21(data)
                        except R.BlockError as e:
                            rom_err = str(e)
                        rep = call(lambda: (lambda p: (p.export(), p.rkth))(CertBlockV21.parse(data)))
                        before = t.nfail
                        _cb_common(t, "v21", "CertBlockV21+ISK", label, dims, what, focus, rkth, exp, data, rom, rom_err,
                                   rep, idx, n, R.raw_key(nums[idx]))
                        if data2 != data:
                            t.fail("C03.block-roundtrip", "v21", "second-export-differs", dims,
                                   f"{what}: exporting the same object twice gives different bytes", focus)
                        if rom is None:
                            continue
                        isk = rom["isk"]
                        if rom["ca"] or isk is None:
                            t.fail("C03.block-rom", "v21", "rom-ca-flag", dims, f"{what}: CA flag set / no ISK in the block", focus)
                            continue
                        if rom["table"] != exp["table"]:
                            t.fail("C03.table", "v21", "wrong-table", dims, f"{what}: CTRK table in the block {_hx(rom['table'])}", focus)
                        bad = []
                        if isk["key"] != isk_raw:
                            bad.append("ISK-public-key")
                        if isk["user_data"] != ud:
                            bad.append(f"user-data ({len(isk['user_data'])} B for {udl} B)")
                        if isk["constraints"] != constraints:
                            bad.append(f"constraints ({isk['constraints']} for {constraints})")
                        if isk["curve"] != (1 if isk_alg == "p256" else 2):
                            bad.append("ISK-curve-flag")
                        if isk["sig_offset"] != 12 + len(isk_raw) + udl:
                            bad.append(f"signature-offset ({isk['sig_offset']})")
                        if bad:
                            t.fail("C03.isk-fields", "v21", "field:" + bad[0].split(" ")[0], dims, f"{what}: {', '.join(bad)}", focus)
                        # the block as a whole against the documented layout rebuilt from the inputs (everything in front
                        # of the signature); only reported when no more specific clause fired on this block
                        layout = (R.root_key_record_v21(nums, idx, False)
                                  + struct.pack("<3L", 12 + len(isk_raw) + udl, constraints,
                                                (0x80000000 if udl else 0) | (1 if isk_alg == "p256" else 2))
                                  + isk_raw + ud)
                        if t.nfail == before and isk["signed"] != layout:
                            t.fail("C03.block-rom", "v21", "rom-record", dims, f"{what}: bytes in front of the signature differ from the layout", focus)
                        # signature: by the selected root (numbers from the fixture) over exactly the bytes between the end
                        # of the block header and the signature = record || ISK header || ISK key || user data
                        t.count("isk_signature_verifications")
                        if not R.isk_signature_ok(rom, (nums[idx]["x"], nums[idx]["y"])):
                            t.fail("C03.isk-signature", "v21", "not-by-selected-root-over-documented-data", dims,
                                   f"{what}: signature does not verify under root #{idx} over record||header||key||data", focus)
                        for j in range(n):
                            if j != idx:
                                t.count("isk_signature_verifications")
                                if R.isk_signature_ok(rom, (nums[j]["x"], nums[j]["y"])):
                                    t.fail("C03.isk-signature", "v21", "verifies-under-other-root", dims,
                                           f"{what}: signature verifies under root #{j}", focus)
    finally:
        shutil.rmtree(tmp, ignore_errors=True)
    return t.result()


# ---------------------------------------------------------------------------------------------
# task kinds "family" and "field"


def _cli_rot_hash(fam: str, rev: str, paths: list, tmp: str) -> bytes:
    """`nxpcrypto rot calculate-hash -f <family> -r <revision> -k ... -o file` through click's CliRunner."""
    from click.testing import CliRunner

    from spsdk.apps import nxpcrypto
    from spsdk.exceptions import SPSDKError

    nxpcrypto.spsdk_logger.install = lambda *a, **k: None
    o = os.path.join(tmp, "fam_hash.bin")
    if os.path.exists(o):
        os.remove(o)
    args = ["rot", "calculate-hash", "-f", fam, "-r", rev, "-o", o]
    for p in paths:
        args += ["-k", p]
    res = CliRunner().invoke(nxpcrypto.main, args, catch_exceptions=True)
    if res.exit_code != 0:
        exc = res.exception
        if exc is None or isinstance(exc, SystemExit):
            raise SPSDKError(f"nxpcrypto exit code {res.exit_code}: {res.output[-120:]}")
        raise exc
    return open(o, "rb").read()


def w_family(task: dict) -> dict:
    """One database family x revision: the expected construction is the one the database names for THAT revision
    (generic accessor get_db(family, revision)); the tools are asked with the revision given explicitly."""
    logging.disable(logging.CRITICAL)
    t = Tally(task)
    src = Src()
    fam, rev, what = task["family"], task.get("revision", "latest"), task["what"]
    from spsdk.utils.database import DatabaseManager, get_db

    db = get_db(fam, rev)
    revkind = "latest" if rev == "latest" else ("differs-from-latest" if task.get("differs") else "named")
    wctx = {"tmp": tempfile.mkdtemp(prefix="c03f-", dir=os.path.dirname(mat()["dir"]))}
    try:
        for alg in ALGS:
            names = POOLS[alg]
            nums = [src.num(nm) for nm in names]
            wctx["dck"] = src.path(names[0], "pub_pem")
            wctx["rotk"] = [src.path(nm, "priv_pem") for nm in names]
            runs = []  # (via, callable)
            if what == "rot":
                from spsdk.utils.crypto.rot import Rot

                rt = db.get_str(DatabaseManager.CERT_BLOCK, "rot_type")
                cons = ROT_CONS.get(rt)
                enc = "cert_pem" if cons == "hab" else "pub_pem"
                runs.append(("Rot", lambda: Rot(fam, rev, keys_or_certs=[src.get(nm, enc) for nm in names]).calculate_hash()))
                runs.append(("cli", lambda: _cli_rot_hash(fam, rev, [src.path(nm, enc) for nm in names], wctx["tmp"])))
                exp = expected(cons, nums, [0] * 4) if cons else None
            elif what == "cmpa":
                from spsdk.pfr.pfr import CMPA

                rt = db.get_str(DatabaseManager.CERT_BLOCK, "rot_type")
                cons = ROT_CONS.get(rt)

                def f():
                    c = CMPA(family=fam, revision=rev)
                    reg = c.registers.find_reg("ROTKH")
                    d = c.export(keys=[src.get(nm, "obj_pub") for nm in names], draw=False)
                    return d[reg.offset:reg.offset + reg.width // 8]
                runs.append(("CMPA", f))
                exp = expected(cons, nums, [0] * 4) if cons in ("v1", "v21") else None
            else:  # dat
                ele = db.get_bool(DatabaseManager.DAT, "based_on_ele", False)
                cnt = db.get_int(DatabaseManager.DAT, "ele_cnt_version", 1) if ele else 0
                if cnt == 2:
                    t.count("dat_ele_v2_not_covered")
                    continue
                cons = "ahab" if ele else ("v1" if alg.startswith("rsa") else "v21")
                runs.append(("dat", lambda: p_dat(fam, None if rev == "latest" else rev)(
                    [src.path(nm, "pub_pem") for nm in names], 1, wctx)["hash"]))
                # the debug authentication protocol has no version for RSA-3072
                exp = expected(cons, nums, [0] * 4) if alg != "rsa3072" else None
            for via, fn in runs:
                dims = {"path": f"{what}(family)", "alg": alg, "family": fam, "via": via, "rev": revkind}
                focus = {"path": what, "label": alg}
                r = call(fn)
                t.count("evaluations_total")
                t.count(f"path:{what}(family)")
                if r[0] == "SPSDKError":
                    t.count("rejected")
                    continue
                if r[0] != "ok":
                    if exp is not None:
                        t.fail("C03.undocumented-exception", "exc", r[1], dims,
                               f"{what} {fam}/{rev} {alg} via {via} raised {r[1]}: {r[2]}", focus)
                    else:
                        t.count("refused_with_non_spsdk_error")
                    continue
                if exp is None:
                    t.count("accepted_without_reference")
                    continue
                want = exp["hash"].ljust(len(r[1]), b"\x00") if what == "cmpa" else exp["hash"]
                t.judged("family:" + what, dims)
                if bytes(r[1]) != want:
                    t.fail("C03.family-dispatch", "family:" + what, "wrong-hash", dims,
                           f"{what} {fam}/{rev} {alg} via {via} (database construction of this revision: {cons}) -> "
                           f"{_hx(r[1])}, construction {_hx(want)}", focus)
    finally:
        shutil.rmtree(wctx["tmp"], ignore_errors=True)
    return t.result()


# realistic digests only: up to 5 zero bytes at an end.  (>= 16 leading zero bytes of a 48-byte value are stored as a
# 256-bit value: the alternative-width register group infers the width from the magnitude - a recorded C11 finding,
# probability 2^-128 for a real SHA-384.)
FIELD_PATTERNS = ["seeded", "lead0", "lead0x4", "trail0", "trail0x5", "ones", "mid0x8"]


def field_pattern(name: str, n: int, seed: int) -> bytes:
    b = bytearray(core.seeded_bytes(seed, f"rotkh|{n}", n))
    b[0] |= 1
    b[-1] |= 1
    if name == "lead0":
        b[0] = 0
    elif name == "lead0x4":
        b[:4] = bytes(4)
    elif name == "trail0":
        b[-1] = 0
    elif name == "trail0x5":
        b[-5:] = bytes(5)
    elif name == "ones":
        b = bytearray(b"\xff" * n)
    elif name == "mid0x8":
        b[n // 2 - 4:n // 2 + 4] = bytes(8)
    return bytes(b)


def w_field(task: dict) -> dict:
    logging.disable(logging.CRITICAL)
    from spsdk.pfr.pfr import CMPA

    t = Tally(task)
    fam = task["family"]
    for ln in (32, 48):
        for pat in FIELD_PATTERNS:
            h = field_pattern(pat, ln, task["seed"])

            def f():
                c = CMPA(family=fam)
                reg = c.registers.find_reg("ROTKH")
                w = reg.width // 8
                return c.export(rotkh=h, draw=False)[reg.offset:reg.offset + w], w
            r = call(f)
            t.count("evaluations_total")
            t.count("path:CMPA(rotkh=)")
            dims = {"path": "CMPA(rotkh=)", "family": fam, "len": ln, "pattern": pat}
            if r[0] == "SPSDKError":
                t.count("rejected")
                continue
            if r[0] != "ok":
                t.count("refused_with_non_spsdk_error")
                continue
            got, w = r[1]
            if ln > w:
                t.count("accepted_without_reference")
                continue
            t.judged("field", dims)
            if got != h.ljust(w, b"\x00"):
                t.fail("C03.cmpa-field", "field", "wrong-field", dims,
                       f"CMPA({fam}).export(rotkh={h.hex()}) stores {got.hex()}", {"path": "field", "label": pat})
    return t.result()


# ---------------------------------------------------------------------------------------------
# task kind "hist": operation histories on ONE object of the classes with an incremental API


HIST_KEYS = ["rsa2048_0", "rsa2048_1"]  # key A (its non-CA certificate is the block's certificate), key B


def hist_ops(cls: str, tier: str) -> list:
    """Alphabet: set slot i (0..3) to key k (A as Certificate / B as 32-byte hash for CertBlockV1; hashes for RKHTv1),
    read (every accessor), and - CertBlockV1 started without a certificate, thorough - add the certificate."""
    ops = [["set", i, k] for i in range(4) for k in (0, 1)] + [["read"]]
    if cls == "CertBlockV1/empty":
        ops.append(["addcert"])
    return ops


def _hist_run(t: Tally, cls: str, ops: list, src: Src, hk: list) -> None:
    """Execute one history on a fresh object; after every `read` and at the end the values read must be the ones of
    the table AS IT IS NOW: reference = list of slots (zero hash in gaps) -> 4 x 32 B table -> SHA-256."""
    from spsdk.crypto.certificate import Certificate
    from spsdk.utils.crypto.cert_blocks import CertBlockV1
    from spsdk.utils.crypto.rkht import RKHTv1

    from vf.ref import certblock_v1 as CB1

    block = cls.startswith("CertBlockV1")
    if block:
        obj = CertBlockV1(build_number=1)
        has_cert = cls == "CertBlockV1"
        if has_cert:
            obj.add_certificate(src.get(HIST_KEYS[0], "obj_cert"))
    else:
        obj = RKHTv1([])
        has_cert = False
    slots: list = []
    reads_before_last_set = False
    seen_read = False

    def check(step: int) -> None:
        table = b"".join(slots).ljust(128, b"\x00")
        want = hashlib.sha256(table).digest()
        dims = {"path": cls, "len": len(ops), "after_read": "set-after-read" if reads_before_last_set else "no-earlier-read"}
        focus = {"ops": ops}
        what = f"{cls} history {ops} (checked after step {step})"
        kind_sfx = "stale-after-read" if reads_before_last_set else "wrong"

        def bad(obs: str, detail: str) -> None:
            t.fail("C03.history", "hist:" + cls.split("/")[0], f"{obs}:{kind_sfx}", dims, f"{what}: {detail}", focus)

        t.judged("hist:" + cls.split("/")[0], dims)
        if block:
            r = call(lambda: obj.rkth)
        else:
            r = call(obj.rkth)
        if r[0] != "ok":
            bad("rkth-raises", str(r[1:]))
            return
        view = want  # the other views of the hash are compared with the definition, or - when rkth itself is already
        if r[1] != want:  # reported - with the rkth just read, so that one stale value gives one finding
            bad("rkth", f"rkth {_hx(r[1])}, table as it is now gives {_hx(want)}")
            view = r[1]
        r = call(lambda: obj.export() if not block else b"".join(obj.rkh).ljust(128, b"\x00"))
        if not block:
            if r[0] == "ok" and r[1] != table:
                bad("table", f"export() {_hx(r[1])}, slots {_hx(table)}")
            if r[0] == "ok":
                r2 = call(lambda: RKHTv1.parse(r[1]).rkth())
                if r2[0] != "ok" or r2[1] != want:
                    bad("parsed-rkth", f"parse(export()).rkth() {r2[1:] if r2[0] != 'ok' else _hx(r2[1])}")
            return
        if r[0] == "ok" and r[1] != table:
            bad("rkh", f".rkh {_hx(r[1])}, slots {_hx(table)}")
        r = call(lambda: obj.rkth_fuses)
        if r[0] != "ok" or list(r[1]) != R.rkth_fuses(view):
            bad("rkth_fuses", f"rkth_fuses {r[1] if r[0] != 'ok' else [hex(x) for x in r[1]]} for {_hx(view)}")
        r = call(lambda: str(obj))
        if r[0] != "ok" or f"RKTH (SHA256): {view.hex().upper()}" not in r[1]:
            bad("str", f"str(block) does not show RKTH {view.hex().upper()}")
        cert_hash = hk[0]
        want_index = slots.index(cert_hash) if (has_cert and cert_hash in slots) else None
        r = call(lambda: obj.rkh_index)
        if r[0] != "ok" or r[1] != want_index:
            bad("rkh_index", f"rkh_index {r[1:]} for slots with the certificate's key at {want_index}")
        r = call(obj.export)
        t.count("history_exports")
        if r[0] == "SPSDKError":
            t.count("history_exports_refused")
            return
        if r[0] != "ok":
            bad("export-raises", str(r[1:]))
            return
        data = r[1]
        try:
            b = CB1.read(data, 0, alignment=16)
            if b["rkth"] != want or b"".join(b["rkh"]) != table:
                bad("export", f"RKTH a ROM computes from export() {_hx(b['rkth'])}, table as it is now gives {_hx(want)}")
        except CB1.CertBlockError as e:
            if want_index is not None:
                bad("export", f"ROM-side reader refuses export(): {e}")
        r2 = call(lambda: CertBlockV1.parse(data).rkth)
        if r2[0] != "ok" or r2[1] != want:
            bad("parsed-rkth", f"parse(export()).rkth {r2[1:] if r2[0] != 'ok' else _hx(r2[1])}, expected {_hx(want)}")

    for step, op in enumerate(ops):
        if op[0] == "set":
            _, i, k = op
            while len(slots) <= i:
                slots.append(bytes(32))
            slots[i] = hk[k]
            if seen_read:
                reads_before_last_set = True
            if block:
                arg = src.get(HIST_KEYS[0], "obj_cert") if k == 0 else hk[1]
                r = call(lambda: obj.set_root_key_hash(i, arg))
            else:
                r = call(lambda: obj.set_rkh(i, hk[k]))
            if r[0] != "ok":
                t.fail("C03.history", "hist:" + cls.split("/")[0], "set-raises", {"path": cls, "len": len(ops)},
                       f"{cls} history {ops}: step {step} raised {r[1:]}", {"ops": ops})
                return
        elif op[0] == "addcert":
            r = call(lambda: obj.add_certificate(src.get(HIST_KEYS[0], "obj_cert")))
            if r[0] == "ok":
                has_cert = True
            else:
                t.count("history_addcert_refused")  # a second certificate must be signed by the first
        else:
            seen_read = True
            check(step)
        t.count("history_steps")
    check(len(ops))


def w_hist(task: dict) -> dict:
    logging.disable(logging.CRITICAL)
    t = Tally(task)
    src = Src()
    cls = task["cls"]
    hk = [R.rkh_v1(src.num(nm)) for nm in HIST_KEYS]
    alphabet = hist_ops(cls, task["tier"])
    if task.get("focus"):
        _hist_run(t, cls, task["focus"]["ops"], src, hk)
        return t.result()
    first = alphabet[task["first"]]
    for extra in range(task["depth"]):
        for rest in itertools.product(alphabet, repeat=extra):
            ops = [first] + [list(o) for o in rest]
            if ops[-1] == ["read"] and len(ops) > 1:
                continue  # the final check reads anyway: a history ending in `read` equals its prefix
            _hist_run(t, cls, ops, src, hk)
            t.count("histories")
            t.count("evaluations_total")
            t.count(f"path:history[{cls}]")
    return t.result()


# ---------------------------------------------------------------------------------------------
# task kind "pathreuse": the same key FILE NAMES carrying different keys over time (a provisioning script that regenerates
# keys into one project directory and recomputes the fuse value in the same process).  The value must follow the file
# content: equal to what the same keys give when handed over as bytes / through the fixture's own, never rewritten files.


def w_pathreuse(task: dict) -> dict:
    t = Tally(task)
    src = Src()
    wctx = _worker_setup()
    alg, n = task["alg"], task["n"]
    pool = POOLS[alg]
    try:
        gens = [[pool[(g + i) % len(pool)] for i in range(n)] for g in range(task["gens"])]
        for spec in _specs(task["tier"]) + dat_spec(alg, n):
            if not spec.get("path_encs") or spec.get("nodep"):
                continue
            enc = spec["base"] if spec["base"] in spec["path_encs"] else spec["path_encs"][0]
            idx = 0 if spec.get("idx") else None
            slots = [os.path.join(wctx["tmp"], f"slot{i}.{EXT[enc]}") for i in range(n)]
            dims = {"path": spec["id"], "alg": alg, "n": n}
            for g, names in enumerate(gens):
                for sl, nm in zip(slots, names):
                    with open(sl, "wb") as f:
                        f.write(src.m["blobs"][(nm, enc)])
                    os.utime(sl, (1_700_000_000 + g, 1_700_000_000 + g))   # a new generation has a newer mtime, nothing else is promised
                wctx["dck"] = src.path(names[0], "pub_pem")
                wctx["rotk"] = [src.path(nm, "priv_pem") for nm in names]
                st1, v1 = call(lambda: spec["fn"](list(slots), idx, wctx))[:2]
                if spec["transport"] == "bytes":
                    other = [src.get(nm, enc, "bytes") for nm in names]
                else:
                    other = [src.path(nm, enc) for nm in names]
                st2, v2 = call(lambda: spec["fn"](other, idx, wctx))[:2]
                t.count("evaluations", 2)
                if st1 != "ok" or st2 != "ok":
                    if st1 != st2 and g > 0:
                        t.fail("C03.path-reuse", spec["cons"], "refused-after-rewrite", dims,
                               f"{spec['id']} {alg} generation {g} {names}: rewritten files -> {st1}: {v1}; same keys otherwise -> {st2}", {"path": spec["id"]})
                    t.count("pathreuse_refused")
                    if g == 0:
                        break   # this path does not take this key list at all
                    continue
                t.judged(spec["cons"], dict(dims, generation=g))
                if _hx(v1["hash"]) != _hx(v2["hash"]):
                    t.fail("C03.path-reuse", spec["cons"], "stale-value-after-files-rewritten" if g > 0 else "first-use-differs", dims,
                           f"{spec['id']} {alg}: generation {g} keys {names} written to the file names used before give {_hx(v1['hash'])[:32]}.., "
                           f"the same keys supplied {'as bytes' if spec['transport'] == 'bytes' else 'through other files'} give {_hx(v2['hash'])[:32]}..",
                           {"path": spec["id"]})
    finally:
        shutil.rmtree(wctx["tmp"], ignore_errors=True)
    return t.result()


def worker(task: dict) -> dict:
    k = task["k"]
    if k == "hist":
        return w_hist(task)
    if k == "seq":
        return w_seq(task)
    if k == "isk":
        return w_isk(task)
    if k == "family":
        return w_family(task)
    if k == "field":
        return w_field(task)
    if k == "pathreuse":
        return w_pathreuse(task)
    raise core.HarnessError(f"unknown task kind {k}")


# ---------------------------------------------------------------------------------------------
# enumeration


def sequences() -> list:
    out = []
    for n in (1, 2, 3, 4):
        out += [list(p) for p in itertools.permutations(range(4), n)]
    return out


def build_tasks(tier: str, seed: int) -> list:
    from spsdk.dat.debug_credential import DebugCredentialCertificate as DC
    from spsdk.pfr.pfr import CMPA
    from spsdk.utils.database import DatabaseManager, get_db
    from spsdk.utils.crypto.rot import Rot

    tasks = []
    for alg in ALGS:
        for seq in sequences():
            tasks.append({"k": "seq", "alg": alg, "seq": seq, "tier": tier, "seed": seed})
    q = tier == "quick"
    for alg in ALGS:
        for n in ((1, 4) if q else (1, 2, 3, 4)):
            tasks.append({"k": "pathreuse", "alg": alg, "n": n, "gens": 3, "tier": tier})
    # operation histories: every sequence of <= depth operations, one task per first operation
    for cls, depth in (("RKHTv1", 4 if q else 5), ("CertBlockV1", 4 if q else 5), ("CertBlockV1/empty", 0 if q else 4)):
        if depth:
            for first in range(len(hist_ops(cls, tier))):
                tasks.append({"k": "hist", "cls": cls, "first": first, "depth": depth, "tier": tier})
    for alg in ("p256", "p384"):
        other = "p384" if alg == "p256" else "p256"
        for seq in sequences():
            base = seq == [0, 1, 2, 3]
            tasks.append({"k": "isk", "alg": alg, "seq": seq, "tier": tier, "seed": seed,
                          "isk_algs": [alg, other] if (not q or len(seq) <= 2) else [alg],
                          "ud_lens": list(range(0, ISK_LIMIT + 1, 4)) if (base or (not q and len(seq) == 1)) else [0, 4, 8, ISK_LIMIT],
                          "hows": ["ctor", "config"] + (["config-cert"] if not q else [])})
    # every family: dispatch at the base configuration of the latest revision, AND (both tiers) of every revision whose
    # database values for the features the RoT code reads differ from the latest revision's; thorough: every revision
    dbm = DatabaseManager()

    def differing(fam: str, feats: tuple) -> list:
        def snap(rev: str) -> str:
            d = get_db(fam, rev).features
            return core.jdump({f: d.get(f) for f in feats})
        latest = snap("latest")
        return [r for r in sorted(dbm.db.devices.get(fam).revisions.revision_names()) if snap(r) != latest]

    def fam_tasks(what: str, fam: str, feats: tuple) -> None:
        diff = differing(fam, feats)
        tasks.append({"k": "family", "what": what, "family": fam, "revision": "latest"})
        named = sorted(dbm.db.devices.get(fam).revisions.revision_names()) if not q else diff
        for rev in named:
            tasks.append({"k": "family", "what": what, "family": fam, "revision": rev, "differs": rev in diff})

    for fam in Rot.get_supported_families():
        fam_tasks("rot", fam, (DatabaseManager.CERT_BLOCK,))
    for fam in CMPA.get_supported_families():
        try:
            CMPA(family=fam).registers.find_reg("ROTKH")
        except Exception:  # noqa - no ROTKH register in this family's CMPA
            continue
        fam_tasks("cmpa", fam, (DatabaseManager.CERT_BLOCK, DatabaseManager.PFR))
        tasks.append({"k": "field", "family": fam, "seed": seed})
    for fam in DC.get_supported_families():
        try:
            get_db(fam).get_str(DatabaseManager.CERT_BLOCK, "rot_type")
        except Exception:  # noqa - no RoT in the database for this family (mcxa: no keys)
            continue
        fam_tasks("dat", fam, (DatabaseManager.CERT_BLOCK, DatabaseManager.DAT))
    return tasks


def _bound(task: dict) -> int:
    """Tasks are executed by increasing key-list length so that a budget cut leaves complete smaller bounds."""
    return len(task["seq"]) if task["k"] in ("seq", "isk") else 0


def _disc(f: dict, tried: dict) -> str:
    """construction|kind|dims - a dimension is named when the failing values are fewer than the values judged on the
    failing paths (paths themselves are named when not all judged paths of the construction fail)."""
    if f["clause"] == "C03.undocumented-exception":
        return f["kind"]
    parts = []
    tr = tried.get(f["cons"], {})
    fpaths = sorted(f["dims"].get("path", []))
    if set(fpaths) != set(tr):
        parts.append("path=" + "/".join(fpaths))
    for d in sorted(f["dims"]):
        if d == "path":
            continue
        seen: set = set()
        for pth in fpaths:
            seen |= set(tr.get(pth, {}).get(d, ()))
        vals = set(f["dims"][d])
        if seen and vals != seen:
            sv = sorted(vals)
            parts.append(f"{d}=" + ("/".join(sv) if len(sv) <= 4 else f"{len(sv)}of{len(seen)}"))
    return f"{f['cons']}|{f['kind']}" + ("|" + ",".join(parts) if parts else "")


def run(ctx: core.Ctx) -> None:
    install_fast_rsa_load()
    try:
        ngold = R.selftest(core.REPO)
    except AssertionError as e:
        raise core.HarnessError(f"rot_ref disagrees with a golden value of the repository's tests: {e!r}")
    from vf.ref import ecdsa

    ecdsa.selftest(fast=True)
    materialize(ctx.workdir)
    logging.disable(logging.CRITICAL)
    from spsdk.utils.database import DatabaseManager, get_db

    db = get_db(ISK_FAMILY)
    if (db.get_int(DatabaseManager.CERT_BLOCK, "isk_data_limit"), db.get_int(DatabaseManager.CERT_BLOCK, "isk_data_alignment")) != (ISK_LIMIT, 4):
        raise core.HarnessError("ISK user-data limit/alignment in the database changed: adjust ISK_LIMIT")
    tasks = build_tasks(ctx.tier, ctx.seed)
    tasks.sort(key=lambda c: (_bound(c), c["k"], core.jdump(c)))
    # the determinism double-run (first three cases, two separate processes) shall see one task of every heavy kind
    head = [next(x for x in tasks if x["k"] == "seq" and x["alg"] == "p256" and x["seq"] == [2]),
            next(x for x in tasks if x["k"] == "isk" and x["alg"] == "p384" and x["seq"] == [3]),
            next(x for x in tasks if x["k"] == "seq" and x["alg"] == "rsa2048" and x["seq"] == [1])]
    tasks = head + [x for x in tasks if x not in head]
    ctx.rule = (
        "tasks: (a) every algorithm class {RSA-2048/3072/4096, P-256/384/521} x every ordered selection of 1..4 keys from "
        "its 4-key pool (64 per class; EC pools hold the keys whose X resp. Y has a leading zero byte); inside a task the full "
        "product  tool path x used-root index (debug credential, certificate blocks) x encoding assignment {base; every "
        "single departure position x encoding; all keys in one encoding; all keys as file paths per file encoding; bytearray} "
        "over 13 encodings, plus every pair swap for the order clause.  A path that refuses the key list in its base encoding "
        "(key type or key count not supported by the RoT type) is evaluated once (counter skipped_after_base_refusal). "
        "quick: CLI, CMPA and Rot[cert_block_1/21] take base + all-same + all-as-path groups only, the debug credential takes "
        "single departures at used root 0 only; thorough: no reduction, RKHTv1/v21.from_keys additionally every PAIR of "
        "departures, a second representative family per rot_type (base + all-same), certificate chains of depth 2 and 3, "
        "every database revision. (b) every EC key list x used root x ISK key x user-data length {0,4,8,96; every multiple "
        "of 4 up to 96 for the full 4-key list} x {constructor, from_config}; (c) every database family through "
        "Rot/CMPA/debug credential at the base configuration; (d) CMPA ROTKH field on 7 byte patterns x 2 lengths per "
        "family; the family tasks use Rot(family, revision) AND the CLI with -r, for the latest revision and (both tiers) for "
        "every revision whose database values (cert_block / dat / pfr features) differ from the latest one. (e) object "
        "histories: CertBlockV1 (certificate of key A added) and RKHTv1, every sequence of <= 4 (thorough 5) operations "
        "over {set slot 0..3 to key A|B (8), read all accessors}; thorough also CertBlockV1 started empty with add_certificate "
        "in the alphabet. distinct_nontrivial = evaluations accepted by the tool AND compared with the independent construction "
        "(rejected / undefined ones are counted separately)")
    fails: list = []
    tried: dict = {}
    per_kind: dict = {}
    done_bound: dict = {}
    total_bound: dict = {}
    for tsk in tasks:
        total_bound[_bound(tsk)] = total_bound.get(_bound(tsk), 0) + 1
    for case, res in ctx.pool_map(worker, tasks, timeout=600, chunksize=1, check_det=0 if _PROFILE else 3):
        if ctx.time_left() < 12:
            ctx.exhaustive = False
            break
        done_bound[_bound(case)] = done_bound.get(_bound(case), 0) + 1
        fl = res.pop("fails", []) if isinstance(res, dict) else []
        tr = res.pop("tried", {}) if isinstance(res, dict) else {}
        if not ctx.absorb(case, res):
            continue
        per_kind[case["k"]] = per_kind.get(case["k"], 0) + 1
        for f in fl:
            fails.append((case, f))
        for c, pp in tr.items():
            for pth, dd in pp.items():
                for d, vals in dd.items():
                    tried.setdefault(c, {}).setdefault(pth, {}).setdefault(d, set()).update(vals)
    # merge the failing sets per (clause, construction, kind) over the whole run -> one discriminator per defect
    merged: dict = {}
    for case, f in fails:
        key = (f["clause"], f["cons"], f["kind"])
        m = merged.setdefault(key, {"clause": f["clause"], "cons": f["cons"], "kind": f["kind"], "dims": {}})
        for d, vals in f["dims"].items():
            m["dims"].setdefault(d, set()).update(vals)
    def_fail = {(f["cons"], a) for _, f in fails if f["clause"] == "C03.definition" for a in f["dims"].get("alg", [])}
    for case, f in fails:
        if f["clause"] == "C03.family-dispatch" and any((c_, a) in def_fail for c_ in ("v1", "v21", "ahab", "ahab2", "hab")
                                                        for a in f["dims"].get("alg", [])) and case.get("what") != "dat":
            # the representative family already fails C03.definition for this algorithm: same defect
            ctx.count("family_dispatch_failures_folded_into_definition")
            continue
        disc = _disc(merged[(f["clause"], f["cons"], f["kind"])], tried)
        small = {k: v for k, v in case.items() if k != "focus"}
        small["focus"] = f["focus"]
        ctx.viol(f["clause"], disc, small, f["detail"] + f"  [{f['n']} failing evaluations in this task]")
    c = ctx.counters
    for tsk in (next(x for x in tasks if x["k"] == "seq" and x["alg"] == "p256" and len(x["seq"]) == 3),
                next(x for x in tasks if x["k"] == "isk"), next(x for x in tasks if x["k"] == "family"),
                next(x for x in tasks if x["k"] == "field"), next(x for x in tasks if x["k"] == "hist")):
        ctx.sample(tsk)
    complete = [b for b in sorted(total_bound) if done_bound.get(b, 0) == total_bound[b]]
    ctx.cov["bounds_completed"] = {"key_list_lengths_completed": [b for b in complete if b > 0],
                                   "family_and_field_tasks_completed": 0 in complete,
                                   "tasks_done_per_length": {str(b): f"{done_bound.get(b, 0)}/{total_bound[b]}" for b in sorted(total_bound)}}
    ctx.cov["tasks"] = len(tasks)
    ctx.cov["tasks_per_kind"] = dict(sorted(per_kind.items()))
    ctx.cov["evaluations"] = c.get("evaluations_total", 0) + c.get("order_evaluations", 0)
    ctx.cov["distinct_nontrivial"] = c.get("judged", 0)
    ctx.cov["rejected"] = c.get("rejected", 0)
    flat: dict = {}
    for cns, pp in tried.items():
        for pth, dd in pp.items():
            flat.setdefault(cns, {}).setdefault("path", set()).add(pth)
            for d, v in dd.items():
                flat[cns].setdefault(d, set()).update(v)
    ctx.cov["dimensions"] = {k: {d: sorted(v) for d, v in dd.items()} for k, dd in sorted(flat.items())}
    if _PROFILE:
        ctx.cov["cpu_seconds_per_path"] = {k[3:]: round(v / 1e6, 1) for k, v in sorted(c.items()) if k.startswith("us:")}
    ctx.cov["per_path"] = {k[5:]: v for k, v in sorted(c.items()) if k.startswith("path:")}
    ctx.cov["rejected_per_path_encoding"] = {k[9:]: v for k, v in sorted(c.items()) if k.startswith("rejected:")}
    ctx.cov["refused_with_other_exception"] = {k[18:]: v for k, v in sorted(c.items()) if k.startswith("refused_non_spsdk:")}
    ctx.cov["golden_values_calibrated"] = ngold
    ctx.cov["bounds"] = {"keys_per_list": "1..4 of 4", "sequences_per_class": 64, "encodings": len(E_FILE + E_OBJ),
                         "isk_user_data": "0,4,8,96 (all multiples of 4 on the 4-key base list)", "tier": ctx.tier}
    for k in list(ctx.counters):
        if k.startswith(("path:", "rejected:", "refused_non_spsdk:", "accepted_without_reference:", "us:")):
            del ctx.counters[k]
    ctx.counters["tasks"] = ctx.counters.get("evaluations", 0)
    ctx.counters["evaluations"] = ctx.cov["evaluations"]
    ctx.distinct = range(ctx.cov["distinct_nontrivial"])  # type: ignore  (only its len() is printed by the runner)
    ctx.assumptions += [
        "constructions are those of vf/ref/rot_ref.py (calibrated at start on %d golden values of /repo/tests): v1 = SHA-256 of "
        "the zero-padded 4x32 B table of SHA-256(n||e) (EC: SHA-256(X||Y)); v2.1 = SHA-256/384 of X||Y or of the hash table; "
        "AHAB/HAB SRK tables per their documented record formats" % ngold,
        "a CA certificate as input sets the CA flag (0x80) in AHAB/HAB SRK records (documented: 'Certificate may be of "
        "Certificate Authority', HAB keyCertSign) - the reference takes the flag from the encoding, so a CA certificate and a "
        "bare key legitimately give different SRK hashes; for cert block v1/v2.1 the flag must not matter",
        "SPSDKError from a tool = rejected (counted per path and encoding, coverage.rejected_per_path_encoding); any other "
        "exception is a violation only if the construction is defined for the key list and the encoding is one the path's "
        "signature documents",
        "RSA private keys are loaded with OpenSSL's key consistency check skipped (library seam installed before spsdk.crypto.keys "
        "is imported); one control evaluation per RSA key and private encoding runs with the real loader",
        "debug credentials are built from a YAML-style configuration and only asked for calculate_hash() / rot_meta (never signed); "
        "EdgeLock container v2 credentials (mimx943/mimx9596) are not covered",
        "CertBlockV21 and RKHTv21 have no incremental mutators (the block is computed once from the constructor arguments by "
        "calculate()), so object histories exist for CertBlockV1 and RKHTv1 only",
        "Rot classes, CLI, CMPA and debug-credential products run on one representative family per rot_type / register layout; "
        "every family (thorough: every revision) is executed once at the base configuration (task kind 'family')",
    ]


def replay(ctx: core.Ctx, rec: dict) -> bool:
    install_fast_rsa_load()
    tmp = tempfile.mkdtemp(prefix="c03-replay-")
    try:
        materialize(tmp)
        case = rec["case"]
        res = core.run_with_watchdog(worker, case, 600)
        if res.get("__watchdog__"):
            print("watchdog: task does not terminate")
            return rec["clause"].endswith(".terminates")
        hits = []
        for f in res["fails"]:
            if f["clause"] != rec["clause"]:
                continue
            if f["clause"] == "C03.undocumented-exception":
                ok = f["kind"] == rec["disc"]
            else:
                ok = rec["disc"].startswith(f"{f['cons']}|{f['kind']}")
            if ok:
                hits.append(f)
        for f in hits[:5]:
            print(f["clause"], f["cons"], f["kind"], f["detail"])
        if not hits:
            for f in res["fails"][:10]:
                print("other:", f["clause"], f["cons"], f["kind"])
        return bool(hits)
    finally:
        shutil.rmtree(tmp, ignore_errors=True)
