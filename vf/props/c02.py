"""C02 — Master Boot Image: signatures, CRC, HMAC and encryption pass the ROM checks (engine E1 +
artifact mutation).

Enumerated (nothing sampled): the protected part (crc, signed, nxp_signed, encrypted) of the C01
space — structural product over every such (family, target, authentication) triple x payload
length class x content class, every further revision at the base payload, the option lattice
(<= k departures; k = 1 quick, 2 thorough) on the representatives of every equivalence class, and
the *full product* of the certificate dimensions (RSA size x chain depth x root set/used root;
curve x root set/used root x ISK variant) — plus, per exported image, single-bit corruptions of
every region the reference verifier distinguishes.

Oracle = acceptance by `vf.ref.rom_mbi` (bytes only; hashlib / hmac / cryptography):
  C02.rom-accept      the ROM model refuses the exported image (discriminator: stage that refused:
                      crc, hmac, cert-chain, rkh, cert-image-length, signature, cert21-isk-sig,
                      manifest-crc, manifest-digest, layout, length ...)
  C02.rkth            MasterBootImage.rkth / the table in the image is not the hash of the configured
                      root keys (computed from the fixture key numbers)
  C02.hmac-unchecked  an image type that carries the HMAC header was accepted without HMAC check
  C02.decrypt         the encrypted image does not decrypt (derived AES-CTR key, IV from the image) to
                      the application / TrustZone bytes of the same configuration built as 'signed'
  C02.flip-accepted   a single-bit corruption inside an authenticated region is accepted by the model
                      (= a byte the ROM authenticates lies outside what was signed / hashed / MACed, or
                      the model is vacuous there).  Key store bytes are unauthenticated by format.
  C02.manifest-digest-alg   the automatic manifest digest (addManifestDigest) is not of the hash algorithm the ROM uses
                      for the image signature (curve of the ISK if present, else of the root key)
  C02.history-accept  the image exported after one member of a live object was replaced fails the ROM checks
  C02.wrong-key-accepted / -exception   an export attempt with a signing key that does not belong to the certificate
                      block is neither refused with SPSDKError nor verifiable under the key in the image
Calibration: every golden MBI of the repository the model can describe must be accepted first.
"""
from __future__ import annotations

import glob
import os
from typing import Any, Optional

from vf import core
from vf.engine.lattice import DimTable
from vf.props import mbi_common as M
from vf.props.c01 import quiet, workdir

LEVEL = "exploration"

TYPE_CODE = {"PLAIN_IMAGE": 0, "SIGNED_RAM_IMAGE": 1, "CRC_RAM_IMAGE": 2, "ENCRYPTED_RAM_IMAGE": 3,
             "SIGNED_XIP_IMAGE": 4, "CRC_XIP_IMAGE": 5, "SIGNED_XIP_NXP_IMAGE": 8}

# ---------------------------------------------------------------------------------------------
# calibration on the repository's golden images

GOLD_DIRS = {"k32w1xx": "k32w148", "kw45xx": "kw45b41z8", "lpc55s1x": "lpc55s16", "lpc55s3x": "lpc55s36",
             "lpc55s6x": "lpc55s69", "mcxn9xx": "mcxn947", "rt5xx": "mimxrt595s", "rt7xx": "mimxrt798s",
             "mc56f817xx": "mc56f81768", "mc56f818xx": "mc56f81868"}
GOLD_PREFIX = [("evkmimxrt595", "mimxrt595s"), ("evkmimxrt685", "mimxrt685s"), ("k32w148", "k32w148"),
               ("kw45b41z", "kw45b41z8"), ("lpc55s0x", "lpc55s06"), ("lpc55s1x", "lpc55s16"),
               ("lpc55s3x", "lpc55s36"), ("lpc55_", "lpc55s69"), ("mcxn9xx", "mcxn947"), ("rw61x", "rw612")]
# goldens that no test of the repository uses as an MBI reference and that are not what their
# directory says (left-overs of older tool versions / other devices / deliberately incomplete)
GOLD_EXCLUDE = {
    "mb_xip_384_256_false.bin": "800-byte TrustZone block of another device revision; unused",
    "mb_xip_384_256_true.bin": "800-byte TrustZone block of another device revision; unused",
    "mb_xip_384_384 - Copy.bin": "copy of a KW45 image in the LPC55S3x directory; unused",
    "normal_boot_signNoIsk.bin": "TrustZone block of another device; only a payload of SB3 tests",
    "normal_boot_sign.bin": "only a payload of SB3 tests, ISK signature not valid",
    "mb_xip_256_none_1_key.bin": "TrustZone block of another device revision; unused",
    "mb_xip_256_none_2_keys.bin": "TrustZone block of another device revision; unused",
    "mb_xip_384_384_no_signature.bin": "deliberately without signature",
    "mb_xip_384_256_sd.bin": "digest of an older tool version; unused",
    "k32w1xx/mb_xip_384_384_sd.bin": "digest of an older tool version; unused (the KW45 twin is used and accepted)",
}


def _gold_family(path: str) -> Optional[str]:
    base = os.path.basename(path)
    d = os.path.basename(os.path.dirname(path))
    if d == "data":
        for pre, fam in GOLD_PREFIX:
            if base.startswith(pre):
                return fam
        return None
    return GOLD_DIRS.get(d)


def calibrate(ctx) -> None:
    from vf.ref import rom_mbi

    tests = os.path.join(core.REPO, "tests")
    files = sorted(glob.glob(os.path.join(tests, "image/mbi/data/*_mbi.bin"))
                   + glob.glob(os.path.join(tests, "nxpimage/data/workspace/output_images/*/m*.bin"))
                   + glob.glob(os.path.join(tests, "nxpimage/data/workspace/output_images/*/normal_boot_sign*.bin")))
    uk6 = bytes.fromhex("E39FD7AB61AE6DDDA37158A0FC3008C6D61100A03C7516EA1BE55A39F546BAD5")
    uk5_path = os.path.join(tests, "nxpimage/data/workspace/keys/userkey.txt")
    uk5 = bytes.fromhex(open(uk5_path).read().strip()) if os.path.exists(uk5_path) else None
    fams = set(M.families())
    n_ok = 0
    skipped = {}
    for f in files:
        base = os.path.basename(f)
        rel = os.path.basename(os.path.dirname(f)) + "/" + base
        reason = GOLD_EXCLUDE.get(rel, GOLD_EXCLUDE.get(base))
        if reason:
            skipped[rel] = reason
            continue
        fam = _gold_family(f)
        if fam is None or fam not in fams:
            skipped[rel] = "no family mapping"
            continue
        data = open(f, "rb").read()
        trs = M.triples(fam)
        if M.dev_facts(trs[0])["kind"] != "ivt":
            if "signed" in base or "crc" in base:
                try:
                    rom_mbi.read_bca_dsc(data, "signed" if "signed" in base else "crc")
                    n_ok += 1
                except rom_mbi.Reject as e:
                    raise core.HarnessError(f"ROM model rejects the golden image {rel}: {e}")
            continue
        typ = rom_mbi.header(data)["type"]
        t = next((x for x in trs if TYPE_CODE[x["image_type"]] == typ), None)
        if t is None:
            skipped[rel] = f"family offers no image type {typ}"
            continue
        facts = M.dev_facts(t)
        keys: dict[str, Any] = {}
        if facts["hmac_hdr"]:
            uk = uk6 if fam == "mimxrt685s" else uk5
            if uk:
                keys = {"user_key": uk, "key_source": "otp" if "otp" in base else "keystore"}
        try:
            rom_mbi.read(data, facts, keys)
            n_ok += 1
        except rom_mbi.Reject as e:
            raise core.HarnessError(f"ROM model rejects the golden image {rel} ({fam}): {e}")
    if n_ok < 60 and os.path.isdir(os.path.join(tests, "image/mbi/data")):
        raise core.HarnessError(f"only {n_ok} golden images found for calibration")
    ctx.cov["goldens_accepted_by_model"] = n_ok
    ctx.cov["goldens_not_used"] = skipped


# ---------------------------------------------------------------------------------------------
# oracle


def flip_positions(regions: list, size: int, mode: str) -> list:
    """[(region, offset, bit)] — mode 'fml': first / middle / last byte of every region, bits 0 and 7;
    'bytes': every byte, one bit (offset mod 8); 'bits': every bit of every byte."""
    out = []
    for name, a, b, _auth in regions:
        if mode == "fml":
            for off in sorted({a, (a + b - 1) // 2, b - 1}):
                out += [(name, off, 0), (name, off, 7)]
        elif mode == "bytes":
            out += [(name, off, off % 8) for off in range(a, b)]
        else:
            out += [(name, off, bit) for off in range(a, b) for bit in range(8)]
    return out


def judge(case: dict, ob: dict, flips: Optional[str]) -> tuple[list, dict]:
    from vf.ref.rom_mbi import Reject

    V: list = []
    cnt: dict = {}
    exp = ob["exp"]
    t = exp["triple"]
    facts = exp["facts"]
    tag = M.path_tag(t)
    if ob["status"] != "ok":
        return V, cnt
    if facts["kind"] == "bca-mcxc":
        return V, cnt
    want_rkth = M.fixture_rkth(exp)
    try:
        r = _accept(ob, want_rkth)
    except Reject as e:
        V.append(("C02.rom-accept", f"{tag};{e.stage}", str(e)))
        return V, cnt
    cnt["accepted_by_model"] = 1
    if facts["kind"] == "ivt":
        h = r["hdr"]
        if facts["hmac_hdr"] and h["type"] in (1, 3) and not r.get("hmac_checked"):
            V.append(("C02.hmac-unchecked", tag, "image with HMAC header accepted without HMAC verification"))
        if want_rkth is not None:
            if ob.get("rkth") != want_rkth:
                V.append(("C02.rkth", f"{facts['cert']};api", f"MasterBootImage.rkth = {_hx(ob.get('rkth'))}, hash of the "
                                                              f"configured root keys = {want_rkth.hex()}"))
            if r["cert"]["rkth"] != want_rkth:
                V.append(("C02.rkth", f"{facts['cert']};image", "root key table in the image does not hash to the "
                                                                "hash of the configured root keys"))
        man = r.get("manifest")
        if man and exp.get("digest") == "auto":
            # addManifestDigest: the digest exists for the ROM's signature check, so it has to be the hash
            # of the key that signs the image (ISK if present, else the root key): P-256 -> SHA-256, P-384 -> SHA-384
            if man["digest_alg"] != man["signature_hash_alg"]:
                V.append(("C02.manifest-digest-alg", f"{tag};digest-alg-{man['digest_alg']}/signature-hash-{man['signature_hash_alg']}",
                          "automatic manifest digest is not of the hash algorithm of the image signature"))
        elif man and man["digest_alg"] and man["digest_alg"] != man["signature_hash_alg"]:
            cnt["explicit_digest_algorithm_other_than_signature_hash"] = 1
        if case["auth"] == "encrypted":
            V += _decrypt_clause(case, ob, r, tag)
            cnt["decrypt_compared"] = 1
    if flips:
        regions = r["regions"]
        n_rej = n_acc = 0
        img = ob["image"]
        for name, off, bit in flip_positions(regions, len(img), flips):
            b = bytearray(img)
            b[off] ^= 1 << bit
            auth = next(x[3] for x in regions if x[0] == name)
            try:
                _accept(ob, want_rkth, bytes(b))
                accepted = True
            except Reject:
                accepted = False
            except Exception as e:  # noqa  (a model that crashes on a corrupted image is a harness defect)
                raise core.HarnessError(f"ROM model crashed on a corrupted image ({name} @{off:#x} bit {bit}): "
                                        f"{type(e).__name__}: {e}")
            if accepted and auth:
                V.append(("C02.flip-accepted", f"{tag};{name}", f"bit {bit} of byte {off:#x} ({name}) flipped: accepted"))
                n_acc += 1
            elif accepted:
                cnt["flips_unauthenticated_region_accepted"] = cnt.get("flips_unauthenticated_region_accepted", 0) + 1
            else:
                n_rej += 1
        cnt["flips"] = n_rej + n_acc + cnt.get("flips_unauthenticated_region_accepted", 0)
        cnt["flips_rejected"] = n_rej
        cnt["flip_regions"] = len(regions)
    return core.dedupe(V), cnt


def _hx(b: Any) -> str:
    return b.hex() if isinstance(b, (bytes, bytearray)) else str(b)


def _accept(ob: dict, rkth: Optional[bytes], image: Optional[bytes] = None) -> dict:
    from vf.ref import rom_mbi

    facts = ob["exp"]["facts"]
    auth = ob["exp"]["triple"]["auth"]
    img = ob["image"] if image is None else image
    if facts["kind"] == "bca-dsc":
        return rom_mbi.read_bca_dsc(img, auth, verify=True)
    keys = M.rom_keys(ob)
    if rkth is not None:
        keys["rkth"] = rkth
    return rom_mbi.read(img, facts, keys, policy=auth, verify=True)


def _decrypt_clause(case: dict, ob: dict, r: dict, tag: str) -> list:
    """Plaintext reference: the same configuration built as 'signed' from the configuration (no IV there).
    The model decrypts with the IV found in the image, whatever its source (explicit / chosen by the builder)."""
    V = []
    if "plaintext" not in r:
        return [("C02.decrypt", f"{tag};no-key", "model could not decrypt: no key")]
    # the whole encrypted range is ONE AES-CTR stream (vf.ref.rom_mbi); every part of the plaintext is
    # compared with what was configured: application, relocation images / entries, TrustZone block
    exp = ob["exp"]
    if "app" in r and M.mask_words(r["app"]) != M.mask_words(M.align4(exp["payload"])):
        V.append(("C02.decrypt", f"{tag};app-vs-payload", "decrypted application is not the configured payload"))
    if exp.get("reloc"):
        got = [(e["dst"], e["image"]) for e in r.get("reloc", {}).get("entries", [])]
        if got != [(e["dst"], e["data"]) for e in exp["reloc"]]:
            V.append(("C02.decrypt", f"{tag};reloc-vs-config", "decrypted relocation table is not the configured one"))
    if r["tz"] != (exp.get("tz") or b""):
        V.append(("C02.decrypt", f"{tag};tz-vs-config", "decrypted TrustZone block is not the configured preset"))
    c2 = dict(case, auth="signed", opts={k: v for k, v in case.get("opts", {}).items() if k not in ("iv", "api")})
    c2.pop("classify", None)
    try:
        ob2 = M.execute(c2, workdir() + "-ref", case.get("seed", 0), want=())
        r2 = M.rom_read(ob2, verify=False)
    except Exception as e:  # noqa
        return [("C02.decrypt", f"{tag};reference-build:{type(e).__name__}", str(e)[:300])]
    if ob2["status"] != "ok":
        return []
    if M.mask_words(r["app_region"]) != M.mask_words(r2["app_region"]):
        V.append(("C02.decrypt", f"{tag};app", "decrypted application (+ relocation data) differs from the "
                                               "plaintext image of the same configuration built as signed"))
    if r["tz"] != r2["tz"]:
        V.append(("C02.decrypt", f"{tag};tz", "decrypted TrustZone block differs from the plaintext image"))
    h, h2 = r["hdr"], r2["hdr"]
    for k in ("subtype", "hwkey", "tz_type", "keystore", "reloc", "load_addr", "word28"):
        if h[k] != h2[k]:
            V.append(("C02.decrypt", f"{tag};header-{k}", f"header field {k}: {h[k]} vs {h2[k]} in the signed image"))
    # the words of the encrypted vector table copy that the ROM reads must equal the clear ones
    pt = r["plaintext"]
    img_words = [ob["image"][o:o + 4] for o in M.IVT_WORDS]
    if [pt[o:o + 4] for o in M.IVT_WORDS] != img_words:
        V.append(("C02.decrypt", f"{tag};ivt-words", "the decrypted vector table carries other header words than "
                                                     "the clear vector table at the start of the image"))
    return V


# ---------------------------------------------------------------------------------------------
# worker + enumeration


def judge_history(case: dict, ob: dict) -> list:
    """The image exported after ONE member was replaced on a live object passes the ROM checks."""
    from vf.ref.rom_mbi import Reject

    if ob["status"] != "ok":
        return []
    tag = M.path_tag(ob["exp"]["triple"])
    V: list = []
    want = M.fixture_rkth(ob["exp"])
    if want is not None and ob.get("rkth") != want:
        V.append(("C02.rkth", f"{ob['exp']['facts']['cert']};api;history:{ob['step']}",
                  f"MasterBootImage.rkth = {_hx(ob.get('rkth'))}, hash of the final root keys = {want.hex()}"))
    for name, exp_key, img_key in (("before", "exp_a", "img1b"), ("after", "exp", "image")):
        o2 = {"exp": ob[exp_key], "image": ob[img_key]}
        try:
            _accept(o2, M.fixture_rkth(o2["exp"]))
        except Reject as e:
            V.append(("C02.history-accept", f"{tag};{ob['step']};{name};{e.stage}", str(e)))
    return V


def judge_wrongkey(case: dict, ob: dict) -> tuple[list, dict]:
    """Signing key that does not match the certificate block: every attempt is refused, or what is handed
    out verifies under the key carried in the certificate block like any other export."""
    from vf.ref.rom_mbi import Reject

    tag = M.path_tag(ob["exp"]["triple"])
    V = []
    cnt = {"wrongkey_cases": 1}
    for a in ob["attempts"]:
        if a["status"] == "refused":
            cnt["wrongkey_attempts_refused"] = cnt.get("wrongkey_attempts_refused", 0) + 1
        elif a["status"] == "exception":
            e = a["error"]
            V.append(("C02.wrong-key-exception", f"{tag};{a['name']};{e['type']}@{e['where']}", e["msg"]))
        else:
            try:
                _accept({"exp": ob["exp"], "image": a["image"]}, M.fixture_rkth(ob["exp"]))
            except Reject as e:
                V.append(("C02.wrong-key-accepted", f"{tag};{a['name']};{e.stage}",
                          f"export with a signing key that does not belong to the certificate block was not refused "
                          f"and the image fails the ROM check: {e}"))
    return V, cnt


def w_case(case: dict) -> dict:
    quiet()
    wd = workdir()
    if "hist" in case:
        ob = M.execute_history(case, wd, case.get("seed", 0))
        return {"viol": judge_history(case, ob), "count": {"history_cases": 1}, "status": ob["status"]}
    if case.get("wrongkey"):
        ob = M.execute_wrongkey(case, wd, case.get("seed", 0))
        viol, cnt = judge_wrongkey(case, ob)
        return {"viol": viol, "count": cnt, "status": "ok"}
    ob = M.execute(case, wd, case.get("seed", 0), want=())
    viol, cnt = judge(case, ob, case.get("flips"))
    res: dict[str, Any] = {"viol": viol, "count": cnt, "status": ob["status"]}
    if ob["status"] == "ok":
        res["distinct"] = [M.stable_token(ob)]
        cnt["accepted"] = 1
    elif ob["status"] == "rejected":
        cnt["rejected"] = 1
        res["reject"] = ob["reject"]["msg"][:120]
    else:
        cnt["build_exception_see_C01"] = 1
    if case.get("classify"):
        with M.record_db_reads() as rec:
            M.execute(case, wd, case.get("seed", 0), want=("parse",))
        res["class_key"] = M.class_key(ob["exp"]["triple"], rec.result())
    return res


def protected_triples() -> list:
    return [t for f in M.families() for t in M.triples(f) if t["auth"] in M.PROTECTED]


def run(ctx) -> None:
    quiet()
    calibrate(ctx)
    quick = ctx.tier == "quick"
    k = 1 if quick else 2
    ctx.rule = ("protected (crc / signed / nxp_signed / encrypted) triples of the database x "
                f"{len(M.LENGTHS)} payload-length classes x {len(M.CONTENTS)} content classes (quick: counter on every triple; seeded, and "
                f"look-alikes for classes with relocation-table code, on the first triple of every mixin composition) at the base option "
                f"set; every further revision at the base payload; option lattice with <= {k} departures and the full "
                "product of the certificate dimensions on class representatives; per image single-bit flips "
                + ("at the first / middle / last byte (bits 0 and 7) of every region, and of one bit in every byte of "
                   "the smallest image of every class representative" if quick else
                   "of every bit of the smallest image of every class representative and of every CRC image with "
                   "<= 0x200 bytes payload, of one bit in every byte (lattice cases with <= 1 "
                   "departure), else first / middle / last byte of every region")
                + ". distinct/non-trivial = SHA-1 of an exported image the builder accepted")
    ctx.rule += ("; alignment family ({custom TrustZone, relocation table, both} x application lengths 0x1F4..0x200), object "
                 "histories (replace one member on a live object, export again) and wrong-key attempts (provider whose key "
                 "does not match the certificate block: first export, retry, second image with the same provider object; RSA / "
                 "cert block v1 and ECC / cert block v2.1 with and without ISK) on class representatives")
    ctx.rule += ("; option dimensions include the source of builder-chosen values: counter IV explicit / omitted in the "
                 "configuration / omitted in the class-constructor API (owned RNG keeps exports reproducible), and the "
                 "API used to hand over the settings (load_from_config / class constructor)")
    ctx.assumptions += [
        "the ROM model is written from the format crib / schema texts and calibrated on the repository's golden "
        "images; what a device knows (TrustZone block size, certificate block kind, HMAC header, manifest CRC) "
        "is read from the database *data*, the provisioning (user key, key source, RKTH) from the case",
        "ECDSA signatures are verified, never compared; RSA key sizes are uniform inside a chain (fixture pool)",
        "key store bytes are unauthenticated by format (flips there are expected to be accepted)",
    ]
    table = DimTable()
    classes: dict[str, list] = {}
    # ---- structural product ---------------------------------------------------------------------
    cases = []
    seen_comp: set = set()
    for t in protected_triples():
        comp_rep = M.composition(t) not in seen_comp
        seen_comp.add(M.composition(t))
        for L in M.LENGTHS:
            for c in M.CONTENTS:
                if quick and c != "counter" and not (comp_rep and (c == "seeded" or (
                        M.has(t, "RelocTable") and c.startswith("reloc-like")))):
                    continue  # quick: content is opaque to the cryptographic layer: counter payload on every triple,
                    # seeded (and look-alikes where a table is parsed) on the first triple of every mixin composition
                case = {"fam": t["fam"], "rev": "latest", "tgt": t["tgt"], "auth": t["auth"], "len": L,
                        "content": c, "opts": {}, "seed": ctx.seed}
                if c == "counter":
                    case["flips"] = "fml" if (quick or L > 0x200) else "bits" if t["auth"] == "crc" else "fml"
                if L == 0x40 and c == "counter":
                    case["classify"] = True
                cases.append(case)
    rejected_base = []
    for case, res in ctx.pool_map(w_case, cases, timeout=300, chunksize=8):
        if not ctx.absorb(case, res):
            continue
        if res.get("status") == "rejected" and case["len"] == 0x200 and case["content"] == "counter":
            rejected_base.append((case["fam"], case["tgt"], case["auth"], res.get("reject")))
        if "class_key" in res:
            classes.setdefault(res["class_key"], []).append((case["fam"], case["tgt"], case["auth"]))
    if rejected_base:
        # the base case proper (0x200-byte counter payload, default options) must build for every triple;
        # a builder that refuses other structural cases (e.g. very short payloads) is counted, not judged
        raise core.HarnessError(f"base configuration rejected by the builder: {rejected_base[:5]}")
    ctx.count("structural_cases", len(cases))
    for c in cases[:2] + cases[-2:]:
        ctx.sample(c)
    # ---- further revisions ------------------------------------------------------------------------
    rc = []
    for fam in M.families():
        latest = M.latest_revision(fam)
        for rev in M.revisions(fam):
            if rev != latest:
                rc += [{"fam": fam, "rev": rev, "tgt": t["tgt"], "auth": t["auth"], "len": 0x40, "content": "counter",
                        "opts": {}, "seed": ctx.seed, "flips": "fml"}
                       for t in M.triples(fam, rev) if t["auth"] in M.PROTECTED]
    for case, res in ctx.pool_map(w_case, rc, timeout=300, chunksize=8, check_det=0):
        ctx.absorb(case, res)
    ctx.count("revision_cases", len(rc))
    # ---- lattice + certificate products on class representatives ----------------------------------
    reps = 1 if quick else 2
    lc = []
    group_done: set = set()
    for key, members in sorted(classes.items()):
        for fam, tgt, auth in members[:reps]:
            t = M.triple(fam, "latest", tgt, auth)
            facts = M.dev_facts(t)
            if facts["kind"] != "ivt":
                continue
            lat = M.dims_for(t)
            # the certificate full product: every class in thorough; in quick once per certificate
            # block kind / manifest kind (the code below the cert block is shared)
            gk = (facts["cert"], facts["manifest_crc"], facts["hmac_hdr"], auth == "encrypted")
            with_groups = (not quick) or gk not in group_done
            group_done.add(gk)
            # the smallest image of the class: every byte (quick) / every bit (thorough) is corrupted once
            lc.append({"fam": fam, "rev": "latest", "tgt": tgt, "auth": auth, "len": 0x40, "content": "seeded",
                       "opts": {}, "seed": ctx.seed, "flips": "bytes" if quick else "bits"})
            todo = [{n: lat.by_name[n].values[i] for n, i in a.items()}
                    for a in lat.enumerate(k, with_groups=with_groups) if a]
            for opts in M.digest_product(t) + M.flag_product(t):
                if opts not in todo:
                    todo.append(opts)
            for opts in todo:
                a = opts
                size_hint = 0x1F0
                mode = "fml"
                if not quick and len(a) <= 1:
                    mode = "bytes"
                lc.append({"fam": fam, "rev": "latest", "tgt": tgt, "auth": auth, "len": size_hint,
                           "content": "seeded", "opts": opts, "seed": ctx.seed, "flips": mode})
    done = 0
    for case, res in ctx.pool_map(w_case, lc, timeout=600, chunksize=4, check_det=0):
        if ctx.out_of_budget():
            break
        done += 1
        if not ctx.absorb(case, res):
            continue
        t = M.triple(case["fam"], "latest", case["tgt"], case["auth"])
        lat = M.dims_for(t)
        a = {n: lat.by_name[n].values.index(v) for n, v in case["opts"].items()}
        table.record(lat, a, True if res["status"] == "ok" else False if res["status"] == "rejected" else None)
    ctx.count("lattice_cases", done)
    if done < len(lc):
        ctx.cov["lattice_cases_planned"] = len(lc)
    for c in lc[:2] + lc[-2:]:
        ctx.sample(c)
    # ---- alignment of the parts behind the application, object histories, wrong-key attempts ------
    from vf.props.c01 import alignment_cases, history_cases

    ac = [dict(c, flips="fml") for c in alignment_cases(ctx, classes, protected_only=True)]
    hc = [c for c in history_cases(ctx, classes, protected_only=True) if c["hist"] != "none"]
    wc = []
    seen_kind: set = set()
    for key, members in sorted(classes.items()):
        fam, tgt, auth = members[0]
        t = M.triple(fam, "latest", tgt, auth)
        facts = M.dev_facts(t)
        if facts["cert"] not in ("v1", "v21") or facts["kind"] != "ivt":
            continue
        variants = [{}] + ([{"isk": "p256"}] if facts["cert"] == "v21" else [])
        if quick and (facts["cert"], facts["hmac_hdr"], facts["manifest_crc"], auth) in seen_kind:
            continue  # quick: one representative per certificate-block kind / export path
        seen_kind.add((facts["cert"], facts["hmac_hdr"], facts["manifest_crc"], auth))
        for opts in variants:
            wc.append({"fam": fam, "rev": "latest", "tgt": tgt, "auth": auth, "len": 0x1F8, "content": "seeded",
                       "opts": opts, "seed": ctx.seed, "wrongkey": True})
    for fam_cases, name in ((ac, "alignment_cases"), (hc, "history_cases_planned"), (wc, "wrongkey_cases_planned")):
        for case, res in ctx.pool_map(w_case, fam_cases, timeout=300, chunksize=2, check_det=0):
            ctx.absorb(case, res)
        ctx.count(name, len(fam_cases))
    for c in ac[:1] + hc[:1] + wc[:2]:
        ctx.sample(c)
    ctx.cov["protected_triples"] = len(protected_triples())
    ctx.cov["equivalence_classes"] = {k_: {"size": len(v), "representative": list(v[0])}
                                      for k_, v in sorted(classes.items())}
    ctx.cov["k_completed"] = k if done == len(lc) else k - 1
    ctx.cov["dimensions"] = table.as_dict()
    ctx.cov["flip_mode"] = "first/middle/last byte x bits 0,7 per region" if quick else "all bits / all bytes / fml by size"


def replay(ctx, rec: dict) -> bool:
    quiet()
    res = w_case(rec["case"])
    hit = False
    for v in res["viol"]:
        mark = "*" if (v[0] == rec["clause"] and v[1] == rec["disc"]) else " "
        print(f" {mark} {v[0]} [{v[1]}] {v[2][:300]}")
        hit = hit or mark == "*"
    return hit
