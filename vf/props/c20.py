"""C20 — number parsing, alignment and byte-order helpers (engine E6: exhaustive sweeps).

Every clause is an exhaustive loop over a small, explicitly stated domain, compared with an
own definition that shares no code with spsdk (character-level recogniser, integer
arithmetic).  Clause ids: C20.<function>-<aspect>.
"""
from __future__ import annotations

import itertools
from typing import Any, Optional

from vf import core

LEVEL = "exploration"

# 17 symbols of DESIGN §21 + one non-ASCII decimal digit (ARABIC-INDIC DIGIT THREE: str.isdigit() and int() accept
# it, the documented grammar does not)
ALPHABET = "0179afxbo_ul -gX+\u0663"


# ---------------------------------------------------------------------------------------------
# reference recogniser for the documented number grammar (decimal, 0x/0b/0o, single
# underscores between digits, <=3 u/l suffix letters, surrounding blanks)

_DIG = {2: "01", 8: "01234567", 10: "0123456789", 16: "0123456789abcdef"}


def ref_value_to_int(s: str) -> Optional[int]:
    t = s.strip(" \t\n\r\x0b\x0c").lower()
    # suffix: longest run of u/l at the end, at most 3 letters (u, l are never digits)
    n = len(t)
    k = n
    while k > 0 and t[k - 1] in "ul":
        k -= 1
    if n - k > 3:
        return None
    body = t[:k]
    base = 10
    if len(body) >= 2 and body[0] == "0" and body[1] in "box":
        # a prefix is only a prefix if something follows; "0b" alone is not a number at all
        cand = body[2:]
        b = {"b": 2, "o": 8, "x": 16}[body[1]]
        v = _digits(cand, b)
        if v is not None:
            return v
        return None
    return _digits(body, base)


def _digits(txt: str, base: int) -> Optional[int]:
    if not txt:
        return None
    groups = txt.split("_")
    if any(g == "" for g in groups):
        return None
    digs = _DIG[base]
    v = 0
    for g in groups:
        for ch in g:
            i = digs.find(ch)
            if i < 0:
                return None
            v = v * base + i
    return v


# ---------------------------------------------------------------------------------------------
# workers (top level: run in forked processes)


def w_strings(task: Any) -> dict:
    """All strings with the given prefix and total length <= L."""
    from spsdk.exceptions import SPSDKError
    from spsdk.utils.misc import value_to_int

    prefix, L, depth = task
    viol = []
    n = 0
    acc = 0
    rest = L - len(prefix)
    lens = range(0, rest + 1) if len(prefix) == depth else [0]
    for r in lens:
        for tail in itertools.product(ALPHABET, repeat=r):
            s = prefix + "".join(tail)
            n += 1
            exp = ref_value_to_int(s) if s != "" else None
            try:
                got = value_to_int(s)
                err = None
            except SPSDKError:
                got = None
                err = "spsdk"
            except Exception as e:  # noqa
                got = None
                err = type(e).__name__
            if err not in (None, "spsdk"):
                viol.append(("C20.value_to_int-error-type", err, f"{s!r}: {err}"))
            if exp is None and got is not None:
                viol.append(("C20.value_to_int-accepts-invalid", _shape(s), f"{s!r} accepted as {got}"))
            elif exp is not None and got is None:
                viol.append(("C20.value_to_int-rejects-valid", _shape(s), f"{s!r} rejected, value {exp}"))
            elif exp is not None and got != exp:
                viol.append(("C20.value_to_int-value", _shape(s), f"{s!r}: got {got}, expected {exp}"))
            if exp is not None:
                acc += 1
                # default= must not change the answer of a valid number
                if len(s) <= 3 and value_to_int(s, default=12345) != exp:
                    viol.append(("C20.value_to_int-default", _shape(s), f"{s!r} with default"))
            elif len(s) <= 3:
                try:
                    if value_to_int(s, default=12345) != 12345:
                        viol.append(("C20.value_to_int-default", _shape(s), f"{s!r}: default not returned"))
                except Exception as e:  # noqa
                    viol.append(("C20.value_to_int-default", _shape(s), f"{s!r}: raised {type(e).__name__} with default"))
    return {"viol": core.dedupe(viol), "count": {"strings": n, "strings_accepted_by_ref": acc}}


def _shape(s: str) -> str:
    """Discriminator: the string with digit classes abstracted."""
    out = []
    for ch in s:
        if ch in "01":
            out.append("B")
        elif ch in "7":
            out.append("O")
        elif ch in "9":
            out.append("D")
        elif ch in "af":
            out.append("H")
        elif ord(ch) > 127:
            out.append("U")
        else:
            out.append(ch)
    return "".join(out)


def ref_cnt(v: int, align2n: bool, byte_cnt: Optional[int]):
    cnt = max(1, (v.bit_length() + 7) // 8)
    if v == 0:
        return byte_cnt or 1
    if align2n and cnt > 2:
        cnt = (cnt + 3) // 4 * 4
    if byte_cnt and cnt > byte_cnt:
        return None
    return byte_cnt or cnt


def w_ints(task: Any) -> dict:
    from spsdk.exceptions import SPSDKError
    from spsdk.utils.misc import Endianness, get_bytes_cnt_of_int, value_to_bytes, value_to_int

    lo, hi, extra = task
    viol = []
    n = 0
    vals = list(range(lo, hi)) + list(extra)
    for v in vals:
        for al in (True, False):
            for bc in (None, 1, 2, 3, 4, 5, 8, 16, 65):
                exp = ref_cnt(v, al, bc)
                n += 1
                try:
                    got = get_bytes_cnt_of_int(v, al, bc)
                except SPSDKError:
                    got = None
                except Exception as e:  # noqa
                    viol.append(("C20.bytes_cnt-error-type", type(e).__name__, f"v={v} al={al} bc={bc}"))
                    continue
                if got != exp:
                    viol.append(("C20.bytes_cnt-width", f"al={al},bc={bc}", f"v={v}: got {got} exp {exp}"))
                    continue
                if exp is None:
                    continue
                for en in (Endianness.BIG, Endianness.LITTLE):
                    b = value_to_bytes(v, al, bc, en)
                    if len(b) != exp or int.from_bytes(b, en.value) != v:
                        viol.append(("C20.value_to_bytes-roundtrip", f"al={al},bc={bc},{en.value}",
                                     f"v={v}: {b.hex()}"))
                    if en is Endianness.BIG and value_to_int(b) != v:
                        viol.append(("C20.value_to_bytes-roundtrip", "value_to_int(bytes)", f"v={v}"))
        # string forms round trip
        for txt in (str(v), hex(v), bin(v), oct(v), f"{v}ul"):
            if value_to_int(txt) != v:
                viol.append(("C20.value_to_int-value", "int-format", f"{txt!r}"))
    return {"viol": core.dedupe(viol), "count": {"int_width_cases": n}}


def w_negative(task: Any) -> dict:
    """Negative integers are outside the domain of the byte conversions: they must be rejected
    (any exception), not looped on forever (watchdog) and not encoded as something else."""
    from spsdk.utils.misc import get_bytes_cnt_of_int, value_to_bytes

    fn, v = task
    try:
        r = get_bytes_cnt_of_int(v) if fn == "cnt" else value_to_bytes(v)
    except Exception:  # noqa
        return {"viol": []}
    return {"viol": [("C20.negative-accepted", fn, f"{fn}({v}) -> {r!r}")]}


def w_misc(task: Any) -> dict:
    import spsdk.utils.misc as m
    from spsdk.exceptions import SPSDKError
    from spsdk.sbfile.misc import BcdVersion3, SecBootBlckSize

    kind = task
    viol = []
    n = 0

    def call(fn, *a, **k):
        try:
            return ("ok", fn(*a, **k))
        except SPSDKError:
            return ("spsdk", None)
        except Exception as e:  # noqa
            return (type(e).__name__, None)

    if kind == "align":
        for num in range(-2, 301):
            for al in range(-2, 65):
                n += 1
                st, r = call(m.align, num, al)
                if al <= 0 or num < 0:
                    if st == "ok":
                        viol.append(("C20.align-accepts-invalid", f"al<=0:{al <= 0},n<0:{num < 0}", f"align({num},{al})={r}"))
                    elif st != "spsdk":
                        viol.append(("C20.align-error-type", st, f"align({num},{al})"))
                    continue
                exp = next(x for x in range(num, num + al + 1) if x % al == 0)
                if st != "ok" or r != exp:
                    viol.append(("C20.align-value", "value", f"align({num},{al})={st}:{r}, expected {exp}"))
        # large values (exact integer arithmetic is required: 2^k +- 1 up to 2^512)
        for k in range(8, 513):
            for d in (-1, 0, 1):
                num = (1 << k) + d
                for al in (1, 2, 3, 4, 7, 8, 16, 512, 4096, 1 << 32, (1 << 64) + 1):
                    n += 1
                    st, r = call(m.align, num, al)
                    exp = num if num % al == 0 else num + (al - num % al)
                    if st != "ok" or r != exp:
                        viol.append(("C20.align-value", "large-value", f"align(2^{k}{d:+d},{al})={st}:{r}, expected {exp}"))
        for size in range(0, 70):
            n += 1
            if SecBootBlckSize.align(size) != (size + 15) // 16 * 16:
                viol.append(("C20.align-value", "SecBootBlckSize.align", f"{size}"))
            if SecBootBlckSize.is_aligned(size) != (size % 16 == 0):
                viol.append(("C20.align-value", "SecBootBlckSize.is_aligned", f"{size}"))
            st, r = call(SecBootBlckSize.to_num_blocks, size)
            if size % 16 == 0:
                if st != "ok" or r != size // 16:
                    viol.append(("C20.align-value", "to_num_blocks", f"{size}"))
            elif st != "spsdk":
                viol.append(("C20.align-accepts-invalid", "to_num_blocks", f"{size}: {st} {r}"))
    elif kind == "blocks":
        pats = [None, 0, 0xFF, 0xA5, "zeros", "ones", "inc", "0xA5", "0x1234"]
        for ln in range(0, 71):
            data = bytes((i * 7 + 1) & 0xFF for i in range(ln))
            for al in (1, 2, 3, 4, 7, 8, 16, 64):
                for p in pats:
                    n += 1
                    st, r = call(m.align_block, data, al, p)
                    expl = (ln + al - 1) // al * al
                    if st != "ok" or len(r) != expl or r[:ln] != data:
                        viol.append(("C20.align_block", f"pad={p!r}", f"len={ln} al={al}: {st}"))
                        continue
                    # the documented input type includes bytearray: same answer, and the caller's buffer is not touched
                    ba = bytearray(data)
                    st2, r2 = call(m.align_block, ba, al, p)
                    if st2 != "ok" or bytes(r2) != r or bytes(ba) != data:
                        viol.append(("C20.align_block", "bytearray-input" + (":mutated" if bytes(ba) != data else ""),
                                     f"len={ln} al={al} pad={p!r}: {st2}, input now {len(ba)} bytes"))
                    tail = r[ln:]
                    exp_tail = {None: b"\0", 0: b"\0", 0xFF: b"\xff", 0xA5: b"\xa5", "zeros": b"\0",
                                "ones": b"\xff", "0xA5": b"\xa5"}.get(p)
                    if exp_tail is not None and tail != exp_tail * len(tail):
                        viol.append(("C20.align_block", f"padvalue={p!r}", f"len={ln} al={al}: {tail.hex()}"))
                    if p == "inc" and tail != bytes(range(len(tail))):
                        viol.append(("C20.align_block", "padvalue=inc", f"len={ln} al={al}"))
                    if p == "0x1234" and tail != (b"\x12\x34" * 40)[: len(tail)]:
                        viol.append(("C20.align_block", "padvalue=0x1234", f"len={ln} al={al}"))
            st, r = call(m.align_block, data, -1)
            if st != "spsdk":
                viol.append(("C20.align_block", "negative-alignment", f"{st}"))
            for tgt in range(0, 75):
                for pad in (0, 1, 0xFF):
                    n += 1
                    st, r = call(m.extend_block, data, tgt, pad)
                    if tgt < ln:
                        if st != "spsdk":
                            viol.append(("C20.extend_block", "short-length", f"len={ln} tgt={tgt}: {st}"))
                    elif st != "ok" or r != data + bytes([pad]) * (tgt - ln):
                        viol.append(("C20.extend_block", "value", f"len={ln} tgt={tgt} pad={pad}: {st}"))
        for size in range(0, 71):
            for p, unit in (("zeros", b"\0"), ("ones", b"\xff"), ("0xA5", b"\xa5"), ("0x1234", b"\x12\x34"),
                            ("165", b"\xa5"), ("0x00", b"\0"), ("0x010203", b"\x01\x02\x03")):
                n += 1
                st, r = call(lambda: m.BinaryPattern(p).get_block(size))
                if st != "ok" or r != (unit * 80)[:size]:
                    viol.append(("C20.BinaryPattern", p, f"size={size}: {st} {r!r}"))
            st, r = call(lambda: m.BinaryPattern("inc").get_block(size))
            if st != "ok" or r != bytes(x & 0xFF for x in range(size)):
                viol.append(("C20.BinaryPattern", "inc", f"size={size}"))
        for bad in ("zz", "", "0xg", "rnd"):
            st, r = call(m.BinaryPattern, bad)
            if st != "spsdk":
                viol.append(("C20.BinaryPattern", "invalid-accepted", f"{bad!r}: {st}"))
    elif kind == "range":
        for x in range(-2, 11):
            for lo in range(-2, 11):
                for hi in range(-2, 11):
                    n += 1
                    st, r = call(m.check_range, x, lo, hi)
                    if st != "ok" or bool(r) != (lo <= x <= hi):
                        viol.append(("C20.check_range", f"below:{x < lo},above:{x > hi}",
                                     f"check_range({x},{lo},{hi}) -> {st}:{r}"))
        for x in (-1, 0, 1, 2**32 - 1, 2**32, 2**32 + 1):
            n += 1
            st, r = call(m.check_range, x)
            if st != "ok" or bool(r) != (0 <= x <= 2**32 - 1):
                viol.append(("C20.check_range", f"default-range,below:{x < 0},above:{x > 2**32 - 1}", f"check_range({x}) -> {r}"))
    elif kind == "swap":
        for x in range(0, 0x10000):
            n += 1
            r = m.swap16(x)
            if r != ((x & 0xFF) << 8 | x >> 8) or m.swap16(r) != x:
                viol.append(("C20.swap16", "value", f"{x}"))
        for x in (-1, 0x10000, 0x10001):
            st, r = call(m.swap16, x)
            if st != "spsdk":
                viol.append(("C20.swap16", "invalid-accepted", f"{x}: {st} {r}"))
        vals32 = set()
        for k in range(33):
            for d in (-1, 0, 1):
                vals32.add((1 << k) + d)
        vals32 |= {0x12345678, 0xA5A5A5A5, 0xFF00FF00, 0x00FF00FF, 0x80000001}
        for x in sorted(vals32):
            n += 1
            st, r = call(m.swap32, x)
            if 0 <= x <= 0xFFFFFFFF:
                if st != "ok" or r != int.from_bytes(x.to_bytes(4, "big"), "little") or m.swap32(r) != x:
                    viol.append(("C20.swap32", "value", f"{x:#x}"))
            elif st != "spsdk":
                viol.append(("C20.swap32", "invalid-accepted", f"{x:#x}: {st} {r}"))
        for w in range(1, 17):
            for x in range(0, 1 << w):
                n += 1
                r = m.reverse_bits(x, w)
                exp = sum(((x >> i) & 1) << (w - 1 - i) for i in range(w))
                if r != exp or m.reverse_bits(r, w) != x:
                    viol.append(("C20.reverse_bits", f"width={w}", f"x={x}: {r} exp {exp}"))
        for w in (32, 64):
            for k in range(w):
                for x in ((1 << k), (1 << w) - 1 - (1 << k), (1 << k) - 1):
                    n += 1
                    r = m.reverse_bits(x, w)
                    exp = sum(((x >> i) & 1) << (w - 1 - i) for i in range(w))
                    if r != exp or m.reverse_bits(r, w) != x:
                        viol.append(("C20.reverse_bits", f"width={w}", f"x={x:#x}"))
        if m.reverse_bits(1) != 0x80000000:
            viol.append(("C20.reverse_bits", "default-width", "reverse_bits(1)"))
    elif kind == "bytes":
        syms = (0x00, 0x5A, 0xFF)
        datas = [bytes(t) for ln in range(0, 5) for t in itertools.product(syms, repeat=ln)]
        datas += [bytes((i * 13 + 5) & 0xFF for i in range(ln)) for ln in range(5, 65)]
        for d in datas:
            n += 1
            ln = len(d)
            st, r = call(m.reverse_bytes_in_longs, d)
            if ln % 4 == 0:
                exp = b"".join(d[i:i + 4][::-1] for i in range(0, ln, 4))
                if st != "ok" or bytes(r) != exp or bytes(m.reverse_bytes_in_longs(r)) != d:
                    viol.append(("C20.reverse_bytes_in_longs", "value", d.hex()))
            elif st != "spsdk":
                viol.append(("C20.reverse_bytes_in_longs", "invalid-accepted", f"len={ln}: {st}"))
            st, r = call(m.change_endianness, d)
            if ln in (1, 2) or ln % 4 == 0:
                exp = d[::-1] if ln <= 2 else b"".join(d[i:i + 4][::-1] for i in range(0, ln, 4))
                if st != "ok" or bytes(r) != exp or bytes(m.change_endianness(bytes(r))) != d:
                    viol.append(("C20.change_endianness", "value", d.hex()))
            elif st == "ok":
                viol.append(("C20.change_endianness", "invalid-accepted", f"len={ln}"))
            elif st != "spsdk":
                viol.append(("C20.change_endianness", "error-type", f"len={ln}: {st}"))
            st, r = call(m.swap_bytes, d)
            if ln % 2 == 0:
                exp = bytes(d[i ^ 1] for i in range(ln))
                if st != "ok" or r != exp or m.swap_bytes(r) != d:
                    viol.append(("C20.swap_bytes", "value", d.hex()))
            elif st == "ok":
                viol.append(("C20.swap_bytes", "odd-length-accepted", f"len={ln}: {r!r}"))
    elif kind == "hexstr":
        import os
        import tempfile

        for size in range(1, 21):
            for fill in ("12", "00", "ff", "80"):
                for lead in ("12", "00", "01", "80", "ff"):
                    n += 1
                    txt = lead + fill * (size - 1)
                    exp = bytes.fromhex(txt)
                    for src in (txt, "0x" + txt, txt.upper()):
                        st, r = call(m.load_hex_string, src, size)
                        if st != "ok" or r != exp:
                            viol.append(("C20.load_hex_string-rejects-valid", f"size%4={size % 4},size>2={size > 2},lead0={lead == '00'}",
                                         f"load_hex_string({src!r},{size}) -> {st}:{r!r}"))
                    # wrong size must be refused
                    for wrong in (size + 1, size - 1):
                        if wrong < 1:
                            continue
                        st, r = call(m.load_hex_string, lead + fill * (wrong - 1), size)
                        if lead != "00" and wrong > size and st == "ok":
                            viol.append(("C20.load_hex_string-accepts-invalid", "longer", f"{wrong} B for {size}"))
                        if st == "ok" and len(r) != size:
                            viol.append(("C20.load_hex_string-accepts-invalid", "length", f"{wrong} B for {size}"))
                        if st not in ("ok", "spsdk"):
                            viol.append(("C20.load_hex_string-error-type", st, f"{wrong} B for {size}"))
            # bytes and int sources, file source
            exp = bytes(range(1, size + 1))
            st, r = call(m.load_hex_string, exp, size)
            if st != "ok" or r != exp:
                viol.append(("C20.load_hex_string-rejects-valid", "bytes-source", f"size={size}"))
            if size in (1, 2, 4, 8, 16, 20):
                with tempfile.TemporaryDirectory() as td:
                    p = os.path.join(td, "k.txt")
                    open(p, "w").write(exp.hex())
                    st, r = call(m.load_hex_string, p, size)
                    if st != "ok" or r != exp:
                        viol.append(("C20.load_hex_string-rejects-valid", "text-file", f"size={size}: {st}"))
                    p = os.path.join(td, "k.bin")
                    open(p, "wb").write(bytes([0x80 + i for i in range(size)]))
                    st, r = call(m.load_hex_string, p, size)
                    if st != "ok" or r != bytes([0x80 + i for i in range(size)]):
                        viol.append(("C20.load_hex_string-rejects-valid", "binary-file", f"size={size}: {st}"))
        for bad in ("zz", "0xzz", "12 34"):
            st, r = call(m.load_hex_string, bad, 2)
            if st == "ok":
                viol.append(("C20.load_hex_string-accepts-invalid", "not-hex", f"{bad!r} -> {r!r}"))
    elif kind == "bcd":
        parts = ["", "0", "9", "10", "99", "999", "9999", "10000", "a", "1a", "-1"]
        for a in parts:
            for b in parts:
                for c in parts:
                    n += 1
                    txt = f"{a}.{b}.{c}"
                    ok = all(1 <= len(p) <= 4 and p.isdigit() for p in (a, b, c))
                    st, r = call(BcdVersion3.from_str, txt)
                    if ok:
                        if st != "ok" or str(r) != f"{int(a)}.{int(b)}.{int(c)}" or r.nums != [int(a, 16), int(b, 16), int(c, 16)]:
                            viol.append(("C20.BcdVersion3", "value", f"{txt!r}: {st} {r}"))
                        elif BcdVersion3.to_version(txt) != r or BcdVersion3.from_str(str(r)) != r:
                            viol.append(("C20.BcdVersion3", "roundtrip", f"{txt!r}"))
                    elif st == "ok":
                        viol.append(("C20.BcdVersion3", "invalid-accepted", f"{txt!r} -> {r}"))
        for txt in ("1.2", "1.2.3.4", "1", ""):
            st, r = call(BcdVersion3.from_str, txt)
            if st == "ok":
                viol.append(("C20.BcdVersion3", "invalid-accepted", f"{txt!r}"))
        for num in (-1, 0xA, 0x1A, 0x10000, 0x9999, 0):
            st, r = call(BcdVersion3, num, 0, 0)
            ok = 0 <= num <= 0x9999 and all(((num >> 4 * i) & 0xF) <= 9 for i in range(4))
            if ok != (st == "ok"):
                viol.append(("C20.BcdVersion3", "ctor", f"{num:#x}: {st}"))
    elif kind == "enum":
        from spsdk.utils.spsdk_enum import SpsdkEnum

        class E(SpsdkEnum):
            A = (0, "A_LABEL", "first")
            B = (1, "b_label", "second")
            C = (0x10, "C", None)

        for mem in E:
            n += 1
            if E.from_tag(mem.tag) is not mem or E.from_label(mem.label) is not mem:
                viol.append(("C20.SpsdkEnum", "lookup", mem.label))
            if E.get_tag(mem.label) != mem.tag or E.get_label(mem.tag) != mem.label:
                viol.append(("C20.SpsdkEnum", "lookup", mem.label))
            if not E.contains(mem.tag) or not E.contains(mem.label):
                viol.append(("C20.SpsdkEnum", "contains", mem.label))
        for bad in (2, -1, 0x11):
            st, r = call(E.from_tag, bad)
            if st != "spsdk":
                viol.append(("C20.SpsdkEnum", "invalid-accepted", f"tag {bad}: {st} {r}"))
            if E.contains(bad):
                viol.append(("C20.SpsdkEnum", "contains", f"tag {bad}"))
        for bad in ("D", "", "first"):
            st, r = call(E.from_label, bad)
            if st != "spsdk":
                viol.append(("C20.SpsdkEnum", "invalid-accepted", f"label {bad!r}: {st} {r}"))
        if E.tags() != [0, 1, 0x10] or E.labels() != ["A_LABEL", "b_label", "C"]:
            viol.append(("C20.SpsdkEnum", "listing", ""))
    return {"viol": core.dedupe(viol), "count": {f"{kind}_cases": n}}


# ---------------------------------------------------------------------------------------------


# ---------------------------------------------------------------------------------------------
# call histories: the helpers are documented as functions of their arguments, so the answer to a call must not depend on
# what was called before in the same process (conversion caches, defaults remembered, caller buffers kept or changed)

def hist_alphabet(tier: str) -> list:
    """Calls as JSON-able tuples (function tag, args...). Strings come in groups that a cache key could confuse: the same
    text with other defaults, other case, surrounding blanks, underscores, suffixes; valid and invalid ones."""
    strs = ["0x10", "0X10", " 0x10", "0x1_0", "0x10u", "16", "016", "0b101", "0o17", "1__0", "four", "0xg", "", "-1", "10ul", "0b2"]
    if tier != "quick":
        strs += ["0x_1", "1_", "0x", "7", " 7 ", "0B1", "1e3", "0xffffffffffffffffff", "٣"]
    calls: list = []
    for t in strs:
        for d in (None, 0, 7):
            calls.append(("vti", t, d))
        calls.append(("vtb", t))
        calls.append(("pat", t))
    calls += [("vti_b", "0010"), ("vti_b", "ff"), ("vti_i", 5), ("vbool", "true"), ("vbool", "F"), ("vbool", "0"), ("vbool", "x"),
              ("hex", "0x0102", 2), ("hex", "0102", 4), ("hex", None, 3), ("hex", "zz", 2)]
    for n, a in ((5, 4), (8, 4), (3, 16)):
        for kind in ("bytes", "bytearray"):
            calls.append(("alb", kind, n, a, 0x00))
            calls.append(("alb", kind, n, a, 0xFF))
            calls.append(("ext", kind, n, a + n, 0xA5))
    calls += [("align", 5, 4), ("align", 8, 4), ("cnt", 255, True), ("cnt", 256, True), ("cnt", 65536, False),
              ("rng", 3, 0, 4), ("rng", 5, 0, 4), ("rev", 0b0011, 4), ("rev", 0b0011, 10), ("sw32", "01020304"), ("chg", "01020304", 2)]
    return calls


_HIST_KEEP: dict = {}
_HIST_REFS: dict = {}


def hist_call(c: tuple):
    """Execute one call of the alphabet on the real helpers; returns a JSON-able observation (value or exception class)."""
    from spsdk.exceptions import SPSDKError
    from spsdk.utils import misc

    k = c[0]
    try:
        if k == "vti":
            r = misc.value_to_int(c[1]) if c[2] is None else misc.value_to_int(c[1], c[2])
        elif k == "vti_b":
            r = misc.value_to_int(bytes.fromhex(c[1]))
        elif k == "vti_i":
            r = misc.value_to_int(c[1])
        elif k == "vtb":
            r = misc.value_to_bytes(c[1]).hex()
        elif k == "pat":
            r = misc.BinaryPattern(c[1]).get_block(6).hex()
        elif k == "vbool":
            r = misc.value_to_bool(c[1])
        elif k == "hex":
            r = misc.load_hex_string(c[1], c[2]).hex()   # None -> random bytes: only the length is an observation
            if c[1] is None:
                r = len(r)
        elif k in ("alb", "ext"):
            key = (k, c[1], c[2])
            buf = _HIST_KEEP.get(key)
            if buf is None:   # the caller keeps its buffer between calls, as a loop over one working buffer does
                raw = bytes(range(1, c[2] + 1))
                buf = _HIST_KEEP[key] = bytearray(raw) if c[1] == "bytearray" else raw
            before = bytes(buf)
            out = misc.align_block(buf, c[3], c[4]) if k == "alb" else misc.extend_block(buf, c[3], c[4])
            r = [bytes(out).hex(), "caller-buffer-changed" if bytes(buf) != before else "kept"]
        elif k == "align":
            r = misc.align(c[1], c[2])
        elif k == "cnt":
            r = misc.get_bytes_cnt_of_int(c[1], align_to_2n=c[2])
        elif k == "rng":
            r = misc.check_range(c[1], c[2], c[3])
        elif k == "rev":
            r = misc.reverse_bits(c[1], c[2])
        elif k == "sw32":
            r = misc.swap32(int(c[1], 16))
        elif k == "chg":
            r = misc.change_endianness(bytes.fromhex(c[1])).hex()
        else:
            raise AssertionError(c)
        return ["ok", r]
    except SPSDKError:
        return ["SPSDKError"]
    except Exception as e:  # noqa
        return [type(e).__name__]


def _in_fork(fn):
    """Run fn() in a forked child and return its JSON result: whatever state the calls leave behind (module-level caches in
    any module) dies with the child, so every history starts from the state of this worker, in which no helper has run."""
    import json
    import os

    r, w = os.pipe()
    pid = os.fork()
    if pid == 0:
        try:
            os.close(r)
            out = json.dumps(fn()).encode()
            os.write(w, out)
        finally:
            os._exit(0)
    os.close(w)
    buf = b""
    while True:
        ch = os.read(r, 65536)
        if not ch:
            break
        buf += ch
    os.close(r)
    os.waitpid(pid, 0)
    return json.loads(buf) if buf else None


def w_hist(task: Any) -> dict:
    """task = (tier, index of the first call[, index of the second call for depth 3]); all histories first.. + one more call."""
    tier, pre = task[0], list(task[1:])
    calls = hist_alphabet(tier)

    # reference: every call alone in a fresh state (one fork per call), computed once per worker
    if tier not in _HIST_REFS:
        _HIST_REFS[tier] = [_in_fork(lambda c=c: (_HIST_KEEP.clear(), hist_call(tuple(c)))[1]) for c in calls]
    refs = _HIST_REFS[tier]
    viol = []
    n = 0
    for j, c2 in enumerate(calls):
        def body(c2=c2):
            _HIST_KEEP.clear()
            for i in pre:
                hist_call(tuple(calls[i]))
            return hist_call(tuple(c2))
        got = _in_fork(body)
        n += 1
        if got != refs[j]:
            fam = lambda c: c[0]   # noqa
            same_text = any(calls[i][0] in ("vti", "vtb", "pat") and c2[0] in ("vti", "vtb", "pat") and calls[i][1] == c2[1] for i in pre)
            disc = f"{'+'.join(fam(calls[i]) for i in pre)}->{fam(c2)}" + (":same-text" if same_text else "") + \
                   (":caller-buffer" if c2[0] in ("alb", "ext") else "")
            viol.append(("C20.history-independence", disc, f"after {[calls[i] for i in pre]} the call {c2} answers {got}, alone in a fresh process it answers {refs[j]}"))
    return {"viol": core.dedupe(viol), "count": {"history_cases": n}, "distinct": []}


def run(ctx: core.Ctx) -> None:
    L = 5 if ctx.tier == "quick" else 7
    ctx.rule = (f"value_to_int: every string of length <= {L} over the 18-symbol alphabet {ALPHABET!r} vs. an own "
                "character-level recogniser; width/round trip of integer<->bytes for all v < 2^17 and 2^k±1 (k<=512) "
                "x align x byte_cnt x endianness; align() for all n in -2..300 x a in -2..64; block helpers for all "
                "lengths 0..70; check_range on the cube [-2,10]^3; swap/reverse helpers exhaustively on 16-bit domains; "
                "distinct_nontrivial = distinct inputs on which the reference defines a result (accepted numbers, legal "
                "argument tuples), counted by the workers")
    # strings: split by first two symbols
    depth = 2
    tasks = [("", L, depth)] + [(a, L, depth) for a in ALPHABET] + \
            [(a + b, L, depth) for a in ALPHABET for b in ALPHABET]
    # ("",..) and 1-char prefixes only evaluate themselves (lens=[0]) because len(prefix)!=depth
    nontriv = 0
    for case, res in ctx.pool_map(w_strings, tasks, timeout=600, chunksize=1):
        ok = ctx.absorb(case, res)
        if ok:
            nontriv += res["count"]["strings_accepted_by_ref"]
    ctx.sample({"value_to_int": ["0x1_f", " 10ul", "0b_1", "1__0"]})
    # integers
    extra = sorted({(1 << k) + d for k in range(0, 513) for d in (-1, 0, 1) if (1 << k) + d >= 0})
    step = 4096
    itasks = [(lo, lo + step, []) for lo in range(0, 1 << 17, step)] + [(0, 0, extra)]
    for case, res in ctx.pool_map(w_ints, itasks, timeout=600, chunksize=1, check_det=1):
        if ctx.absorb((case[0], case[1], len(case[2])), res):
            nontriv += res["count"]["int_width_cases"]
    for case, res in ctx.pool_map(w_negative, [("cnt", -1), ("bytes", -1), ("cnt", -256), ("bytes", -(2**40))],
                                  timeout=5, chunksize=1, nproc=4, check_det=0):
        ctx.absorb(case, res, watchdog_clause="C20.negative-terminates")
    for case, res in ctx.pool_map(w_misc, ["align", "blocks", "range", "swap", "bytes", "hexstr", "bcd", "enum"],
                                  timeout=600, chunksize=1, check_det=2):
        if ctx.absorb(case, res):
            nontriv += sum(res["count"].values())
    nalpha = len(hist_alphabet(ctx.tier))
    htasks = [(ctx.tier, i) for i in range(nalpha)]
    if ctx.tier != "quick":   # depth 3 with the first two calls from the number-text family
        fam = [i for i, c in enumerate(hist_alphabet(ctx.tier)) if c[0] in ("vti", "vtb", "pat") and c[1] in ("0x10", "four", "0X10", " 0x10")]
        htasks += [(ctx.tier, i, j) for i in fam for j in fam]
    for case, res in ctx.pool_map(w_hist, htasks, timeout=600, chunksize=1, check_det=1):
        if ctx.absorb(list(case), res):
            nontriv += res["count"]["history_cases"]
    ctx.cov["call_histories"] = {"alphabet": nalpha, "depth": 2 if ctx.tier == "quick" else 3, "histories": ctx.counters.get("history_cases", 0),
                                 "isolation": "every history in its own forked child; reference = the call alone in a forked child"}
    ctx.sample({"call_history": [list(hist_alphabet(ctx.tier)[0]), list(hist_alphabet(ctx.tier)[1])]})
    ctx.sample({"align": [[-2, -2], [300, 64]], "check_range_cube": [-2, 10]})
    ctx.cov["distinct_nontrivial"] = nontriv
    ctx.cov["evaluations"] = sum(v for k, v in ctx.counters.items() if k.endswith("_cases") or k == "strings")
    ctx.cov["string_length_bound"] = L
    ctx.assumptions += ["the documented grammar is: optional blanks, optional 0b/0o/0x prefix, digits of the base with "
                        "single underscores between digits, at most three u/l suffix letters, case-insensitive",
                        "negative integers are outside the domain of the byte conversions and must be refused"]


def replay(ctx: core.Ctx, rec: dict) -> bool:
    case = rec["case"]
    clause = rec["clause"]
    if clause.startswith("C20.value_to_int") and isinstance(case, list) and len(case) == 3 and isinstance(case[0], str):
        res = w_strings(tuple(case))
    elif clause.startswith("C20.negative"):
        res = core.run_with_watchdog(w_negative, tuple(case), 5)
        if res.get("__watchdog__"):
            print("watchdog: does not terminate")
            return True
    elif clause == "C20.history-independence":
        res = w_hist(tuple(case))
    elif isinstance(case, str):
        res = w_misc(case)
    else:
        res = w_ints((case[0], case[1], []))
    hits = [v for v in res["viol"] if v[0] == clause and v[1] == rec["disc"]]
    for h in hits[:5]:
        print(h)
    return bool(hits)
