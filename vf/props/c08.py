"""C08 — keys and signatures: serialisation is lossless, sign/verify is sound, raw<->DER ECDSA
conversion is lossless (DESIGN §9; engine E1/E6: full products over the committed fixture pool).

Groups of cases (one forked worker call per case; `g` selects the group):

  cv  ECDSA encoding conversion: every (len r, msb r, len s, msb s) shape class of every curve
      through ECDSASignature.parse/export/get_encoding, the constructor, serialize_signature and
      SignatureProvider.get_signature (a stub provider returning the crafted bytes).
  rt  key round trip: every pool key x {private, public} x {PEM, DER, NXP(, NXP with 4-byte
      exponent)} x password {none, "p", 32 chars} x entry point {type-specific parse, PrivateKey/
      PublicKey.parse, extract_public_key_from_data, save/load through a file, wrong-type parse}.
  ct  certificates as a public-key container (Certificate.parse / extract_public_key_from_data) and
      Certificate.validate over the fixture chains.
  sv  sign/verify: every key x hash x {PKCS1v15, PSS | raw, DER} x prehashed x message length;
      SPSDK signs, SPSDK and the reference verify; wrong key, wrong hash/padding, all single-bit
      message flips for short messages, digest flips; reference-made signatures must verify under
      SPSDK; the key's default algorithm; PlainFileSP.get_signature x requested encoding.
  fl  single-bit flips of a (reference-made, deterministic) signature: SPSDK's verdict must equal
      the reference verdict for every flipped bit.
  sh  valid ECDSA signatures with *chosen shapes*: with the fixture's private scalar, a nonce k and
      a freely chosen digest (prehashed mode) every byte-length class of s (and three classes of
      r) is a genuine signature; plus message-mode signatures whose s lost one / two leading bytes
      (found by walking counter messages); raw and DER must verify under SPSDK.
  sp  signature providers built from password-protected key files (pass-phrase given / typed at the
      prompt through a harness seam) x route x hash x padding: must sign like the unencrypted key.
  km  key-matching helpers of spsdk/crypto/utils.py over every ordered list of one key per family.
  rg  data regions (-r) of nxpcrypto signature create/verify: every documented form, singly and in pairs.
  cl  the nxpcrypto command line on every key: key convert (PEM/DER/RAW, --puk, RAW read back),
      key verify, signature create/verify (hash given or default, NXP/DER, PSS, encrypted key).

Oracle: fixture numbers (JSON written by tools/mkfixtures.py with `cryptography`, never by SPSDK),
vf/ref/der.py, vf/ref/ecdsa.py, vf/ref/rsa.py, and the `openssl` command line for decrypting
password-protected PKCS#8.  Signature bytes are never compared, only verified.
"""
from __future__ import annotations

import hashlib
import os
import shutil
import subprocess
import tempfile
from typing import Any, Optional

from vf import core, fixtures
from vf.ref import der as rder
from vf.ref import ecdsa as recdsa
from vf.ref import rsa as rrsa

LEVEL = "exploration"

HASHES = ("sha1", "sha256", "sha384", "sha512")
MSG_LENS = (0, 1, 8, 55, 56, 64, 1000)  # quick: DESIGN §9 alphabet (+ 8 B for the exhaustive message flips)
# thorough: both sides of the SHA-1/256 (64 B block, 55/56 padding edge) and SHA-384/512 (128 B block, 111/112) boundaries
MSG_LENS_THOROUGH = (0, 1, 2, 8, 31, 32, 33, 55, 56, 57, 63, 64, 65, 111, 112, 113, 119, 120, 127, 128, 129, 1000, 4096, 65537)
PASSWORDS = {"none": None, "p": "p", "p32": "Pw-0123456789+abcdefghijklmnop\u00e9!"}  # 32 chars, 33 UTF-8 bytes
assert len(PASSWORDS["p32"]) == 32
WIDTHS = (32, 48, 66)
DEFAULT_HASH = {"secp256r1": "sha256", "secp384r1": "sha384", "secp521r1": "sha512", "rsa": "sha256"}
FLIP_CHUNK = 128  # signature bits per `fl` case

# ---------------------------------------------------------------------------------------------
# fixture access (harness side)

_IDX: Optional[dict] = None
_CKEYS: dict = {}
_OPENSSL = shutil.which("openssl")


def idx() -> dict:
    global _IDX
    if _IDX is None:
        raw = fixtures.key_index()
        out = {}
        for name, k in raw.items():
            k = dict(k)
            for f in ("n", "d", "x", "y"):
                if f in k:
                    k[f] = int(k[f], 16)
            out[name] = k
        out.update(derived_keys())
        _IDX = out
    return _IDX


SNIFF_BYTES = (0x30, 0x2D, 0x04, 0x00, 0x80)  # DER SEQUENCE, '-', uncompressed-point tag, zero, sign bit
_DERIVED: Optional[dict] = None


def derived_keys() -> dict:
    """Extra ECC keys (not in the committed pool) whose X, and separately whose Y, starts with each byte that a
    format sniffer could key on: name p256_x30, p384_y2d, ...  Found by walking d = 1, 2, ... with the own affine
    arithmetic (deterministic, no entropy; ~1/256 per step and target), so the expected numbers do not come from
    `cryptography`; the object under test is built from d by ec.derive_private_key.  P-521 is left out: the top
    byte of a 66-byte coordinate is 0 or 1."""
    global _DERIVED
    if _DERIVED is None:
        out: dict = {}
        for prefix, c in (("p256", recdsa.P256), ("p384", recdsa.P384)):
            want = {(coord, b) for coord in "xy" for b in SNIFF_BYTES}
            pt = None
            d = 0
            while want and d < 50000:
                d += 1
                pt = recdsa.affine_add(c, pt, c.g)
                for coord, val in (("x", pt[0]), ("y", pt[1])):
                    top = val >> (8 * (c.size - 1))
                    if (coord, top) in want:
                        want.discard((coord, top))
                        out[f"{prefix}_{coord}{top:02x}"] = {"type": "ecc", "curve": c.name, "bits": c.nbits, "d": d,
                                                            "x": pt[0], "y": pt[1], "derived": True}
            if want:
                raise core.HarnessError(f"no scalar found for {sorted(want)} on {c.name}")
        _DERIVED = out
    return _DERIVED


def key_names(kind: Optional[str] = None, derived: bool = False) -> list[str]:
    """kind: None | 'rsa' | 'ecc' | curve name | 'rsa2048'...; the committed pool, or (derived=True) the derived keys"""
    out = []
    for name, k in sorted(idx().items()):
        if bool(k.get("derived")) != derived:
            continue
        if kind is None or k["type"] == kind or k.get("curve") == kind or name.startswith(str(kind) + "_"):
            out.append(name)
    return out


def family(name: str) -> str:
    """Keys that can stand in for each other as 'wrong key of the same type and size'."""
    return name.rsplit("_", 1)[0]


def ckey(name: str):
    """`cryptography` private key object built from the fixture DER (only used to *construct* the
    SPSDK object under test through its plain constructor; RSA consistency check skipped for speed)."""
    if name not in _CKEYS and idx()[name].get("derived"):
        from cryptography.hazmat.primitives.asymmetric import ec

        k = idx()[name]
        _CKEYS[name] = ec.derive_private_key(k["d"], {"secp256r1": ec.SECP256R1, "secp384r1": ec.SECP384R1}[k["curve"]]())
    if name not in _CKEYS:
        from cryptography.hazmat.primitives.serialization import load_der_private_key

        _CKEYS[name] = load_der_private_key(fixtures.read(f"keys/{name}.der"), None,
                                            unsafe_skip_rsa_key_validation=True)
    return _CKEYS[name]


def spsdk_priv(name: str):
    from spsdk.crypto.keys import PrivateKeyEcc, PrivateKeyRsa

    return (PrivateKeyRsa if idx()[name]["type"] == "rsa" else PrivateKeyEcc)(ckey(name))


def pub_numbers_expected(name: str) -> dict:
    k = idx()[name]
    if k["type"] == "rsa":
        return {"type": "rsa", "n": k["n"], "e": k["e"]}
    return {"type": "ecc", "curve": k["curve"], "x": k["x"], "y": k["y"]}


def pub_numbers_got(pub: Any) -> dict:
    """Numbers of an SPSDK public key read through SPSDK's own accessors."""
    from spsdk.crypto.keys import PublicKeyEcc, PublicKeyRsa

    if isinstance(pub, PublicKeyRsa):
        return {"type": "rsa", "n": pub.n, "e": pub.e}
    if isinstance(pub, PublicKeyEcc):
        return {"type": "ecc", "curve": str(pub.curve.value), "x": pub.x, "y": pub.y}
    return {"type": type(pub).__name__}


def priv_numbers_got(prv: Any) -> dict:
    from spsdk.crypto.keys import PrivateKeyEcc, PrivateKeyRsa

    if isinstance(prv, PrivateKeyRsa):
        pn = prv.key.private_numbers()
        return {"type": "rsa", "d": pn.d, "pq": pn.p * pn.q, **{k: v for k, v in pub_numbers_got(prv.get_public_key()).items() if k != "type"}}
    if isinstance(prv, PrivateKeyEcc):
        return {"type": "ecc", "d": prv.d, **{k: v for k, v in pub_numbers_got(prv.get_public_key()).items() if k != "type"}}
    return {"type": type(prv).__name__}


def priv_numbers_expected(name: str) -> dict:
    k = idx()[name]
    if k["type"] == "rsa":
        return {"type": "rsa", "d": k["d"], "pq": k["n"], "n": k["n"], "e": k["e"]}
    return {"type": "ecc", "d": k["d"], "curve": k["curve"], "x": k["x"], "y": k["y"]}


def henum(h: str):
    from spsdk.crypto.hash import EnumHashAlgorithm

    return EnumHashAlgorithm.from_label(h)


def call(fn, *a, **k):
    """('ok', value) | ('spsdk', message) | ('<ExceptionType>', message)"""
    from spsdk.exceptions import SPSDKError

    try:
        return "ok", fn(*a, **k)
    except SPSDKError as e:
        return "spsdk", str(e)[:200]
    except core.Watchdog:
        raise
    except Exception as e:  # noqa
        return type(e).__name__, str(e)[:200]


def flip(data: bytes, bit: int) -> bytes:
    b = bytearray(data)
    b[bit // 8] ^= 0x80 >> (bit % 8)
    return bytes(b)


def byte_len(v: int) -> int:
    return max(1, (v.bit_length() + 7) // 8)


# ---------------------------------------------------------------------------------------------
# group cv: ECDSA encoding conversion over all shape classes


def shaped_int(seed: int, tag: str, ln: int, msb: int, curve: recdsa.Curve) -> Optional[int]:
    """An integer in [1, n-1] whose big-endian form has exactly `ln` bytes and whose leading byte has
    top bit `msb`; content from the seed.  None when the class is empty for the curve."""
    body = bytearray(core.seeded_bytes(seed, tag, ln))
    lead = body[0]
    if curve.size == 66 and ln == 66:
        if msb:
            return None  # a 66-byte P-521 value starts with 0x00 or 0x01
        lead = 0x01
        if ln > 1:
            body[1] &= 0x7F  # stay below n = 0x01ff..fa51..
    elif msb:
        lead = 0x80 | (lead & 0x3F)  # 0x80..0xbf: below n also at full length (n starts 0xffffffff)
    else:
        lead = (lead & 0x7F) or 0x01
    body[0] = lead
    v = int.from_bytes(body, "big")
    assert 1 <= v < curve.n and byte_len(v) == ln and (body[0] >> 7) == msb
    return v


def raw_sig(r: int, s: int, size: int) -> bytes:
    return r.to_bytes(size, "big") + s.to_bytes(size, "big")


def judge_raw_out(out: bytes, r: int, s: int, size: int) -> Optional[str]:
    """Is `out` a lossless fixed-width form of (r, s)?  The curve of a bare DER signature is only
    determined when a value needs the curve's width; for smaller values any supported width that
    holds both values is accepted (nothing is lost)."""
    need = max(byte_len(r), byte_len(s))
    wmin = min(w for w in WIDTHS if w >= need)
    if len(out) % 2 or len(out) // 2 not in WIDTHS:
        return "not-a-raw-width"
    w = len(out) // 2
    if (int.from_bytes(out[:w], "big"), int.from_bytes(out[w:], "big")) != (r, s):
        return "wrong-rs"
    if wmin == size and w != size:
        return "wrong-width"
    return None


def der_len_class(ln: int, size: int) -> str:
    """Where the length of a DER ECDSA signature lies relative to the byte lengths the implementation could key on:
    the fixed raw widths 2*cs (and 2*cs+1, which integer division maps to the same width), the window
    2*cs+3 .. 2*cs+8 of full-size DER signatures of the signature's own curve, the same window of another supported
    curve, or none of these.  The classes are disjoint (raw widths 64/96/132, windows 67-72 / 99-104 / 135-140)."""
    for w in WIDTHS:
        if ln == 2 * w:
            return "len-is-a-raw-width"
        if ln == 2 * w + 1:
            return "len-is-a-raw-width+1"
    if 2 * size + 3 <= ln <= 2 * size + 8:
        return "len-in-own-curve-window"
    for w in WIDTHS:
        if w != size and 2 * w + 3 <= ln <= 2 * w + 8:
            return "len-in-other-curve-window"
    return "len-in-no-window"


def w_conv(case: dict) -> dict:
    from spsdk.crypto.crypto_types import SPSDKEncoding
    from spsdk.crypto.keys import ECDSASignature, EccCurve, KeyEccCommon
    from spsdk.crypto.signature_provider import SignatureProvider

    class StubSP(SignatureProvider):
        """Stands for a plugin/HSM provider: returns the prepared bytes."""
        identifier = "verif-stub-c08"

        def __init__(self, sig: bytes, length: int) -> None:
            self.sig = sig
            self.length = length

        def sign(self, data: bytes) -> bytes:
            return self.sig

        @property
        def signature_length(self) -> int:
            return self.length

    c = recdsa.CURVES[case["curve"]]
    size = c.size
    lr = case["lr"]
    seed = case["seed"]
    viol: list = []
    cnt = {"cv_classes": 0, "cv_classes_empty": 0, "cv_calls": 0, "cv_ambiguous_width": 0}

    def v(clause: str, disc: str, detail: str) -> None:
        viol.append((f"C08.{clause}", disc, detail))

    for mr in (0, 1):
        r = shaped_int(seed, f"r|{c.name}|{lr}|{mr}", lr, mr, c)
        for ls in range(1, size + 1):
            for ms in (0, 1):
                s = shaped_int(seed, f"s|{c.name}|{lr}|{mr}|{ls}|{ms}", ls, ms, c) if r is not None else None
                if r is None or s is None:
                    cnt["cv_classes_empty"] += 1
                    continue
                cnt["cv_classes"] += 1
                R = raw_sig(r, s, size)
                D = rder.encode_ecdsa_sig(r, s)
                amb = max(lr, ls) <= max([w for w in WIDTHS if w < size] or [0])
                cnt["cv_ambiguous_width"] += amb
                tag = f"{c.name} r:{lr}B/msb{mr} s:{ls}B/msb{ms} len(DER)={len(D)}"

                # --- DER input ---------------------------------------------------------------
                # der_fail names what ECDSASignature itself does wrong on this DER input: the observed behaviour plus
                # the class of the DER length (der_len_class), so that two causes with different failure domains can
                # never share a discriminator.  The provider normalisation below inherits it instead of opening a
                # second finding for the same cause.
                cnt["cv_calls"] += 1
                der_fail: Optional[str] = None
                info = ""
                lcls = der_len_class(len(D), size)
                st, enc = call(ECDSASignature.get_encoding, D)
                sniffed_raw = st == "ok" and enc == SPSDKEncoding.NXP
                if st not in ("ok", "spsdk"):
                    der_fail, info = f"get_encoding:{st}", str(enc)
                st, obj = call(ECDSASignature.parse, D)
                if der_fail:
                    pass
                elif st == "spsdk":
                    der_fail, info = ("taken-for-raw+rejected" if sniffed_raw else "rejected"), f"parse: {obj}"
                elif st != "ok":
                    der_fail, info = f"parse:{st}", str(obj)
                elif (obj.r, obj.s) != (r, s):
                    der_fail, info = ("taken-for-raw" if sniffed_raw else "wrong-rs"), f"parsed r={obj.r:#x} s={obj.s:#x}"
                elif sniffed_raw:
                    der_fail, info = "get_encoding-says-raw", "get_encoding says NXP although parse() decodes the DER"
                else:
                    st2, d2 = call(obj.export, SPSDKEncoding.DER)
                    st3, r2 = call(obj.export, SPSDKEncoding.NXP)
                    if st2 != "ok" or d2 != D:
                        der_fail, info = f"reexport-der:{st2 if st2 != 'ok' else 'wrong-bytes'}", repr(d2)
                    elif st3 == "OverflowError":
                        der_fail, info = "curve-too-small", f"curve guessed from the length: {obj.ecc_curve}; export(NXP): {r2}"
                    elif st3 != "ok":
                        der_fail, info = f"export-raw:{'rejected' if st3 == 'spsdk' else st3}", str(r2)
                    else:
                        why = judge_raw_out(r2, r, s, size)
                        if why:
                            der_fail, info = f"export-raw:{why}", r2.hex()
                if der_fail:
                    der_fail = f"{der_fail}:{lcls}"
                    v("ecdsasig-der", der_fail, f"{tag} DER={D.hex()}: {info}")

                # --- raw input ---------------------------------------------------------------
                st, enc = call(ECDSASignature.get_encoding, R)
                if st != "ok" or enc != SPSDKEncoding.NXP:
                    v("ecdsasig-raw", "get_encoding", f"{tag}: {st} {enc}")
                st, obj = call(ECDSASignature.parse, R)
                if st != "ok":
                    v("ecdsasig-raw", f"parse:{'rejected' if st == 'spsdk' else st}", f"{tag}: {obj}")
                else:
                    if (obj.r, obj.s) != (r, s) or str(obj.ecc_curve.value) != c.name:
                        v("ecdsasig-raw", "parse:wrong-rs-or-curve", f"{tag}: {obj.r:#x} {obj.s:#x} {obj.ecc_curve}")
                    st2, r2 = call(obj.export, SPSDKEncoding.NXP)
                    if st2 != "ok" or r2 != R:
                        v("ecdsasig-raw", "reexport-raw", f"{tag}: {st2} {r2!r}")
                    st2, d2 = call(obj.export, SPSDKEncoding.DER)
                    if st2 != "ok" or d2 != D:
                        v("ecdsasig-raw", "export-der", f"{tag}: {st2} {d2!r} expected {D.hex()}")

                # --- constructor, serialize_signature ------------------------------------------
                st, obj = call(ECDSASignature, r, s, EccCurve(c.name))
                if st == "ok":
                    st2, r2 = call(obj.export, SPSDKEncoding.NXP)
                    st3, d2 = call(obj.export, SPSDKEncoding.DER)
                    if (st2, r2, st3, d2) != ("ok", R, "ok", D):
                        v("ecdsasig-ctor", "export", f"{tag}: {st2} {st3}")
                else:
                    v("ecdsasig-ctor", f"ctor:{st}", tag)
                st, r2 = call(KeyEccCommon.serialize_signature, D, size)
                if st != "ok" or r2 != R:
                    v("serialize-signature", st if st != "ok" else "wrong-bytes", f"{tag}: {r2!r}")

                # --- SignatureProvider.get_signature normalisation -----------------------------
                for src_name, src in (("der", D), ("raw", R)):
                    sp = StubSP(src, 2 * size)
                    for want_name, want in (("default", None), ("NXP", SPSDKEncoding.NXP), ("DER", SPSDKEncoding.DER)):
                        cnt["cv_calls"] += 1
                        st, out = call(sp.get_signature, b"data", want)
                        what = f"provider returns {src_name}, requested {want_name}"
                        bad: Optional[str] = None
                        if st != "ok":
                            bad = "rejected" if st == "spsdk" else st
                        elif want_name == "DER":
                            if out != D:
                                bad = "der-out:" + ("got-raw" if out == R else "wrong-bytes")
                        else:
                            why = judge_raw_out(out, r, s, size)
                            if why:
                                bad = "raw-out:" + ("got-der" if out == D else why)
                        if bad is None:
                            continue
                        if src_name == "der" and der_fail:
                            cnt["cv_sp_failures_inherited_from_ecdsasig"] = cnt.get("cv_sp_failures_inherited_from_ecdsasig", 0) + 1
                            continue
                        v("sp-normalise", f"{src_name}-in:{bad}", f"{tag}; {what}: got {out.hex() if st == 'ok' else out}")
    return {"viol": core.dedupe(viol), "count": cnt}


# ---------------------------------------------------------------------------------------------
# group rt: key round trips


def decrypt_pkcs8(data: bytes, enc: str, pw: str) -> bytes:
    """Password-protected PKCS#8 -> plain PKCS#8 DER, by the openssl command line (an implementation
    that shares nothing with SPSDK); falls back to `cryptography` called directly."""
    if _OPENSSL:
        p = subprocess.run([_OPENSSL, "pkcs8", "-topk8", "-nocrypt", "-inform", enc, "-outform", "DER",
                            "-passin", f"pass:{pw}"],
                           input=data, capture_output=True, timeout=60)
        if p.returncode == 0 and p.stdout:
            return p.stdout
        # (openssl's stderr carries thread ids: keep the message stable)
        raise ValueError("openssl pkcs8 cannot open the exported key with the password it was exported with")
    from cryptography.hazmat.primitives import serialization as ser

    load = ser.load_pem_private_key if enc == "PEM" else ser.load_der_private_key
    return load(data, pw.encode()).private_bytes(ser.Encoding.DER, ser.PrivateFormat.PKCS8, ser.NoEncryption())


def oracle_private_bytes(data: bytes, enc: str, pw: Optional[str]) -> dict:
    """Numbers held by an exported private key, read without SPSDK."""
    body = data
    if enc == "PEM":
        label, body = rder.pem_decode(data)
        want = "ENCRYPTED PRIVATE KEY" if pw else "PRIVATE KEY"
        if label != want:
            raise ValueError(f"PEM label {label!r}, expected {want!r}")
    if rder.pkcs8_is_encrypted(body) != bool(pw):
        raise ValueError(f"encrypted={rder.pkcs8_is_encrypted(body)} but password={'yes' if pw else 'no'}")
    if pw:
        body = decrypt_pkcs8(data, enc, pw)
    k = rder.parse_pkcs8(body)
    if k["type"] == "rsa":
        return {"type": "rsa", "d": k["d"], "pq": k["p"] * k["q"], "n": k["n"], "e": k["e"]}
    return {"type": "ecc", "d": k["d"], "curve": k["curve"], "x": k.get("x"), "y": k.get("y")}


def oracle_public_bytes(data: bytes, enc: str, name: str) -> dict:
    k = idx()[name]
    if enc in ("PEM", "DER"):
        body = data
        label = None
        if enc == "PEM":
            label, body = rder.pem_decode(data)
            if label not in ("PUBLIC KEY", "RSA PUBLIC KEY"):
                raise ValueError(f"PEM label {label!r}")
        if label == "RSA PUBLIC KEY":
            return rder.parse_rsa_public_pkcs1(body)
        try:
            return rder.parse_spki(body)
        except rder.DerError:
            if k["type"] == "rsa" and label is None:
                return rder.parse_rsa_public_pkcs1(body)
            raise
    # NXP raw: ECC X||Y at coordinate width; RSA modulus||exponent (big endian)
    if k["type"] == "ecc":
        size = recdsa.CURVES[k["curve"]].size
        if len(data) != 2 * size:
            raise ValueError(f"raw ECC key of {len(data)} bytes")
        return {"type": "ecc", "curve": k["curve"], "x": int.from_bytes(data[:size], "big"),
                "y": int.from_bytes(data[size:], "big")}
    nlen = k["bits"] // 8
    elen = 4 if enc == "NXP4" else 3
    if len(data) != nlen + elen:
        raise ValueError(f"raw RSA key of {len(data)} bytes, expected {nlen}+{elen}")
    return {"type": "rsa", "n": int.from_bytes(data[:nlen], "big"), "e": int.from_bytes(data[nlen:], "big")}


def other_key(name: str, same_family: bool = True) -> str:
    """Deterministic 'wrong key': next key of the same family, or the first key of another family of the same type."""
    k = idx()[name]
    if k.get("derived"):
        return key_names(k["curve"])[0] if same_family else key_names("secp521r1")[0]
    if same_family:
        fam = [n for n in key_names() if family(n) == family(name) or
               (k["type"] == "ecc" and idx()[n].get("curve") == k["curve"])]
        fam = sorted(set(fam))
        return fam[(fam.index(name) + 1) % len(fam)]
    for n in key_names(k["type"]):
        if (k["type"] == "rsa" and idx()[n]["bits"] != k["bits"]) or (k["type"] == "ecc" and idx()[n]["curve"] != k["curve"]):
            return n
    raise AssertionError


def w_roundtrip(case: dict) -> dict:
    from spsdk.crypto.crypto_types import SPSDKEncoding
    from spsdk.crypto.keys import PrivateKey, PrivateKeyEcc, PrivateKeyRsa, PublicKey, PublicKeyEcc, PublicKeyRsa
    from spsdk.crypto.utils import extract_public_key_from_data

    name, kind, enc, pwn = case["key"], case["kind"], case["enc"], case["pw"]
    pw = PASSWORDS[pwn]
    k = idx()[name]
    typ = k["type"]
    viol: list = []
    cnt = {"rt_entry_points": 0, "rt_rejected_exports": 0}
    distinct: list = []
    E = {"PEM": SPSDKEncoding.PEM, "DER": SPSDKEncoding.DER, "NXP": SPSDKEncoding.NXP, "NXP4": SPSDKEncoding.NXP}[enc]
    src = spsdk_priv(name)
    other = spsdk_priv(other_key(name))
    where = f"{typ}/{kind}/{enc}" + (f"/pw-{'yes' if pw else 'no'}" if kind == "priv" else "")

    def v(clause: str, disc: str, detail: str) -> None:
        viol.append((f"C08.{clause}", disc, f"{name} {enc} pw={pwn}: {detail}"))

    # One defect shows through several entry points of the same case: failures are collected per
    # (clause, symptom) and reported once, with the set of entry points in the discriminator.
    agg: dict = {}
    tried: dict = {}

    def note(clause: str, ep: str, symptom: Optional[str], detail: str = "") -> None:
        tried.setdefault(clause, []).append(ep)
        if symptom:
            agg.setdefault((clause, symptom), []).append((ep, detail))

    def cmp(ep: str, got: dict, exp: dict, clause: str) -> None:
        cnt["rt_entry_points"] += 1
        distinct.append(f"rt|{name}|{kind}|{enc}|{pwn}|{ep}")
        if got != exp:
            bad = sorted(f for f in set(got) | set(exp) if got.get(f) != exp.get(f))
            note(clause, ep, f"wrong-{'+'.join(bad)}", f"got {core.jdump(got)[:300]} expected {core.jdump(exp)[:300]}")
        else:
            note(clause, ep, None)

    def outcome(ep: str, st: str, val: Any, clause: str) -> bool:
        if st == "ok":
            return True
        cnt["rt_entry_points"] += 1
        note(clause, ep, "parse-rejected" if st == "spsdk" else st, str(val))
        return False

    def result() -> dict:
        for (clause, symptom), eps in sorted(agg.items()):
            names = sorted({e for e, _ in eps})
            all_eps = sorted(set(tried.get(clause, [])))
            which = "every-entry-point" if names == all_eps and len(names) > 1 else "+".join(names)
            v(clause, f"{where}:{symptom}@{which}", "; ".join(f"{e}: {d}" for e, d in eps)[:1200])
        return {"viol": core.dedupe(viol), "count": cnt, "distinct": distinct}

    tmpdir = tempfile.mkdtemp(prefix="c08-", dir=os.environ.get("VERIF_WORKDIR") or None)
    try:
        if kind == "priv":
            exp = priv_numbers_expected(name)
            expub = pub_numbers_expected(name)
            cls, wrong_cls = (PrivateKeyRsa, PrivateKeyEcc) if typ == "rsa" else (PrivateKeyEcc, PrivateKeyRsa)
            # the object under test really holds the fixture numbers (constructor + accessors)
            cmp("ctor", priv_numbers_got(src), exp, "roundtrip-priv")
            st, data = call(src.export, password=pw, encoding=E)
            if st == "spsdk":
                cnt["rt_rejected_exports"] += 1
                return result()
            if st != "ok":
                v("export-priv", f"{where}:{st}", str(data))
                return result()
            try:
                o = oracle_private_bytes(data, enc, pw)
                if o["type"] == "ecc" and o.get("x") is None:
                    o["x"], o["y"] = exp.get("x"), exp.get("y")  # optional publicKey field absent
                cmp("exported-bytes", o, exp, "export-priv")
            except (ValueError, rder.DerError) as e:
                v("export-priv", f"{where}:not-readable-by-oracle", f"{type(e).__name__}: {e}")
            st, got = call(cls.parse, data, password=pw)
            if outcome("typed-parse", st, got, "roundtrip-priv"):
                cmp("typed-parse", priv_numbers_got(got), exp, "roundtrip-priv")
                st, eq = call(lambda: (got == src, got == other, got.verify_public_key(src.get_public_key()),
                                       got.verify_public_key(other.get_public_key())))
                if st != "ok" or tuple(bool(x) for x in eq) != (True, False, True, False):
                    v("key-equality", f"{typ}/priv", f"== / verify_public_key disagree with the numbers: {st} {eq}")
            st, got = call(PrivateKey.parse, data, password=pw)
            if outcome("auto-parse", st, got, "roundtrip-priv"):
                cmp("auto-parse", priv_numbers_got(got), exp, "roundtrip-priv")
                if type(got) is not cls:
                    v("roundtrip-priv", f"{where}/auto-parse:wrong-class", type(got).__name__)
            st, got = call(extract_public_key_from_data, data, password=pw)
            if outcome("extract-public", st, got, "roundtrip-priv"):
                cmp("extract-public", pub_numbers_got(got), expub, "roundtrip-priv")
            path = os.path.join(tmpdir, f"k.{enc.lower()}")
            st, got = call(src.save, path, password=pw, encoding=E)
            if outcome("file-save", st, got, "roundtrip-priv"):
                fdata = open(path, "rb").read()
                if not pw and fdata != data:
                    v("roundtrip-priv", f"{where}/file-save:bytes-differ-from-export", "")
                try:
                    o = oracle_private_bytes(fdata, enc, pw)
                    if o["type"] == "ecc" and o.get("x") is None:
                        o["x"], o["y"] = exp.get("x"), exp.get("y")
                    cmp("file-bytes", o, exp, "export-priv")
                except (ValueError, rder.DerError) as e:
                    v("export-priv", f"{where}:not-readable-by-oracle", f"{type(e).__name__}: {e}")
                for ep, loader in (("file-load-auto", PrivateKey.load), ("file-load-typed", cls.load)):
                    st, got = call(loader, path, password=pw)
                    if outcome(ep, st, got, "roundtrip-priv"):
                        cmp(ep, priv_numbers_got(got), exp, "roundtrip-priv")
            # the other type's parser must refuse, not hand out something
            st, got = call(wrong_cls.parse, data, password=pw)
            cnt["rt_entry_points"] += 1
            if st != "spsdk":
                v("parse-type-confusion", f"{where}:{st}", f"{wrong_cls.__name__}.parse -> {got!r}")
            # password is really needed / really checked
            if pw:
                for ep, bad in (("no-password", None), ("wrong-password", pw + "x")):
                    st, got = call(PrivateKey.parse, data, password=bad)
                    cnt["rt_entry_points"] += 1
                    if st == "ok":
                        v("password-not-checked", f"{where}:{ep}", repr(got))
        else:
            exp = pub_numbers_expected(name)
            cls, wrong_cls = (PublicKeyRsa, PublicKeyEcc) if typ == "rsa" else (PublicKeyEcc, PublicKeyRsa)
            spub = src.get_public_key()
            cmp("get_public_key", pub_numbers_got(spub), exp, "roundtrip-pub")
            if enc == "NXP4":
                st, data = call(spub.export, encoding=E, exp_length=4)
            else:
                st, data = call(spub.export, encoding=E)
            if st == "spsdk":
                cnt["rt_rejected_exports"] += 1
                return result()
            if st != "ok":
                v("export-pub", f"{where}:{st}", str(data))
                return result()
            try:
                cmp("exported-bytes", oracle_public_bytes(data, enc, name), exp, "export-pub")
            except (ValueError, rder.DerError) as e:
                v("export-pub", f"{where}:not-readable-by-oracle", f"{type(e).__name__}: {e}")
            # recreate from numbers / raw data
            if typ == "ecc":
                from spsdk.crypto.keys import EccCurve

                st, got = call(PublicKeyEcc.recreate, k["x"], k["y"], EccCurve(k["curve"]))
                if outcome("recreate", st, got, "roundtrip-pub"):
                    cmp("recreate", pub_numbers_got(got), exp, "roundtrip-pub")
                if enc == "NXP":
                    for ep, kw in (("recreate_from_data", {}), ("recreate_from_data+curve", {"curve": EccCurve(k["curve"])})):
                        st, got = call(PublicKeyEcc.recreate_from_data, data, **kw)
                        if outcome(ep, st, got, "roundtrip-pub"):
                            cmp(ep, pub_numbers_got(got), exp, "roundtrip-pub")
            else:
                st, got = call(PublicKeyRsa.recreate, k["e"], k["n"])
                if outcome("recreate", st, got, "roundtrip-pub"):
                    cmp("recreate", pub_numbers_got(got), exp, "roundtrip-pub")
                if enc in ("NXP", "NXP4"):
                    st, got = call(PublicKeyRsa.recreate_from_data, data)
                    if outcome("recreate_from_data", st, got, "roundtrip-pub"):
                        cmp("recreate_from_data", pub_numbers_got(got), exp, "roundtrip-pub")
            st, got = call(cls.parse, data)
            if outcome("typed-parse", st, got, "roundtrip-pub"):
                cmp("typed-parse", pub_numbers_got(got), exp, "roundtrip-pub")
                st, eq = call(lambda: (got == spub, got == other.get_public_key()))
                if st != "ok" or tuple(bool(x) for x in eq) != (True, False):
                    v("key-equality", f"{typ}/pub", f"== disagrees with the numbers: {st} {eq}")
            st, got = call(PublicKey.parse, data)
            if outcome("auto-parse", st, got, "roundtrip-pub"):
                cmp("auto-parse", pub_numbers_got(got), exp, "roundtrip-pub")
            st, got = call(extract_public_key_from_data, data)
            if outcome("extract-public", st, got, "roundtrip-pub"):
                cmp("extract-public", pub_numbers_got(got), exp, "roundtrip-pub")
            if enc != "NXP4":
                path = os.path.join(tmpdir, f"k.pub.{enc.lower()}")
                st, got = call(spub.save, path, encoding=E)
                if outcome("file-save", st, got, "roundtrip-pub"):
                    if open(path, "rb").read() != data:
                        v("roundtrip-pub", f"{where}/file-save:bytes-differ-from-export", "")
                    for ep, loader in (("file-load-auto", PublicKey.load), ("file-load-typed", cls.load)):
                        st, got = call(loader, path)
                        if outcome(ep, st, got, "roundtrip-pub"):
                            cmp(ep, pub_numbers_got(got), exp, "roundtrip-pub")
            st, got = call(wrong_cls.parse, data)
            cnt["rt_entry_points"] += 1
            if st != "spsdk":
                v("parse-type-confusion", f"{where}:{st}", f"{wrong_cls.__name__}.parse -> {got!r}")
    finally:
        shutil.rmtree(tmpdir, ignore_errors=True)
    return result()


# ---------------------------------------------------------------------------------------------
# group ct: certificates


def ref_verify_cert(cert_der: bytes, issuer_pub: dict) -> bool:
    """Does the issuer's key (fixture numbers) verify the certificate's signature?  Own DER split + own verify."""
    c = rder.parse_certificate(cert_der)
    alg, h = c["sig_alg"]
    dg = hashlib.new(h, c["tbs"]).digest()
    if alg == "rsa":
        return issuer_pub["type"] == "rsa" and rrsa.verify_pkcs1_v15(issuer_pub["n"], issuer_pub["e"], h, dg, c["signature"])
    if issuer_pub["type"] != "ecc":
        return False
    return recdsa.verify_sig(recdsa.CURVES[issuer_pub["curve"]], (issuer_pub["x"], issuer_pub["y"]), dg, c["signature"], "der")


def cert_table() -> list[dict]:
    """[{cert: relname, key: subject key, issuer_cert, issuer_key}] from the fixture indexes."""
    out = []
    for name in key_names("ecc"):
        out.append({"cert": f"certs/{name}_selfsigned", "key": name, "issuer_cert": f"certs/{name}_selfsigned", "issuer_key": name})
    for root, ent in sorted(fixtures.cert_index().items()):
        bits = root.split("_")[0]
        r = int(root[-1])
        ks = [f"{bits}_{(r + j) % 4}" for j in range(4)]  # tools/mkfixtures.py: root, im1, im2, leaf keys
        out.append({"cert": f"certs/{root}_ca", "key": ks[0], "issuer_cert": f"certs/{root}_ca", "issuer_key": ks[0]})
        out.append({"cert": f"certs/{root}_nonca", "key": ks[0], "issuer_cert": f"certs/{root}_nonca", "issuer_key": ks[0]})
        out.append({"cert": f"certs/{root}_d2_leaf", "key": ks[1], "issuer_cert": f"certs/{root}_ca", "issuer_key": ks[0]})
        out.append({"cert": f"certs/{root}_im1", "key": ks[1], "issuer_cert": f"certs/{root}_ca", "issuer_key": ks[0]})
        out.append({"cert": f"certs/{root}_d3_leaf", "key": ks[2], "issuer_cert": f"certs/{root}_im1", "issuer_key": ks[1]})
        out.append({"cert": f"certs/{root}_im2", "key": ks[2], "issuer_cert": f"certs/{root}_im1", "issuer_key": ks[1]})
        out.append({"cert": f"certs/{root}_d4_leaf", "key": ks[3], "issuer_cert": f"certs/{root}_im2", "issuer_key": ks[2]})
    return out


def w_cert(case: dict) -> dict:
    from spsdk.crypto.certificate import Certificate
    from spsdk.crypto.crypto_types import SPSDKEncoding
    from spsdk.crypto.utils import extract_public_key_from_data

    viol: list = []
    cnt = {"ct_parses": 0, "ct_validations": 0}
    distinct: list = []
    exp = pub_numbers_expected(case["key"])
    der_bytes = fixtures.read(case["cert"] + ".der")
    pem_bytes = fixtures.read(case["cert"] + ".pem")
    typ = exp["type"]

    def v(clause: str, disc: str, detail: str) -> None:
        viol.append((f"C08.{clause}", disc, f"{case['cert']}: {detail}"))

    # the oracle's own reading of the certificate agrees with the fixture index
    own = rder.parse_certificate(der_bytes)
    own_pub = {k: vv for k, vv in own["spki"].items()}
    if own_pub != exp:
        raise core.HarnessError(f"fixture index and certificate {case['cert']} disagree")
    st, cobj = call(Certificate.parse, der_bytes)
    forms = [("DER", der_bytes), ("PEM", pem_bytes)]
    if st == "ok":
        st2, padded = call(cobj.export, SPSDKEncoding.NXP)
        if st2 == "ok":
            if padded[:len(der_bytes)] != der_bytes or any(padded[len(der_bytes):]) or len(padded) % 4:
                v("cert-export", f"{typ}:NXP-padding", f"{len(padded)} bytes")
            forms.append(("NXP", padded))
        for e2, want in ((SPSDKEncoding.DER, der_bytes), (SPSDKEncoding.PEM, pem_bytes)):
            st2, out = call(cobj.export, e2)
            if st2 != "ok" or out != want:
                v("cert-export", f"{typ}:{e2.value}", f"{st2}")
    for form, data in forms:
        for ep, fn in (("Certificate.parse", lambda d: Certificate.parse(d).get_public_key()),
                       ("extract-public", extract_public_key_from_data)):
            cnt["ct_parses"] += 1
            distinct.append(f"ct|{case['cert']}|{form}|{ep}")
            st, got = call(fn, data)
            if st != "ok":
                v("roundtrip-pub", f"{typ}/cert/{form}/{ep}:{'parse-rejected' if st == 'spsdk' else st}", str(got))
            elif pub_numbers_got(got) != exp:
                v("roundtrip-pub", f"{typ}/cert/{form}/{ep}:wrong-numbers", core.jdump(pub_numbers_got(got))[:300])
    # signature validation against the right and two wrong issuers
    st, cobj = call(Certificate.parse, der_bytes)
    if st == "ok":
        issuers = [(case["issuer_cert"], case["issuer_key"])]
        tab = cert_table()
        me = [i for i, t in enumerate(tab) if t["cert"] == case["cert"]][0]
        for off in (1, 7):
            t = tab[(me + off) % len(tab)]
            issuers.append((t["cert"], t["key"]))
        for icert, ikey in issuers:
            st, iobj = call(Certificate.parse, fixtures.read(icert + ".der"))
            if st != "ok":
                continue
            cnt["ct_validations"] += 1
            distinct.append(f"ct|{case['cert']}|validate|{icert}")
            want = ref_verify_cert(der_bytes, pub_numbers_expected(ikey))
            if (icert == case["issuer_cert"]) and not want:
                raise core.HarnessError(f"reference does not verify {case['cert']} under its issuer {icert}")
            for ep, fn in (("validate", lambda: cobj.validate(iobj)), ("validate_subject", lambda: iobj.validate_subject(cobj))):
                st, got = call(fn)
                if st != "ok":
                    if want:
                        v("cert-validate", f"{typ}:{ep}:{st}", f"issuer {icert}: {got}")
                elif bool(got) != want:
                    v("cert-validate", f"{typ}:{ep}:{'rejects-valid' if want else 'accepts-invalid'}", f"issuer {icert}")
    return {"viol": core.dedupe(viol), "count": cnt, "distinct": distinct}


# ---------------------------------------------------------------------------------------------
# reference signers (deterministic; construct oracle inputs)


_CRT: dict = {}


def rsa_crt(name: str) -> tuple:
    """(p, q, dp, dq, qinv) read from the fixture's PKCS#8 file with the own DER reader, checked against the index."""
    if name not in _CRT:
        k = rder.parse_pkcs8(fixtures.read(f"keys/{name}.der"))
        i = idx()[name]
        assert k["p"] * k["q"] == i["n"] and k["d"] == i["d"] and k["dp"] == k["d"] % (k["p"] - 1) \
            and k["dq"] == k["d"] % (k["q"] - 1) and k["qi"] * k["q"] % k["p"] == 1
        _CRT[name] = (k["p"], k["q"], k["dp"], k["dq"], k["qi"])
    return _CRT[name]


def ref_sign(name: str, h: str, scheme: str, digest: bytes, seed: int, tag: str) -> bytes:
    k = idx()[name]
    if k["type"] == "rsa":
        salt = core.seeded_bytes(seed, f"salt|{tag}", rrsa.hlen(h)) if scheme == "pss" else b""
        return rrsa.sign(k["n"], k["d"], h, digest, scheme == "pss", salt, crt=rsa_crt(name))
    c = recdsa.CURVES[k["curve"]]
    i = 0
    while True:
        nonce = int.from_bytes(core.seeded_bytes(seed, f"k|{tag}|{i}", c.size + 8), "big") % (c.n - 1) + 1
        rs = recdsa.sign_digest(c, k["d"], nonce, digest)
        if rs:
            return raw_sig(rs[0], rs[1], c.size) if scheme == "raw" else rder.encode_ecdsa_sig(*rs)
        i += 1


def ref_verify(name: str, h: str, scheme: str, digest: bytes, sig: bytes) -> bool:
    k = idx()[name]
    if k["type"] == "rsa":
        return rrsa.verify(k["n"], k["e"], h, digest, sig, scheme == "pss")
    return recdsa.verify_sig(recdsa.CURVES[k["curve"]], (k["x"], k["y"]), digest, sig, scheme)


def spsdk_kwargs(typ: str, h: str, scheme: str, pre: int, signing: bool) -> dict:
    kw: dict = {"algorithm": henum(h), "prehashed": bool(pre)}
    if typ == "rsa":
        kw["pss_padding"] = scheme == "pss"
    elif signing:
        kw["der_format"] = scheme == "der"
    return kw


def valid_disc(typ: str, scheme: str, got: str, sig: bytes, k: dict) -> str:
    """Discriminator of 'a valid signature is not verified': key type, encoding, SPSDK's answer, and the one
    structural property of the signature bytes the ECC verifier branches on (its length)."""
    d = f"{typ}/{scheme}:{got}"
    if typ == "ecc" and scheme == "der" and len(sig) == 2 * recdsa.CURVES[k["curve"]].size:
        d += ":der-length-equals-raw-length"
    return d


def spsdk_verify(pub: Any, sig: bytes, data: bytes, kw: dict) -> str:
    """'T' | 'F' | 'X:<exception>' — an exception is a refusal to verify, not an acceptance."""
    st, got = call(pub.verify_signature, sig, data, **kw)
    if st == "ok":
        return "T" if got is True else ("F" if got is False else f"X:returned-{got!r}")
    return f"X:{st}"


# ---------------------------------------------------------------------------------------------
# group sv: sign / verify


def w_sign(case: dict) -> dict:
    name, h, scheme, pre, seed = case["key"], case["hash"], case["scheme"], case["pre"], case["seed"]
    k = idx()[name]
    typ = k["type"]
    viol: list = []
    cnt = {"sv_signatures": 0, "sv_verifications": 0, "sv_negative": 0, "sv_sign_rejected": 0}
    distinct: list = []
    aux: dict = {}
    prv = spsdk_priv(name)
    pub = prv.get_public_key()
    kw_s = spsdk_kwargs(typ, h, scheme, pre, True)
    kw_v = spsdk_kwargs(typ, h, scheme, pre, False)
    w_same = other_key(name, True)
    w_diff = other_key(name, False)
    wrong = [(w_same, spsdk_priv(w_same).get_public_key()), (w_diff, spsdk_priv(w_diff).get_public_key())]
    given = case.get("sigs") or {}
    flip_full = case.get("flip8", True)
    flip_max = case.get("flipmax", 8)
    lens = MSG_LENS_THOROUGH if case.get("lens") == "thorough" else MSG_LENS

    def v(clause: str, disc: str, detail: str, L: int, sig: bytes) -> None:
        viol.append((f"C08.{clause}", disc, f"{name} {h} {scheme} pre={pre} len={L}: {detail}"))
        aux[str(L)] = sig

    for L in lens:
        msg = core.seeded_bytes(seed, f"msg|{name}|{h}|{L}", L)
        dg = hashlib.new(h, msg).digest()
        data = dg if pre else msg
        if str(L) in given:
            st, sig = "ok", given[str(L)]
        else:
            st, sig = call(prv.sign, data, **kw_s)
        if st == "spsdk":
            cnt["sv_sign_rejected"] += 1
            continue
        if st != "ok":
            viol.append(("C08.sign", f"{typ}/{scheme}:{st}", f"{name} {h} pre={pre} len={L}: {sig}"))
            continue
        cnt["sv_signatures"] += 1
        distinct.append(f"sv|{name}|{h}|{scheme}|{pre}|{L}")
        # format
        if typ == "rsa":
            fmt_ok = len(sig) == k["bits"] // 8
        elif scheme == "raw":
            fmt_ok = len(sig) == 2 * recdsa.CURVES[k["curve"]].size
        else:
            fmt_ok = recdsa.split_der(sig) is not None
        if not fmt_ok:
            # everything below presupposes a signature of the requested form
            v("sign-format", f"{typ}/{scheme}", f"{len(sig)} bytes {sig[:8].hex()}..", L, sig)
            continue
        # positive: both verifiers
        cnt["sv_verifications"] += 2
        got = spsdk_verify(pub, sig, data, kw_v)
        if got != "T":
            v("verify-valid-signature", valid_disc(typ, scheme, got, sig, k), "SPSDK does not verify what it signed", L, sig)
        if not ref_verify(name, h, scheme, dg, sig):
            v("sign-ref-verify", f"{typ}/{scheme}", "reference implementation does not verify SPSDK's signature", L, sig)
        # algorithm left to the key's default (sha256 for RSA, by curve size for ECC)
        if L == 1 and not pre and h == DEFAULT_HASH[k.get("curve", "rsa")] and str(L) not in given:
            kw_d = {a: b for a, b in kw_s.items() if a != "algorithm"}
            st, dsig = call(prv.sign, data, **kw_d)
            cnt["sv_signatures"] += 1
            distinct.append(f"sv-default-alg|{name}|{scheme}")
            if st != "ok":
                viol.append(("C08.sign", f"{typ}/{scheme}:default-algorithm:{st}", f"{name}: {dsig}"))
            else:
                got = spsdk_verify(pub, dsig, data, {a: b for a, b in kw_v.items() if a != "algorithm"})
                if got != "T" or not ref_verify(name, h, scheme, dg, dsig):
                    v("default-algorithm", f"{typ}/{scheme}", f"default hash should be {h}: SPSDK verify {got}", L, dsig)
        # reference-made signature must verify under SPSDK
        rsig = ref_sign(name, h, scheme, dg, seed, f"{name}|{h}|{scheme}|{L}")
        if L == lens[0] and not ref_verify(name, h, scheme, dg, rsig):
            raise core.HarnessError("reference signer/verifier disagree")
        cnt["sv_verifications"] += 1
        got = spsdk_verify(pub, rsig, data, kw_v)
        if got != "T":
            v("verify-valid-signature", valid_disc(typ, scheme, got, rsig, k), f"valid reference-made signature {rsig.hex()} not verified", L, rsig)
        # PSS with another salt length (0, maximal) is another parameter set: verdicts must agree with the reference
        if typ == "rsa" and scheme == "pss" and L == 1:
            em_len = (k["n"].bit_length() - 1 + 7) // 8
            for sl in (0, em_len - rrsa.hlen(h) - 2):
                osig = rrsa.sign(k["n"], k["d"], h, dg, True, core.seeded_bytes(seed, f"salt{sl}|{name}|{h}", sl), crt=rsa_crt(name))
                want = ref_verify(name, h, scheme, dg, osig)
                got = spsdk_verify(pub, osig, data, kw_v)
                cnt["sv_negative"] += 1
                if (got == "T") != want:
                    v("verify-agrees-with-reference", f"{typ}/{scheme}:salt-length:{'accepts-invalid' if got == 'T' else 'rejects-valid:' + got}",
                      f"PSS signature with salt length {sl}: reference {want}, SPSDK {got}", L, osig)
        # negatives — verdicts must agree with the reference
        negs = []
        for wname, wpub in wrong:
            negs.append((f"wrong-key", wpub, wname, h, scheme, data, dg, kw_v))
        if not pre:
            h2 = HASHES[(HASHES.index(h) + 1) % len(HASHES)]
            negs.append(("wrong-hash", pub, name, h2, scheme, data, hashlib.new(h2, msg).digest(),
                         spsdk_kwargs(typ, h2, scheme, pre, False)))
        if typ == "rsa":
            s2 = "pss" if scheme == "v15" else "v15"
            negs.append(("wrong-padding", pub, name, h, s2, data, dg, spsdk_kwargs(typ, h, s2, pre, False)))
        if L and (L <= 1 or (L <= flip_max and flip_full)):
            for bit in range(8 * L):
                m2 = flip(msg, bit)
                d2 = hashlib.new(h, m2).digest()
                negs.append(("message-bit-flip", pub, name, h, scheme, d2 if pre else m2, d2, kw_v))
        if L == 0:
            negs.append(("message-extended", pub, name, h, scheme, hashlib.new(h, b"\0").digest() if pre else b"\0",
                         hashlib.new(h, b"\0").digest(), kw_v))
        if pre:
            # the digest itself is the API input here: flip its first, a middle and its last bit
            for bit in (0, 4 * len(dg), 8 * len(dg) - 1):
                d2 = flip(dg, bit)
                negs.append((f"digest-bit-flip", pub, name, h, scheme, d2, d2, kw_v))
        for kindn, vpub, vname, vh, vscheme, vdata, vdg, vkw in negs:
            cnt["sv_negative"] += 1
            want = ref_verify(vname, vh, vscheme, vdg, sig)
            got = spsdk_verify(vpub, sig, vdata, vkw)
            if (got == "T") != want:
                v("verify-agrees-with-reference", f"{typ}/{scheme}:{kindn}:{'accepts-invalid' if got == 'T' else 'rejects-valid:' + got}",
                  f"reference says {want}, SPSDK {got} ({kindn}, key {vname}, {vh}, {vscheme})", L, sig)
    # real signature provider (key file -> PlainFileSP -> get_signature): the CLI's path
    # (RSA: the requested encoding must not matter; done at the default hash only, every load re-validates the key)
    if not pre and (not given or "sp" in given) and (typ == "ecc" or h == DEFAULT_HASH["rsa"]):
        from spsdk.crypto.crypto_types import SPSDKEncoding
        from spsdk.crypto.signature_provider import PlainFileSP

        msg = core.seeded_bytes(seed, f"spmsg|{name}|{h}", 33)
        dg = hashlib.new(h, msg).digest()
        kwargs = {"der_format": True} if scheme == "der" else ({"pss_padding": True} if scheme == "pss" else {})
        st, sp = call(PlainFileSP, fixtures.key_path(name, True, "pem"), hash_alg=henum(h), **kwargs)
        if st != "ok":
            viol.append(("C08.sp-normalise", f"PlainFileSP:{st}", f"{name}: {sp}"))
        for want_name, want in (("default", None), ("NXP", SPSDKEncoding.NXP), ("DER", SPSDKEncoding.DER)) if st == "ok" else ():
            st, out = call(sp.get_signature, msg, want)
            cnt["sv_signatures"] += 1
            distinct.append(f"sv-sp|{name}|{h}|{scheme}|{want_name}")
            out_scheme = scheme if typ == "rsa" else ("der" if want_name == "DER" else "raw")
            if st != "ok":
                viol.append(("C08.sp-normalise", f"PlainFileSP:{'rejected' if st == 'spsdk' else st}", f"{name} {h}: {out}"))
            elif not ref_verify(name, h, out_scheme, dg, out):
                d = f"PlainFileSP:{out_scheme}-out:not-valid"
                if typ == "ecc" and out_scheme == "raw" and ref_verify(name, h, "der", dg, out):
                    d = "PlainFileSP:raw-out:got-der"
                elif typ == "ecc" and out_scheme == "der" and ref_verify(name, h, "raw", dg, out):
                    d = "PlainFileSP:der-out:got-raw"
                viol.append(("C08.sp-normalise", d, f"{name} {h} sign->{scheme} requested {want_name}: {len(out)} bytes"))
                aux["sp"] = out
    res = {"viol": core.dedupe(viol), "count": cnt, "distinct": distinct}
    if viol and aux:
        res["aux"] = {"sigs": aux}
    return res


# ---------------------------------------------------------------------------------------------
# group fl: all single-bit flips of a signature


def w_flips(case: dict) -> dict:
    name, h, scheme, seed = case["key"], case["hash"], case["scheme"], case["seed"]
    lo, hi = case["lo"], case["hi"]
    k = idx()[name]
    typ = k["type"]
    pub = spsdk_priv(name).get_public_key()
    msg = core.seeded_bytes(seed, f"flmsg|{name}|{h}", 32)
    dg = hashlib.new(h, msg).digest()
    sig = ref_sign(name, h, scheme, dg, seed, f"fl|{name}|{h}|{scheme}")
    kw = spsdk_kwargs(typ, h, scheme, 0, False)
    viol: list = []
    cnt = {"fl_flips": 0, "fl_still_valid": 0, "fl_spsdk_raised": 0}
    if lo == 0:
        if not ref_verify(name, h, scheme, dg, sig):
            raise core.HarnessError("reference signer/verifier disagree")
        got = spsdk_verify(pub, sig, msg, kw)
        if got != "T":
            viol.append(("C08.verify-valid-signature", valid_disc(typ, scheme, got, sig, k), f"{name} {h}: {sig.hex()}"))
    end = 8 * len(sig) if hi is None else min(hi, 8 * len(sig))
    bits = range(lo, end)
    if case.get("bytes3"):
        bits = [8 * b + i for b in (0, len(sig) // 2, len(sig) - 1) for i in range(8)]
    for bit in bits:
        s2 = flip(sig, bit)
        want = ref_verify(name, h, scheme, dg, s2)
        got = spsdk_verify(pub, s2, msg, kw)
        cnt["fl_flips"] += 1
        cnt["fl_still_valid"] += want
        cnt["fl_spsdk_raised"] += got.startswith("X")
        if (got == "T") != want:
            viol.append(("C08.verify-agrees-with-reference",
                         f"{typ}/{scheme}:signature-bit-flip:{'accepts-invalid' if got == 'T' else 'rejects-valid:' + got}",
                         f"{name} {h} bit {bit} of {sig.hex()}: reference {want}, SPSDK {got}"))
    return {"viol": core.dedupe(viol), "count": cnt}


# ---------------------------------------------------------------------------------------------
# group sh: genuine signatures with chosen (r, s) shapes

_KTAB: dict = {}
KTAB_N = {"secp256r1": 1024, "secp384r1": 1024, "secp521r1": 8192}  # P-521 needs e < 2^512: p = 2^-9 per nonce


def ktable(c: recdsa.Curve) -> list[tuple[int, int]]:
    """[(k, r = x(kG) mod n)] for k = 1..KTAB_N by repeated affine addition."""
    if c.name not in _KTAB:
        out = []
        pt = None
        for k in range(1, KTAB_N[c.name] + 1):
            pt = recdsa.affine_add(c, pt, c.g)
            out.append((k, pt[0] % c.n))
        _KTAB[c.name] = out
    return _KTAB[c.name]


R_CLASSES = ("full-msb0", "full-msb1", "short")


def r_class(c: recdsa.Curve, r: int) -> str:
    ln = byte_len(r)
    if ln < c.size:
        return "short"
    if c.size == 66:
        return "full-msb0"  # leading byte 0x01
    return "full-msb1" if r >> (8 * c.size - 1) else "full-msb0"


def craft(c: recdsa.Curve, d: int, rcls: str, ls: int, ms: int, seed: int, tag: str, hbits: int):
    """A genuine signature (r, s, digest) with r of class rcls and s of the given byte length / top bit:
    pick k (=> r), pick s, solve e = s*k - r*d (mod n); e must fit the digest (P-521/SHA-512: e < 2^512,
    found by walking k and the content of s)."""
    cands = [(k, r) for k, r in ktable(c) if r_class(c, r) == rcls and r != 0]
    if not cands:
        return None
    for j in range(64):
        s = shaped_int(seed, f"sh|{tag}|{ls}|{ms}|{j}", ls, ms, c)
        if s is None:
            return None
        for k, r in cands[:1] if c.nbits <= hbits else cands:
            e = (s * k - r * d) % c.n
            if e >> hbits:
                continue
            return r, s, e.to_bytes(hbits // 8, "big"), k
    return None


def w_shape(case: dict) -> dict:
    name, rcls, seed = case["key"], case["rcls"], case["seed"]
    k = idx()[name]
    c = recdsa.CURVES[k["curve"]]
    h = DEFAULT_HASH[c.name]
    hbits = recdsa.HASH_BITS[h]
    pub = spsdk_priv(name).get_public_key()
    q = (k["x"], k["y"])
    viol: list = []
    cnt = {"sh_signatures": 0, "sh_classes_unreachable": 0, "sh_verifications": 0}
    kw = {"algorithm": henum(h), "prehashed": True}
    for ls in range(1, c.size + 1):
        for ms in (0, 1):
            made = craft(c, k["d"], rcls, ls, ms, seed, f"{name}|{rcls}", hbits)
            if made is None:
                cnt["sh_classes_unreachable"] += 1
                continue
            r, s, dg, nonce = made
            if not recdsa.verify_digest(c, q, dg, r, s):
                raise core.HarnessError("crafted signature is not valid under the reference")
            cnt["sh_signatures"] += 1
            for scheme, sig in (("raw", raw_sig(r, s, c.size)), ("der", rder.encode_ecdsa_sig(r, s))):
                cnt["sh_verifications"] += 1
                got = spsdk_verify(pub, sig, dg, kw)
                if got != "T":
                    viol.append(("C08.verify-valid-signature", valid_disc("ecc", scheme, got, sig, k),
                                 f"{name} {h} r:{byte_len(r)}B s:{ls}B/msb{ms} k={nonce} digest={dg.hex()} sig={sig.hex()}"))
                # one flipped bit in the last byte: must agree with the reference (False)
                s2 = flip(sig, 8 * len(sig) - 1)
                want = recdsa.verify_sig(c, q, dg, s2, scheme)
                got = spsdk_verify(pub, s2, dg, kw)
                if (got == "T") != want:
                    viol.append(("C08.verify-agrees-with-reference",
                                 f"ecc/{scheme}:signature-bit-flip:{'accepts-invalid' if got == 'T' else 'rejects-valid:' + got}",
                                 f"{name} r:{byte_len(r)}B s:{ls}B: {s2.hex()} digest={dg.hex()}"))
    # message mode (no free digest): fixed nonce of the r class, counter messages until s loses 1 (and 2) leading bytes
    cands = [(kk, r) for kk, r in ktable(c) if r_class(c, r) == rcls and r != 0]
    if c.size == 66:
        # SHA-512 digests are far shorter than n here: with a small nonce s = k^-1 (e + r d) takes few values in its
        # top bits, so a full-size nonce (from the seed) is used; both r classes have probability 1/2
        cands = []
        for j in range(64):
            kk = int.from_bytes(core.seeded_bytes(seed, f"shk|{name}|{rcls}|{j}", 66), "big") % (c.n - 1) + 1
            pt = recdsa.mul(c, kk, c.g)
            if pt and pt[0] % c.n and r_class(c, pt[0] % c.n) == rcls:
                cands = [(kk, pt[0] % c.n)]
                break
    if cands:
        nonce, r = cands[0]
        kinv = pow(nonce, -1, c.n)
        kwm = {"algorithm": henum(h), "prehashed": False}
        for target in (c.size - 1, c.size - 2):
            found = None
            for i in range(1 << 18):
                m = f"c08|{seed}|{name}|{rcls}|{i}".encode()
                s_ = kinv * (recdsa.bits2int(c, hashlib.new(h, m).digest()) + r * k["d"]) % c.n
                if s_ and byte_len(s_) <= target:
                    found = (m, s_)
                    break
            if found is None:
                cnt["sh_classes_unreachable"] += 1
                continue
            m, s_ = found
            if not recdsa.verify(c, q, h, m, r, s_):
                raise core.HarnessError("searched signature is not valid under the reference")
            cnt["sh_signatures"] += 1
            for scheme, sig in (("raw", raw_sig(r, s_, c.size)), ("der", rder.encode_ecdsa_sig(r, s_))):
                cnt["sh_verifications"] += 1
                got = spsdk_verify(pub, sig, m, kwm)
                if got != "T":
                    viol.append(("C08.verify-valid-signature", valid_disc("ecc", scheme, got, sig, k),
                                 f"{name} {h} message={m!r} r:{byte_len(r)}B s:{byte_len(s_)}B sig={sig.hex()}"))
    return {"viol": core.dedupe(viol), "count": cnt}


# ---------------------------------------------------------------------------------------------
# group cl: the nxpcrypto command line (key convert / key verify / signature create / signature verify)


def w_cli(case: dict) -> dict:
    from click.testing import CliRunner
    from spsdk.apps.nxpcrypto import main

    name, seed = case["key"], case["seed"]
    k = idx()[name]
    typ = k["type"]
    viol: list = []
    cnt = {"cl_invocations": 0, "cl_rejected": 0}
    distinct: list = []
    runner = CliRunner()
    tmpdir = tempfile.mkdtemp(prefix="c08-cli-", dir=os.environ.get("VERIF_WORKDIR") or None)
    seq = [0]

    def out_path(ext: str) -> str:
        seq[0] += 1
        return os.path.join(tmpdir, f"o{seq[0]}.{ext}")

    def run(*args: str):
        """('ok', output) | ('spsdk', msg) | ('<Exception>', msg); a non-zero exit without exception counts as spsdk."""
        from spsdk.exceptions import SPSDKError

        cnt["cl_invocations"] += 1
        res = runner.invoke(main, list(args))
        if res.exception is None or isinstance(res.exception, SystemExit):
            return ("ok" if res.exit_code == 0 else "spsdk"), res.output
        if isinstance(res.exception, SPSDKError):
            return "spsdk", str(res.exception)[:200]
        return type(res.exception).__name__, str(res.exception)[:200]

    def v(clause: str, disc: str, detail: str) -> None:
        viol.append((f"C08.{clause}", disc, f"{name}: {detail}"))

    def read(path: str) -> Optional[bytes]:
        return open(path, "rb").read() if os.path.exists(path) else None

    try:
        exp_priv = priv_numbers_expected(name)
        exp_pub = pub_numbers_expected(name)
        src = {("priv", "PEM"): fixtures.key_path(name, True, "pem"), ("priv", "DER"): fixtures.key_path(name, True, "der"),
               ("pub", "PEM"): fixtures.key_path(name, False, "pem"), ("pub", "DER"): fixtures.key_path(name, False, "der")}
        # ---- key convert -----------------------------------------------------------------------
        jobs = []
        for (kind, senc), path in sorted(src.items()):
            for oenc in ("PEM", "DER", "RAW"):
                jobs.append((kind, senc, path, oenc, False))
                if kind == "priv":
                    jobs.append((kind, senc, path, oenc, True))
        raw_files: dict = {}
        for kind, senc, path, oenc, puk in jobs:
            okind = "pub" if (puk or kind == "pub") else "priv"
            out = out_path(oenc.lower())
            args = ["key", "convert", "-e", oenc, "-i", path, "-o", out] + (["--puk"] if puk else [])
            st, msg = run(*args)
            what = f"{typ}/{okind}/{oenc}"
            distinct.append(f"cl|{name}|convert|{kind}|{senc}|{oenc}|{int(puk)}")
            if st == "spsdk":
                cnt["cl_rejected"] += 1
                continue
            if st != "ok":
                v("cli-key-convert", f"{what.split('/', 1)[0]}/{oenc}:{st}", f"{' '.join(args[:4])} from {kind} {senc}: {msg}")
                continue
            data = read(out)
            if data is None:
                v("cli-key-convert", f"{what}:no-output", " ".join(args[:4]))
                continue
            try:
                if oenc == "RAW":
                    size = recdsa.CURVES[k["curve"]].size
                    want_len = 2 * size if okind == "pub" else size
                    if len(data) != want_len:
                        v("cli-key-convert", f"{typ}/RAW:wrong-width",
                          f"{okind} key: {len(data)} bytes, the curve's fixed width gives {want_len}")
                        continue
                    if okind == "pub":
                        got = oracle_public_bytes(data, "NXP", name)
                        bad = got != exp_pub
                    else:
                        bad = int.from_bytes(data, "big") != k["d"]
                    raw_files[okind] = out
                elif okind == "pub":
                    bad = oracle_public_bytes(data, oenc, name) != exp_pub
                else:
                    o = oracle_private_bytes(data, oenc, None)
                    if o["type"] == "ecc" and o.get("x") is None:
                        o["x"], o["y"] = exp_priv["x"], exp_priv["y"]
                    bad = o != exp_priv
                if bad:
                    v("cli-key-convert", f"{what}:wrong-numbers", " ".join(args[:4]))
            except (ValueError, rder.DerError) as e:
                v("cli-key-convert", f"{what}:not-readable-by-oracle", f"{type(e).__name__}: {e}")
        # RAW files read back by the same command
        for okind, path in sorted(raw_files.items()):
            out = out_path("der")
            st, msg = run("key", "convert", "-e", "DER", "-i", path, "-o", out)
            distinct.append(f"cl|{name}|reread-raw|{okind}")
            data = read(out)
            if st != "ok" or data is None:
                v("cli-key-convert", f"{typ}/RAW:{'reread-rejected' if st in ('ok', 'spsdk') else st}", f"{okind} key: {msg}")
                continue
            try:
                if okind == "pub":
                    bad = oracle_public_bytes(data, "DER", name) != exp_pub
                else:
                    o = oracle_private_bytes(data, "DER", None)
                    bad = o["d"] != k["d"] or o["curve"] != k["curve"]
                if bad:
                    v("cli-key-convert", f"{typ}/RAW:reread-wrong-numbers", okind)
            except (ValueError, rder.DerError) as e:
                v("cli-key-convert", f"{typ}/RAW:reread-not-readable-by-oracle", f"{okind}: {e}")
        # ---- key verify ------------------------------------------------------------------------
        oth = other_key(name)
        for k1, k2, want in ((src[("priv", "PEM")], src[("pub", "DER")], True),
                             (src[("pub", "PEM")], src[("priv", "DER")], True),
                             (src[("priv", "DER")], fixtures.key_path(oth, False, "pem"), False)):
            st, msg = run("key", "verify", "-k1", k1, "-k2", k2)
            distinct.append(f"cl|{name}|key-verify|{os.path.basename(k1)}|{os.path.basename(k2)}")
            if st not in ("ok", "spsdk"):
                v("cli-key-verify", f"{typ}:{st}", msg)
            elif (st == "ok" and "Keys match" in msg) != want:
                v("cli-key-verify", f"{typ}:{'rejects-pair' if want else 'accepts-non-pair'}", f"{k1} {k2}: {msg!r}")
        # ---- signature create / verify -----------------------------------------------------------
        msgf = os.path.join(tmpdir, "data.bin")
        msg_bytes = core.seeded_bytes(seed, f"cli|{name}", 77)
        open(msgf, "wb").write(msg_bytes)
        badf = os.path.join(tmpdir, "data-flipped.bin")
        open(badf, "wb").write(flip(msg_bytes, 300))
        encf = os.path.join(tmpdir, "enc.pem")
        from cryptography.hazmat.primitives import serialization as ser

        open(encf, "wb").write(ckey(name).private_bytes(ser.Encoding.PEM, ser.PrivateFormat.PKCS8,
                                                         ser.BestAvailableEncryption(PASSWORDS["p32"].encode())))
        dh = DEFAULT_HASH[k.get("curve", "rsa")]
        variants = []
        for alg in (None, "sha512" if dh != "sha512" else "sha256"):
            if typ == "rsa":
                variants += [(alg, "v15", []), (alg, "pss", ["-pp"])]
            else:
                variants += [(alg, "raw", ["-e", "NXP"]), (alg, "der", ["-e", "DER"]), (alg, "der", [])]
        for vi, (alg, scheme, extra) in enumerate(variants):
            keyfile, pwargs = (src[("priv", "DER")], []) if vi % 2 else (src[("priv", "PEM")], [])
            if vi == len(variants) - 1:
                keyfile, pwargs = encf, ["-p", PASSWORDS["p32"]]
            sigf = out_path("sig")
            aargs = ["-a", alg] if alg else []
            st, out = run("signature", "create", "-k", keyfile, "-i", msgf, "-o", sigf, *aargs, *extra, *pwargs)
            what = f"{typ}/{scheme}"
            distinct.append(f"cl|{name}|sign|{alg}|{scheme}|{'-'.join(extra)}|{vi}")
            sig = read(sigf)
            if st != "ok" or sig is None:
                if st == "spsdk":
                    cnt["cl_rejected"] += 1
                    v("cli-signature", f"{what}:create-rejected", str(out)[-200:])
                else:
                    v("cli-signature", f"{what}:create:{st}", str(out)[-200:])
                continue
            h = alg or dh
            dg = hashlib.new(h, msg_bytes).digest()
            if not ref_verify(name, h, scheme, dg, sig):
                v("cli-signature", f"{what}:not-valid-per-reference", f"alg={alg} {extra}: {len(sig)} bytes")
                continue
            pargs = ["-pp"] if scheme == "pss" else []
            for pubf, dataf, vname, vmsg in ((src[("pub", "PEM")], msgf, name, msg_bytes),
                                             (src[("pub", "DER")], badf, name, flip(msg_bytes, 300)),
                                             (fixtures.key_path(oth, False, "pem"), msgf, oth, msg_bytes)):
                st, out = run("signature", "verify", "-k", pubf, "-i", dataf, "-s", sigf, *aargs, *pargs)
                want = ref_verify(vname, h, scheme, hashlib.new(h, vmsg).digest(), sig)
                if st != "ok":
                    if want:
                        v("cli-signature", f"{what}:verify:{'rejected' if st == 'spsdk' else st}", str(out)[-200:])
                    continue
                got = "IS matching" in out
                if got != want or ("IS NOT matching" in out) == got:
                    v("cli-signature", f"{what}:verify:{'accepts-invalid' if got else 'rejects-valid'}", f"alg={alg}: {out!r}")
    finally:
        shutil.rmtree(tmpdir, ignore_errors=True)
    return {"viol": core.dedupe(viol), "count": cnt, "distinct": distinct}


# ---------------------------------------------------------------------------------------------
# group sp: signature providers on password-protected key files (password given / asked for at the prompt)

SP_ROUTES = ("local_file_key", "InteractivePlainFileSP", "sp_cfg:file", "sp_cfg:interactive_file", "cli")
SP_MODES = ("unencrypted", "given", "prompted")


def no_getpass(*a: Any, **k: Any) -> str:
    raise RuntimeError("the check never answers a terminal prompt")


def w_sigprov(case: dict) -> dict:
    """A key stored with a pass-phrase must sign exactly like the same key stored without one: every route that
    builds a provider from a key file x pass-phrase {given, typed at the prompt} x hash x padding; the signature
    must verify under the reference implementation with exactly the configured hash and padding."""
    import getpass

    import spsdk.crypto.signature_provider as spm
    from click.testing import CliRunner
    from cryptography.hazmat.primitives import serialization as ser
    from spsdk.apps.nxpcrypto import main
    from spsdk.exceptions import SPSDKError

    name, fenc, seed = case["key"], case["fenc"], case["seed"]
    k = idx()[name]
    typ = k["type"]
    pw = PASSWORDS["p32"]
    viol: list = []
    cnt = {"sp_providers": 0, "sp_signatures": 0, "sp_prompts": 0}
    distinct: list = []
    agg: dict = {}
    tried: set = set()
    answer: dict = {"value": None}

    def fake_prompt() -> str:
        cnt["sp_prompts"] += 1
        if answer["value"] is None:
            raise SPSDKError("no pass-phrase available (verification harness)")
        return answer["value"]

    tmpdir = tempfile.mkdtemp(prefix="c08-sp-", dir=os.environ.get("VERIF_WORKDIR") or None)
    saved = (spm.prompt_for_passphrase, getpass.getpass)
    spm.prompt_for_passphrase = fake_prompt  # the seam tests/crypto/test_sign_provider.py uses; installed before any provider
    getpass.getpass = no_getpass
    try:
        e = ser.Encoding.PEM if fenc == "PEM" else ser.Encoding.DER
        encf = os.path.join(tmpdir, f"enc.{fenc.lower()}")
        open(encf, "wb").write(ckey(name).private_bytes(e, ser.PrivateFormat.PKCS8, ser.BestAvailableEncryption(pw.encode("utf-8"))))
        plainf = fixtures.key_path(name, True, fenc.lower())
        msg = core.seeded_bytes(seed, f"sp|{name}", 61)
        msgf = os.path.join(tmpdir, "data.bin")
        open(msgf, "wb").write(msg)
        runner = CliRunner()
        nsig = [0]

        def make(route: str, path: str, mode: str, h: str, pss: bool):
            """-> (status, signature | message)"""
            kw: dict = {"hash_alg": henum(h), "pss_padding": pss}
            if mode == "given":
                kw["password"] = pw
            if route == "cli":
                nsig[0] += 1
                out = os.path.join(tmpdir, f"s{nsig[0]}.bin")
                args = ["signature", "create", "-k", path, "-i", msgf, "-o", out, "-a", h, "-e", "NXP"]
                args += ["-pp"] if pss else []
                args += ["-p", pw] if mode == "given" else []
                res = runner.invoke(main, args)
                if res.exception is not None and not isinstance(res.exception, SystemExit):
                    return ("spsdk" if isinstance(res.exception, SPSDKError) else type(res.exception).__name__), str(res.exception)[:200]
                if res.exit_code != 0 or not os.path.exists(out):
                    return "spsdk", res.output[-200:]
                return "ok", open(out, "rb").read()
            if route == "local_file_key":
                st, sp = call(spm.get_signature_provider, local_file_key=path, **kw)
            elif route == "InteractivePlainFileSP":
                st, sp = call(spm.InteractivePlainFileSP, file_path=path, **kw)
            else:
                cfg = f"type={route.split(':')[1]};file_path={path}" + (f";password={pw}" if mode == "given" else "")
                kw.pop("password", None)
                st, sp = call(spm.get_signature_provider, sp_cfg=cfg, **kw)
            if st != "ok":
                return st, sp
            return call(sp.get_signature, msg)

        schemes = ("v15", "pss") if typ == "rsa" else ("raw",)
        for mode, path in (("unencrypted", plainf), ("given", encf), ("prompted", encf)):
            answer["value"] = pw if mode == "prompted" else None
            for route in SP_ROUTES:
                if mode == "prompted" and route == "sp_cfg:file":
                    continue  # the plain file provider has no prompt: refusing an encrypted file without password is right
                tried.add((route, mode))
                for h in HASHES:
                    for scheme in schemes:
                        cnt["sp_providers"] += 1
                        distinct.append(f"sp|{name}|{fenc}|{mode}|{route}|{h}|{scheme}")
                        st, sig = make(route, path, "given" if mode == "given" else "none", h, scheme == "pss")
                        if st != "ok":
                            sym = "create-rejected" if st == "spsdk" else f"create:{st}"
                            agg.setdefault(sym, []).append((route, mode, f"{h}/{scheme}: {sig}"))
                            continue
                        cnt["sp_signatures"] += 1
                        dg = hashlib.new(h, msg).digest()
                        if ref_verify(name, h, scheme, dg, sig):
                            continue
                        # name what was applied instead of the configured parameters
                        valid = [(h2, s2) for h2 in HASHES for s2 in schemes if ref_verify(name, h2, s2, hashlib.new(h2, msg).digest(), sig)]
                        if any(h2 != h and s2 == scheme for h2, s2 in valid):
                            sym = "configured-hash-not-applied"
                        elif any(h2 == h and s2 != scheme for h2, s2 in valid):
                            sym = "configured-padding-not-applied"
                        elif valid:
                            sym = "configured-hash-and-padding-not-applied"
                        else:
                            sym = "signature-not-valid"
                        agg.setdefault(sym, []).append((route, mode, f"configured {h}/{scheme}, verifies as {valid}"))
        # a wrong pass-phrase must not produce a provider
        for mode, fn in (("given", lambda: spm.InteractivePlainFileSP(file_path=encf, password=pw + "x", hash_alg=henum("sha256"))),
                         ("prompted", lambda: spm.InteractivePlainFileSP(file_path=encf, hash_alg=henum("sha256")))):
            answer["value"] = pw + "x"
            st, sp = call(fn)
            cnt["sp_providers"] += 1
            if st == "ok":
                agg.setdefault("wrong-pass-phrase-accepted", []).append(("InteractivePlainFileSP", mode, ""))
        # one record per symptom; the discriminator names the set of routes and of pass-phrase modes that show it
        for sym, items in sorted(agg.items()):
            routes = sorted({r for r, _, _ in items})
            modes = [m for m in SP_MODES if any(m == mm for _, mm, _ in items)]
            which = "every-route" if routes == sorted(SP_ROUTES) else "+".join(routes)
            mwhich = "every-mode" if all((r, m) in {(a, b) for a, b, _ in items} for r, m in tried if r in routes) and len(modes) > 1 \
                else "+".join(modes)
            viol.append(("C08.signature-provider-key-file", f"{typ}:{sym}@{which}/{mwhich}",
                         f"{name} {fenc} key file: " + "; ".join(f"{r} ({m}): {d}" for r, m, d in items[:6])[:1000]))
    finally:
        spm.prompt_for_passphrase, getpass.getpass = saved
        shutil.rmtree(tmpdir, ignore_errors=True)
    return {"viol": core.dedupe(viol), "count": cnt, "distinct": distinct}


# ---------------------------------------------------------------------------------------------
# group km: the key-matching helpers of spsdk/crypto/utils.py

KM_FAMILIES = ("rsa2048", "secp256r1", "secp384r1", "secp521r1")


def w_keymatch(case: dict) -> dict:
    """get_matching_key_id_from_signature / get_matching_key_id over every ordered list (length 1-4, no repeats) of
    one key per family, for a signature (a provider) of every member and of every non-member; algorithm left to the
    keys' defaults and given explicitly; oracle: the index of the signing key, SPSDKError for a non-member.
    Also extract_public_key(s) on files and get_hash_type_from_signature_size."""
    import itertools

    from spsdk.crypto.signature_provider import PlainFileSP
    from spsdk.crypto.utils import (extract_public_key, extract_public_keys, get_hash_type_from_signature_size,
                                    get_matching_key_id, get_matching_key_id_from_signature)

    seed = case["seed"]
    names = [key_names(f)[0] for f in KM_FAMILIES]
    pubs = {n: spsdk_priv(n).get_public_key() for n in names}
    viol: list = []
    cnt = {"km_calls": 0, "km_lists": 0}
    msg = core.seeded_bytes(seed, "km", 48)
    # reference-made (deterministic) signatures of every signer: (alg or None, variant) -> bytes
    sigs: dict = {}
    for n in names:
        k = idx()[n]
        dh = DEFAULT_HASH[k.get("curve", "rsa")]
        for alg in (None,) + HASHES:
            h = alg or dh
            for scheme in (("v15", "pss") if k["type"] == "rsa" else ("raw", "der")):
                sigs[(n, alg, scheme)] = ref_sign(n, h, scheme, hashlib.new(h, msg).digest(), seed, f"km|{n}|{h}|{scheme}")
    providers = {n: PlainFileSP(fixtures.key_path(n, True, "pem")) for n in names}
    lists = [list(p) for ln in range(1, len(names) + 1) for p in itertools.permutations(names, ln)]
    for lst in lists[case["lo"]:case["hi"]]:
        cnt["km_lists"] += 1
        plist = [pubs[n] for n in lst]
        mixed = len({DEFAULT_HASH[idx()[n].get("curve", "rsa")] for n in lst}) > 1
        for signer in names:
            want = lst.index(signer) if signer in lst else None
            st, got = call(get_matching_key_id, plist, providers[signer])
            cnt["km_calls"] += 1
            sym = None
            if want is None:
                sym = None if st == "spsdk" else f"non-member-{'accepted' if st == 'ok' else st}"
            elif st != "ok":
                sym = "member-refused" if st == "spsdk" else st
            elif got != want:
                sym = "wrong-index"
            if sym:
                viol.append(("C08.key-matching", f"get_matching_key_id:{sym}", f"keys {lst}, provider of {signer}: {st} {got}, expected {want}"))
            for (n, alg, scheme), sig in sigs.items():
                if n != signer:
                    continue
                kw = {"pss_padding": scheme == "pss"} if idx()[signer]["type"] == "rsa" else {}
                st, got = call(get_matching_key_id_from_signature, plist, msg, sig, henum(alg) if alg else None, **kw)
                cnt["km_calls"] += 1
                sym = None
                if want is None:
                    sym = None if st == "spsdk" else f"non-member-{'accepted' if st == 'ok' else st}"
                elif st != "ok":
                    sym = "member-refused" if st == "spsdk" else st
                elif got != want:
                    sym = "wrong-index"
                if sym:
                    viol.append(("C08.key-matching",
                                 f"get_matching_key_id_from_signature:{sym}:{'explicit' if alg else 'default'}-algorithm:"
                                 f"{'mixed' if mixed else 'uniform'}-default-hashes",
                                 f"keys {lst}, {scheme} signature of {signer} ({alg or 'its default hash'}): {st} {got}, expected {want}"))
    if case["lo"] == 0:
        # the other public-key helpers of the module
        for n in names:
            exp = pub_numbers_expected(n)
            files = [fixtures.key_path(n, True, "pem"), fixtures.key_path(n, True, "der"),
                     fixtures.key_path(n, False, "pem"), fixtures.key_path(n, False, "der")]
            for f in files:
                st, got = call(extract_public_key, f)
                cnt["km_calls"] += 1
                if st != "ok" or pub_numbers_got(got) != exp:
                    viol.append(("C08.key-matching", f"extract_public_key:{st if st != 'ok' else 'wrong-numbers'}", f"{f}: {got}"))
            st, got = call(extract_public_keys, files)
            if st != "ok" or [pub_numbers_got(g) for g in got] != [exp] * len(files):
                viol.append(("C08.key-matching", f"extract_public_keys:{st if st != 'ok' else 'wrong-numbers'}", n))
        st, got = call(extract_public_key, os.path.join(fixtures.DIR, "keys", "index.json"))
        if st != "spsdk":
            viol.append(("C08.key-matching", f"extract_public_key:not-a-key:{st}", str(got)))
        for size in range(0, 140):
            want_h = {64: "sha256", 96: "sha384", 132: "sha512"}.get(size)
            st, got = call(get_hash_type_from_signature_size, size)
            cnt["km_calls"] += 1
            if (want_h is None and st != "spsdk") or (want_h is not None and (st != "ok" or got.label != want_h)):
                viol.append(("C08.key-matching", "get_hash_type_from_signature_size", f"{size}: {st} {got}"))
    return {"viol": core.dedupe(viol), "count": cnt, "distinct": [f"km|{case['lo']}"]}


# ---------------------------------------------------------------------------------------------
# group rg: data regions of `nxpcrypto signature create/verify -r`

RG_LEN = 24
RG_SLICES = ("[:16]", "[0x10:0x14]", "[-5:]", "[3:-1]", "[-3:-1]", "[5:5]", "[10:1000]", "[:-24]", "[-1000:4]", "[:]",
             "[-1:]", "[:-1]", "[-1:0]", "[7:3]", "[0:10:2]", "[::-1]", "[-1:-6:-2]")
RG_INDICES = ("[0]", "[23]", "[-1]", "[-2]", "[-24]", "[0x10]", "[5]", "[-0x3]")
RG_REFUSED = ("[24]", "[-25]", "[1000]", "[0x100]", "[a:b]", "[1;2]", "[]")
RG_PAIR_SET = ("[:16]", "[-5:]", "[3:-1]", "[5:5]", "[0]", "[23]", "[-1]", "[-24]", "[0x10]")


def region_select(data: bytes, region: str):
    """Own reading of the documented region syntax ("similar to Python's list indices syntax": [1] one byte, [:20],
    [0x10:0x20], [-20:]): returns the selected bytes, or None where the form must be refused (a single index outside
    the data, something that is not a number)."""
    body = region.replace("[", "").replace("]", "")
    parts = body.split(":")
    try:
        nums = [int(x, 0) if x.strip() else None for x in parts]
    except ValueError:
        return None
    if len(parts) == 1:
        if nums[0] is None or not -len(data) <= nums[0] < len(data):
            return None
        return data[nums[0]:nums[0] + 1] if nums[0] != -1 else data[-1:]
    if len(parts) in (2, 3):
        if len(parts) == 3 and nums[2] == 0:
            return None
        return data[slice(*nums)]
    return None


def regions_select(data: bytes, regions) -> Optional[bytes]:
    out = b""
    for r in regions:
        sel = region_select(data, r)
        if sel is None:
            return None
        out += sel
    return out


def w_regions(case: dict) -> dict:
    from click.testing import CliRunner
    from spsdk.apps.nxpcrypto import cut_off_data_regions, main
    from spsdk.exceptions import SPSDKError

    seed, part = case["seed"], case["part"]
    viol: list = []
    cnt = {"rg_function_calls": 0, "rg_cli_invocations": 0, "rg_refused": 0, "rg_step_forms_refused": 0}
    data = core.seeded_bytes(seed, "rg", RG_LEN)
    forms = RG_SLICES + RG_INDICES + RG_REFUSED

    def form_class(regs) -> str:
        kinds = []
        for r in regs:
            body = r.strip("[]")
            kinds.append("index" if ":" not in body else ("step-slice" if body.count(":") == 2 else "slice"))
        return "+".join(kinds)

    def judge(regs, st: str, got: Any, where: str) -> None:
        want = regions_select(data, regs)
        has_step = any(r.count(":") == 2 for r in regs)
        if st == "spsdk":
            cnt["rg_refused"] += 1
            if want is not None and not has_step:
                viol.append(("C08.cli-regions", f"{where}:{form_class(regs)}:valid-region-refused", f"{regs}: {got}"))
            elif has_step:
                cnt["rg_step_forms_refused"] += 1  # [a:b:s] is not among the documented forms: refusing it is fine
            return
        if st != "ok":
            viol.append(("C08.cli-regions", f"{where}:{form_class(regs)}:{st}", f"{regs}: {got}"))
        elif want is None:
            viol.append(("C08.cli-regions", f"{where}:{form_class(regs)}:invalid-region-accepted", f"{regs} -> {got!r}"))
        elif got != want:
            viol.append(("C08.cli-regions", f"{where}:{form_class(regs)}:wrong-bytes",
                         f"{regs} of {data.hex()}: got {bytes(got).hex()}, the documented syntax selects {want.hex()}"))

    def function_agrees(regs) -> bool:
        want = regions_select(data, regs)
        st, got = call(cut_off_data_regions, data, list(regs))
        if want is None or any(r.count(":") == 2 for r in regs):
            return st == "spsdk" or (st == "ok" and want is not None and got == want)
        return st == "ok" and got == want

    if part == "function":
        # a pair is only reported when both members are right on their own (the single form carries the finding)
        bad_single = {a for a in forms if not function_agrees((a,))}
        for regs in [(a,) for a in forms] + [(a, b) for a in forms for b in forms]:
            cnt["rg_function_calls"] += 1
            if len(regs) == 2 and (regs[0] in bad_single or regs[1] in bad_single):
                cnt["rg_inherited"] = cnt.get("rg_inherited", 0) + 1
                continue
            st, got = call(cut_off_data_regions, data, list(regs))
            judge(regs, st, got, "cut_off_data_regions")
        st, got = call(cut_off_data_regions, data, [])
        if st != "ok" or got != data:
            viol.append(("C08.cli-regions", "cut_off_data_regions:no-region", f"{st}"))
        return {"viol": core.dedupe(viol), "count": cnt, "distinct": ["rg|function"]}

    # through the command line: create, independent verification, verify, verify after changing bytes
    name = key_names("secp256r1")[0]
    h = DEFAULT_HASH["secp256r1"]
    runner = CliRunner()
    tmpdir = tempfile.mkdtemp(prefix="c08-rg-", dir=os.environ.get("VERIF_WORKDIR") or None)
    distinct: list = []
    try:
        files = {}
        for i in [None] + list(range(RG_LEN)):
            d = data if i is None else flip(data, 8 * i + 3)
            files[i] = os.path.join(tmpdir, f"d{i}.bin")
            open(files[i], "wb").write(d)

        def run(*args: str):
            cnt["rg_cli_invocations"] += 1
            res = runner.invoke(main, list(args))
            if res.exception is not None and not isinstance(res.exception, SystemExit):
                return ("spsdk" if isinstance(res.exception, SPSDKError) else type(res.exception).__name__), str(res.exception)[:200]
            return ("ok" if res.exit_code == 0 else "spsdk"), res.output

        if part == "cli-single":
            sets = [(a,) for a in forms][case["lo"]:case["hi"]]
        else:
            sets = [(a, b) for a in RG_PAIR_SET for b in RG_PAIR_SET][case["lo"]:case["hi"]]
        for n, regs in enumerate(sets):
            rargs = [x for r in regs for x in ("-r", r)]
            sigf = os.path.join(tmpdir, f"s{n}.bin")
            distinct.append(f"rg|{'|'.join(regs)}")
            if not function_agrees(regs):
                # cut_off_data_regions itself deviates on these regions: reported by the "function" case; what the
                # command line does with them is a consequence, not a second finding
                cnt["rg_inherited"] = cnt.get("rg_inherited", 0) + 1
                continue
            st, out = run("signature", "create", "-k", fixtures.key_path(name, True, "pem"), "-i", files[None],
                          "-o", sigf, "-e", "NXP", *rargs)
            want = regions_select(data, regs)
            has_step = any(r.count(":") == 2 for r in regs)
            fc = form_class(regs)
            if st != "ok" or not os.path.exists(sigf):
                if st not in ("ok", "spsdk"):
                    viol.append(("C08.cli-regions", f"signature-create:{fc}:{st}", f"{regs}: {out}"))
                elif want is not None and not has_step:
                    viol.append(("C08.cli-regions", f"signature-create:{fc}:valid-region-refused", f"{regs}: {out[-200:]}"))
                else:
                    cnt["rg_refused"] += 1
                    # the verifying side must refuse the same regions too
                    st2, out2 = run("signature", "verify", "-k", fixtures.key_path(name, False, "pem"), "-i", files[None],
                                    "-s", fixtures.key_path(name, False, "der"), *rargs)
                    if st2 == "ok" and "IS matching" in out2:
                        viol.append(("C08.cli-regions", f"signature-verify:{fc}:invalid-region-accepted", f"{regs}"))
                continue
            if want is None:
                viol.append(("C08.cli-regions", f"signature-create:{fc}:invalid-region-accepted", f"{regs}"))
                continue
            sig = open(sigf, "rb").read()
            if not ref_verify(name, h, "raw", hashlib.new(h, want).digest(), sig):
                viol.append(("C08.cli-regions", f"signature-create:{fc}:signature-not-over-the-selected-bytes",
                             f"{regs}: the signature does not verify over {want.hex()} (data {data.hex()})"))
                continue
            # signature verify: unchanged data, then one changed byte at a time
            covered = [i for i in range(RG_LEN) if regions_select(flip(data, 8 * i + 3), regs) != want]
            if part == "cli-single":
                positions = list(range(RG_LEN))
            else:
                uncovered = [i for i in range(RG_LEN) if i not in covered]
                positions = sorted(set(covered[:1] + covered[-1:] + uncovered[:1] + [RG_LEN - 1, 0]))
            for i in [None] + positions:
                st, out = run("signature", "verify", "-k", fixtures.key_path(name, False, "pem"), "-i", files[i],
                              "-s", sigf, *rargs)
                d2 = data if i is None else flip(data, 8 * i + 3)
                w2 = ref_verify(name, h, "raw", hashlib.new(h, regions_select(d2, regs)).digest(), sig)
                if st != "ok":
                    viol.append(("C08.cli-regions", f"signature-verify:{fc}:{'refused' if st == 'spsdk' else st}", f"{regs}: {out[-200:]}"))
                    break
                got = "IS matching" in out
                if got != w2:
                    what = "unchanged data" if i is None else f"byte {i} changed ({'covered' if i in covered else 'not covered'})"
                    viol.append(("C08.cli-regions", f"signature-verify:{fc}:{'accepts-changed-covered-byte' if got else 'rejects-valid'}",
                                 f"{regs}, {what}: {out.strip()!r}"))
    finally:
        shutil.rmtree(tmpdir, ignore_errors=True)
    return {"viol": core.dedupe(viol), "count": cnt, "distinct": distinct}


# ---------------------------------------------------------------------------------------------

WORKERS = {"cv": w_conv, "rt": w_roundtrip, "ct": w_cert, "sv": w_sign, "fl": w_flips, "sh": w_shape, "cl": w_cli, "sp": w_sigprov, "km": w_keymatch, "rg": w_regions}


def w_dispatch(case: dict) -> dict:
    import logging
    import traceback

    logging.getLogger("spsdk").setLevel(logging.ERROR)  # "Signature has unexpected length" warnings are expected
    import getpass

    getpass.getpass = no_getpass  # no case may ever wait for a terminal
    try:
        return WORKERS[case["g"]](case)
    except (core.HarnessError, core.Watchdog):
        raise
    except Exception as e:  # noqa
        # An exception that escapes from a plain accessor (get_public_key, .x, .curve, ...) which the workers call
        # without a guard: a finding if it was raised inside the tree under check, a harness crash otherwise.
        frames = traceback.extract_tb(e.__traceback__)
        inner = [f for f in frames if os.path.realpath(f.filename).startswith(core.REPO + os.sep)]
        if not inner:
            raise
        where = f"{os.path.relpath(inner[-1].filename, core.REPO)}:{inner[-1].name}"
        return {"viol": [("C08.unexpected-exception", f"{case['g']}:{type(e).__name__}@{where}",
                          "".join(traceback.format_exception_only(type(e), e))[:300])]}


def sig_bits(name: str, scheme: str) -> int:
    """Upper bound of the signature length in bits (DER: maximal length)."""
    k = idx()[name]
    if k["type"] == "rsa":
        return k["bits"]
    size = recdsa.CURVES[k["curve"]].size
    if scheme == "raw":
        return 16 * size
    return 8 * len(rder.encode_ecdsa_sig((1 << (8 * size - 1 if size != 66 else 520)), (1 << (8 * size - 1 if size != 66 else 520))))


# quick tier: how many pool keys per family take part in the *expensive* products (sign/verify, RSA private-key
# round trips, command line on RSA keys); for ECC the first regular key plus the leading-zero X / Y keys.  Cheap
# products (public keys, ECC private keys, conversion classes, certificates) and the thorough tier use every key.
QUICK_RSA_KEYS = {"sv": {"rsa2048": 2, "rsa3072": 1, "rsa4096": 1}, "rt": {"rsa2048": 5, "rsa3072": 2, "rsa4096": 2},
                  "cl": {"rsa2048": 1, "rsa3072": 1, "rsa4096": 1}}


def tier_keys(group: str, quick: bool) -> list[str]:
    if not quick:
        return key_names()
    out = []
    for n in key_names():
        k = idx()[n]
        fam = key_names(k.get("curve") or family(n))
        if k["type"] == "rsa":
            if fam.index(n) < QUICK_RSA_KEYS[group][family(n)]:
                out.append(n)
        elif group != "sv" or n == fam[0] or n.endswith(("_x0", "_y0")) and not (k["curve"] == "secp521r1" and n.endswith("_y0")):
            out.append(n)
    return out


def build_cases(tier: str, seed: int) -> list[dict]:
    quick = tier == "quick"
    cases: list[dict] = []
    # cv: all shape classes (always complete)
    for cname, c in recdsa.CURVES.items():
        for lr in range(1, c.size + 1):
            cases.append({"g": "cv", "curve": cname, "lr": lr, "seed": seed})
    # sh
    for cname in recdsa.CURVES:
        names = key_names(cname)
        if quick:
            # P-521: the digest must stay below 2^512, which the tiny scalars of the *_x0/_y0 keys (d = 2, 4) rarely allow
            names = names[:1] if cname == "secp521r1" else [names[0]] + [n for n in names if n.endswith("_x0")]
        for n in names:
            for rc in R_CLASSES:
                if cname == "secp521r1" and rc == "full-msb1":
                    continue
                cases.append({"g": "sh", "key": n, "rcls": rc, "seed": seed})
    # fl (heavy: early in the queue).  thorough: every key x every hash, all bits.  quick: all bits on the first key
    # of each curve / RSA size with the default hash (how a signature is decoded does not depend on which key of
    # a size verifies it), first/middle/last byte x 8 bits on every other key.
    for n in key_names():
        k = idx()[n]
        schemes = ("v15", "pss") if k["type"] == "rsa" else ("raw", "der")
        dh = DEFAULT_HASH[k.get("curve", "rsa")]
        first = n == key_names(k.get("curve") or family(n))[0]
        for scheme in schemes:
            for h in (HASHES if not quick else (dh,)):
                base = {"g": "fl", "key": n, "hash": h, "scheme": scheme, "seed": seed}
                if quick and not first:
                    cases.append({**base, "lo": 0, "hi": None, "bytes3": 1})
                elif k["type"] == "rsa":
                    cases.append({**base, "lo": 0, "hi": None})
                else:
                    nb = sig_bits(n, scheme)
                    for lo in range(0, nb, FLIP_CHUNK):
                        last = lo + FLIP_CHUNK >= nb
                        cases.append({**base, "lo": lo, "hi": None if last else lo + FLIP_CHUNK})
    # rt: public keys of every key; private keys of every ECC key and (quick) of a subset of the RSA keys
    rt_priv = set(tier_keys("rt", quick))
    for n in key_names():
        k = idx()[n]
        for enc in ("PEM", "DER", "NXP"):
            for pwn in PASSWORDS:
                if n in rt_priv:
                    cases.append({"g": "rt", "key": n, "kind": "priv", "enc": enc, "pw": pwn})
        for enc in ("PEM", "DER", "NXP") + (("NXP4",) if k["type"] == "rsa" else ()):
            cases.append({"g": "rt", "key": n, "kind": "pub", "enc": enc, "pw": "none"})
    # rt on the derived keys (coordinates starting with a byte a format sniffer could key on): the whole public
    # product, and the private key without password as a source of extract_public_key_from_data
    for n in key_names(derived=True):
        for enc in ("PEM", "DER", "NXP"):
            cases.append({"g": "rt", "key": n, "kind": "pub", "enc": enc, "pw": "none"})
        for enc in ("PEM", "DER"):
            cases.append({"g": "rt", "key": n, "kind": "priv", "enc": enc, "pw": "none"})
    # ct, cl
    for t in cert_table():
        cases.append({"g": "ct", **t})
    for n in tier_keys("cl", quick):
        cases.append({"g": "cl", "key": n, "seed": seed})
    # sp: representatives - the first key of each family (quick: one RSA size), both key-file encodings
    for fam in (("rsa2048",) if quick else ("rsa2048", "rsa3072", "rsa4096")) + ("secp256r1", "secp384r1", "secp521r1"):
        for fenc in ("PEM", "DER"):
            cases.append({"g": "sp", "key": key_names(fam)[0], "fenc": fenc, "seed": seed})
    # km: 64 ordered key lists in 4 chunks; rg: region forms (function: all singles and ordered pairs; command line: all
    # singles, ordered pairs over RG_PAIR_SET)
    for lo in range(0, 64, 16):
        cases.append({"g": "km", "lo": lo, "hi": lo + 16, "seed": seed})
    cases.append({"g": "rg", "part": "function", "seed": seed})
    nforms = len(RG_SLICES + RG_INDICES + RG_REFUSED)
    for lo in range(0, nforms, 8):
        cases.append({"g": "rg", "part": "cli-single", "lo": lo, "hi": lo + 8, "seed": seed})
    for lo in range(0, len(RG_PAIR_SET) ** 2, 27):
        cases.append({"g": "rg", "part": "cli-pair", "lo": lo, "hi": lo + 27, "seed": seed})
    # sv
    for n in tier_keys("sv", quick):
        k = idx()[n]
        schemes = ("v15", "pss") if k["type"] == "rsa" else ("raw", "der")
        dh = DEFAULT_HASH[k.get("curve", "rsa")]
        for h in HASHES:
            for scheme in schemes:
                for pre in (0, 1):
                    c = {"g": "sv", "key": n, "hash": h, "scheme": scheme, "pre": pre, "seed": seed,
                         "flip8": (not quick) or (h == dh and pre == 0)}
                    if not quick:
                        c["lens"] = "thorough"
                        if h == dh and pre == 0:
                            c["flipmax"] = 65  # every bit of every message up to 65 B
                    cases.append(c)
    return cases


def run(ctx: core.Ctx) -> None:
    rder.selftest()
    recdsa.selftest()
    rrsa.selftest()
    ctx.count("reference_selftests", 3)
    nkeys = len(key_names())
    thorough = ctx.tier != "quick"
    lens = MSG_LENS_THOROUGH if thorough else MSG_LENS
    flipmsg = ("messages <= 65 B at the key's default hash, <= 8 B elsewhere" if thorough else
               "messages <= 8 B at the key's default hash, 1 B elsewhere")
    ctx.rule = (
        f"full products over the committed pool of {nkeys} keys (RSA-2048/3072/4096, P-256/384/521 incl. keys with a "
        f"leading-zero X or Y) plus {len(key_names(derived=True))} ECC keys derived at check time whose X, and separately Y, starts "
        f"with each of the bytes {[hex(b) for b in SNIFF_BYTES]} (P-256, P-384; public product + unencrypted private key); "
        + ("" if thorough else "quick tier: the expensive products run on a subset of the pool keys per family (sign/verify: "
           f"{tier_keys('sv', True)}; RSA private-key round trips: {[n for n in tier_keys('rt', True) if n.startswith('rsa')]}; command line on RSA: "
           f"{[n for n in tier_keys('cl', True) if n.startswith('rsa')]}), every other product on every key; ") +
        "[rt] key x {private, public} x {PEM, DER, NXP(, NXP with 4-byte exponent)} x password "
        "{none, 'p', 32 chars} x entry point {typed parse, PrivateKey/PublicKey.parse, extract_public_key_from_data, "
        "save/load through a file, recreate*, other type's parser}; [ct] every fixture certificate x {DER, PEM, NXP-padded} x "
        "{Certificate.parse, extract_public_key_from_data} and validate() under the right and two wrong issuers; [sv] key x "
        f"hash {HASHES} x {{PKCS1v15, PSS | raw, DER}} x prehashed x message length {lens} with SPSDK signing, SPSDK + "
        "reference verifying, wrong key (same size, other size), wrong hash, wrong padding, other PSS salt lengths, every "
        f"single-bit flip of {flipmsg}, digest bit flips, reference-made signatures, the key's default algorithm, "
        "PlainFileSP.get_signature x {default, NXP, DER}; [fl] every "
        "single-bit flip of a signature, ECC raw and DER and RSA v1.5/PSS (thorough: all bits, every key x hash; quick: all bits on "
        "one key per curve/size, first/middle/last byte x 8 bits on the others) against the reference verdict; [sh] genuine "
        "ECDSA signatures with chosen shapes: r class {full/msb0, full/msb1, short} x every byte length of s x top bit of s, "
        "raw and DER (prehashed mode, digest solved from the private scalar), plus message-mode signatures whose s lost 1 / 2 "
        "leading bytes; [cl] nxpcrypto on every key: key convert x source {private, public} x {PEM, DER} x target {PEM, DER, RAW} "
        "x --puk, RAW read back, key verify, signature create x {default, explicit hash} x {NXP, DER | v1.5, PSS} x key file "
        "{PEM, DER, password-protected} + signature verify on {same, flipped data, other key}; "
        "[sp] signature providers on password-protected key files (first key of each family; thorough: every RSA size): "
        "key file {PEM, DER} x pass-phrase {given, typed at the prompt (harness seam on prompt_for_passphrase; getpass disabled)} "
        "+ the unencrypted file as base line x route {get_signature_provider(local_file_key), InteractivePlainFileSP, "
        "get_signature_provider(sp_cfg type=file), (sp_cfg type=interactive_file), nxpcrypto signature create -k} x every hash x {v1.5, PSS | ECDSA}: "
        "the signature must verify under the reference with exactly the configured hash and padding; wrong pass-phrase refused; "
        "[km] get_matching_key_id / get_matching_key_id_from_signature over every ordered list (length 1-4, no repeats) of one "
        "key per family {RSA-2048, P-256, P-384, P-521} x signature/provider of every member and non-member x algorithm {left to "
        "the keys' defaults, each hash} x {v1.5, PSS | raw, DER}: index of the signing key, SPSDKError for a non-member; "
        "extract_public_key(s) on files, get_hash_type_from_signature_size on 0..139; "
        f"[rg] data regions of nxpcrypto signature create/verify -r on {RG_LEN} bytes: {len(RG_SLICES)} slice forms, {len(RG_INDICES)} single "
        f"indices, {len(RG_REFUSED)} forms to refuse; cut_off_data_regions on every form and every ordered pair; command line on every "
        f"form and the ordered pairs over {len(RG_PAIR_SET)} forms: own selection of the bytes -> reference verification of the CLI "
        "signature over exactly those bytes, signature verify on the unchanged data and after changing one byte (singles: every "
        "byte; pairs: first/last covered, one uncovered, first/last byte); "
        "[cv] every (len r, msb r, len s, msb s) class per curve through ECDSASignature.get_encoding/parse/"
        "export, the constructor, serialize_signature and SignatureProvider.get_signature x provider output {DER, raw} x "
        "requested {default, NXP, DER}. A case is distinct/non-trivial when it is a different point of these products that "
        "the code accepted (exports refused with SPSDKError — private keys in NXP form — are counted as rejected); byte "
        "contents (messages, r/s digits, salts, nonces) come from VERIF_SEED and never change what is enumerated")
    cases = build_cases(ctx.tier, ctx.seed)
    only = os.environ.get("VERIF_C08_GROUPS")  # development aid: run some groups only (never reported as exhaustive)
    if only:
        cases = [c for c in cases if c["g"] in only.split(",")]
        ctx.exhaustive = False
        ctx.cov["groups_restricted_to"] = only
    per_group: dict = {}
    for c in cases:
        per_group[c["g"]] = per_group.get(c["g"], 0) + 1
    ctx.cov["cases_per_group"] = per_group
    for g in ("cv", "sh", "fl", "rt", "ct", "cl", "sp", "km", "rg", "sv"):
        for c in cases:
            if c["g"] == g:
                ctx.sample(c)
                break
    # warm the key cache before forking
    for n in key_names():
        ckey(n)
    done: dict = {}
    # The determinism double-run covers the head of the queue (cv cases: fully deterministic).  SPSDK-made ECDSA/PSS
    # signatures are random (DESIGN 1.2: not owned); an sv/cl record that carries such bytes is not double-run.
    det = 3 if cases and cases[0]["g"] not in ("sv", "cl", "sp", "rg") else 0
    for case, res in ctx.pool_map(w_dispatch, cases, timeout=300, chunksize=1, check_det=det):
        rec = case
        if isinstance(res, dict) and res.get("aux"):
            rec = {**case, **res["aux"]}
        if ctx.absorb(rec, res):
            done[case["g"]] = done.get(case["g"], 0) + 1
        if ctx.out_of_budget():
            break
    ctx.cov["cases_completed_per_group"] = done
    if done != per_group:
        ctx.exhaustive = False
    c = ctx.counters
    ctx.cov["distinct_nontrivial"] = (len(ctx.distinct) + c.get("cv_classes", 0) + c.get("fl_flips", 0)
                                      + c.get("sh_signatures", 0) * 2 + c.get("sv_negative", 0))
    ctx.cov["evaluations"] = (c.get("cv_calls", 0) + c.get("rt_entry_points", 0) + c.get("ct_parses", 0) + c.get("cl_invocations", 0) + c.get("sp_providers", 0) + c.get("km_calls", 0) + c.get("rg_function_calls", 0)
                              + c.get("rg_cli_invocations", 0)
                              + c.get("ct_validations", 0) + c.get("sv_verifications", 0) + c.get("sv_negative", 0)
                              + c.get("fl_flips", 0) + c.get("sh_verifications", 0) * 2)
    ctx.cov["dimensions"] = {
        "keys": {f: len(key_names(f)) for f in ("rsa2048", "rsa3072", "rsa4096", "secp256r1", "secp384r1", "secp521r1")},
        "derived_keys": key_names(derived=True),
        "keys_in_sign_verify_product": tier_keys("sv", not thorough),
        "keys_in_private_roundtrip_product": tier_keys("rt", not thorough),
        "keys_in_command_line_product": tier_keys("cl", not thorough),
        "hashes": list(HASHES), "message_lengths": list(lens), "passwords": list(PASSWORDS),
        "sigconv_classes": c.get("cv_classes", 0), "sigconv_empty_classes": c.get("cv_classes_empty", 0),
        "sigconv_classes_with_undetermined_width": c.get("cv_ambiguous_width", 0),
        "signature_bits_flipped": c.get("fl_flips", 0), "flips_still_valid_per_reference": c.get("fl_still_valid", 0),
        "shaped_genuine_signatures": c.get("sh_signatures", 0), "shape_classes_unreachable": c.get("sh_classes_unreachable", 0),
        "exports_refused_by_spsdk": c.get("rt_rejected_exports", 0),
    }
    ctx.assumptions += [
        "hash algorithms 'valid for the key' = sha1, sha256, sha384, sha512 for every key type (MD5/SM3 excluded)",
        "RSA-PSS parameters as SPSDK fixes them: MGF1 over the signing hash, salt length = digest length",
        "a verify call that raises is a refusal (not an acceptance); only on a valid signature is that a violation",
        "ECDSASignature has no curve argument: for a DER signature whose r and s both fit a smaller supported width, any "
        "supported fixed width that holds both values counts as lossless; the curve's own width is demanded only when a "
        "value needs it",
        "password-protected PKCS#8 is opened by the openssl command line" if _OPENSSL else
        "openssl command line not found: password-protected PKCS#8 opened by `cryptography` called directly",
        "ECDSA/PSS signature bytes are random: verified, never compared; negative cases use reference-made deterministic "
        "signatures so that every case is reproducible",
    ]


def replay(ctx: core.Ctx, rec: dict) -> bool:
    case = rec["case"]
    res = core.run_with_watchdog(w_dispatch, case, 600)
    if res.get("__watchdog__"):
        print("watchdog: does not terminate")
        return rec["clause"].endswith(".terminates")
    hits = [v for v in res["viol"] if v[0] == rec["clause"] and v[1] == rec["disc"]]
    for h in hits[:5]:
        print(h)
    if not hits:
        for v in res["viol"][:10]:
            print("other:", v[:2])
    return bool(hits)
