"""Independent model of the boot ROM's Secure Binary 2.0 / 2.1 loader.

Works on bytes + the key-encryption key only.  Written from the format description (DESIGN §28
"SB 2.x", "Cert block v1", elftosb/KBOOT SB-loader documentation); uses `hashlib`/`hmac` and a
raw AES-ECB core from `cryptography`; key unwrap (RFC 3394), CTR counter arithmetic, layout,
HMAC tables, command decoding and CRC are written here.  No spsdk imports.

File layouts
------------
SB 2.1:  header(96) | HMAC-SHA256(mac key, HMAC table of the first section incl. its header HMAC)
         | key blob = RFC3394-wrap(KEK, DEK||MAC key) (72 B) padded to 80
         | certificate block v1 (padded to 16) | [SHA-256(all sections) if flags & 0x8000]
         | RSA signature over everything before it | boot sections
SB 2.0:  header(96) | HMAC-SHA256(mac key, header) | key blob (72 B + 8 B padding)
         | [certificate section = enc. TAG header(16) | HMAC(header ct) | HMAC(cert block)
            | cert block v1]   (signed files only)
         | boot sections | [RSA signature over everything before it]
Boot section:  AES-CTR(TAG header 16 B) | HMAC(header ciphertext) | n x HMAC(ciphertext group)
         | ciphertext commands.  TAG header: address = section id, count = command blocks,
         data = n, flags = bootable(1) | last(0x8000).  Group size = (count // n) blocks, the
         last group takes the remainder.
AES-CTR: every 16-byte block at file block index i is XORed with
         AES-ECB(DEK, nonce[0:12] || LE32((LE32(nonce[12:16]) + i) mod 2^32)).
Command header 16 B `<2BH3L`: checksum, tag, flags, address, count, data;
         checksum = (0x5A + sum(bytes 1..15)) & 0xFF.  LOAD is followed by `count` data bytes
         padded to a multiple of 16; `data` = CRC-32/MPEG-2 over the padded data.
Memory id in flags (LOAD/ERASE/MEM_ENABLE): device id = flags[15:8], group id = flags[7:4];
         memory id = group << 8 | device.
"""
from __future__ import annotations

import hashlib
import hmac as _hmac
import struct
from typing import Optional

from cryptography.hazmat.primitives.ciphers import Cipher, algorithms, modes

from vf.ref import certblock_v1

HDR_FMT = "<16s4s4s2BH4I4H4sQ12HI4s"
HDR_SIZE = struct.calcsize(HDR_FMT)
assert HDR_SIZE == 96
MAC_SIZE = 32
KEYBLOB_SIZE = 80
WRAPPED_SIZE = 72
CMD_FMT = "<2BH3L"
FLAG_SIGNED = 0x0008
FLAG_SHA = 0x8000
SECT_BOOTABLE = 0x0001
SECT_CLEARTEXT = 0x0002
SECT_LAST = 0x8000
EPOCH_2000_UNIX = 946684800  # 2000-01-01T00:00:00Z

TAGS = {0: "nop", 1: "tag", 2: "load", 3: "fill", 4: "jump", 5: "call", 7: "erase", 8: "reset",
        9: "mem_enable", 0xA: "prog", 0xB: "fw_version_check", 0xC: "keystore_to_nv",
        0xD: "keystore_from_nv"}


class RomReject(Exception):
    """The ROM would refuse the file at `stage`."""

    def __init__(self, stage: str, msg: str = ""):
        super().__init__(f"{stage}: {msg}")
        self.stage = stage
        self.msg = msg


# ---------------------------------------------------------------------------------------------
# primitives


class _Ecb:
    def __init__(self, key: bytes):
        if len(key) not in (16, 24, 32):
            raise RomReject("key", f"AES key of {len(key)} bytes")
        c = Cipher(algorithms.AES(key), modes.ECB())  # nosec - raw block primitive
        self._e = c.encryptor()
        self._d = c.decryptor()

    def enc(self, block: bytes) -> bytes:
        return self._e.update(block)

    def dec(self, block: bytes) -> bytes:
        return self._d.update(block)


def rfc3394_unwrap(kek: bytes, wrapped: bytes) -> bytes:
    """RFC 3394 §2.2.2 with the default IV; raises RomReject on an integrity failure."""
    if len(wrapped) % 8 or len(wrapped) < 24:
        raise RomReject("keyblob", "wrapped length")
    ecb = _Ecb(kek)
    n = len(wrapped) // 8 - 1
    a = wrapped[:8]
    r = [wrapped[8 * (i + 1): 8 * (i + 2)] for i in range(n)]
    for j in range(5, -1, -1):
        for i in range(n, 0, -1):
            t = n * j + i
            a_x = (int.from_bytes(a, "big") ^ t).to_bytes(8, "big")
            b = ecb.dec(a_x + r[i - 1])
            a = b[:8]
            r[i - 1] = b[8:]
    if a != b"\xA6" * 8:
        raise RomReject("keyblob", "RFC 3394 integrity check value")
    return b"".join(r)


def rfc3394_wrap(kek: bytes, plain: bytes) -> bytes:
    ecb = _Ecb(kek)
    n = len(plain) // 8
    a = b"\xA6" * 8
    r = [plain[8 * i: 8 * (i + 1)] for i in range(n)]
    for j in range(6):
        for i in range(1, n + 1):
            b = ecb.enc(a + r[i - 1])
            t = n * j + i
            a = (int.from_bytes(b[:8], "big") ^ t).to_bytes(8, "big")
            r[i - 1] = b[8:]
    return a + b"".join(r)


def crc32_mpeg2(data: bytes) -> int:
    """CRC-32/MPEG-2: poly 0x04C11DB7, init 0xFFFFFFFF, no reflection, no final xor."""
    crc = 0xFFFFFFFF
    for byte in data:
        crc ^= byte << 24
        for _ in range(8):
            crc = ((crc << 1) ^ 0x04C11DB7) & 0xFFFFFFFF if crc & 0x80000000 else (crc << 1) & 0xFFFFFFFF
    return crc


_CRC_TABLE = []
for _i in range(256):
    _c = _i << 24
    for _ in range(8):
        _c = ((_c << 1) ^ 0x04C11DB7) & 0xFFFFFFFF if _c & 0x80000000 else (_c << 1) & 0xFFFFFFFF
    _CRC_TABLE.append(_c)


def crc32_mpeg2_fast(data: bytes) -> int:
    crc = 0xFFFFFFFF
    tbl = _CRC_TABLE
    for byte in data:
        crc = ((crc << 8) & 0xFFFFFFFF) ^ tbl[(crc >> 24) ^ byte]
    return crc


def hmac256(key: bytes, data: bytes) -> bytes:
    return _hmac.new(key, data, hashlib.sha256).digest()


def _selftest() -> None:
    # RFC 3394 §4.6: 256-bit key data with a 256-bit KEK
    kek = bytes(range(32))
    kd = bytes.fromhex("00112233445566778899AABBCCDDEEFF000102030405060708090A0B0C0D0E0F")
    ct = bytes.fromhex("28C9F404C4B810F4CBCCB35CFB87F8263F5786E2D80ED326CBC7F0E71A99F43BFB988B9B7A02DD21")
    assert rfc3394_wrap(kek, kd) == ct and rfc3394_unwrap(kek, ct) == kd
    # RFC 3394 §4.1: 128-bit key data with a 128-bit KEK
    assert rfc3394_wrap(bytes(range(16)), bytes.fromhex("00112233445566778899AABBCCDDEEFF")) == bytes.fromhex(
        "1FA68B0A8112B447AEF34BD8FB5A7B829D3E862371D2CFE5")
    assert crc32_mpeg2(b"123456789") == 0x0376E6E7 == crc32_mpeg2_fast(b"123456789")
    # FIPS-197 C.3
    assert _Ecb(bytes(range(32))).enc(bytes.fromhex("00112233445566778899aabbccddeeff")) == bytes.fromhex(
        "8ea2b7ca516745bfeafc49904b496089")


_selftest()


class _Ctr:
    """AES-CTR keyed by file position."""

    def __init__(self, dek: bytes, nonce: bytes):
        self._ecb = _Ecb(dek)
        self._prefix = nonce[:12]
        self._word = int.from_bytes(nonce[12:16], "little")

    def block(self, data16: bytes, file_block_index: int) -> bytes:
        ctr = (self._word + file_block_index) & 0xFFFFFFFF
        ks = self._ecb.enc(self._prefix + ctr.to_bytes(4, "little"))
        return bytes(x ^ y for x, y in zip(data16, ks))

    def blocks(self, data: bytes, first_block_index: int) -> bytes:
        out = bytearray()
        for i in range(0, len(data), 16):
            out += self.block(data[i:i + 16], first_block_index + i // 16)
        return bytes(out)


# ---------------------------------------------------------------------------------------------
# header


def _bcd(raw2: bytes) -> str:
    """A version component is stored as big-endian BCD in 2 bytes."""
    v = int.from_bytes(raw2, "big")
    for sh in (12, 8, 4, 0):
        if (v >> sh) & 0xF > 9:
            raise RomReject("header", f"version component {v:#06x} is not BCD")
    return f"{v:X}"


def parse_header(data: bytes) -> dict:
    if len(data) < HDR_SIZE:
        raise RomReject("header", "file shorter than the header")
    f = struct.unpack_from(HDR_FMT, data, 0)
    (nonce, pad0, sig1, major, minor, flags, image_blocks, first_boot_tag_block, first_section_id,
     cert_offset, header_blocks, key_blob_block, key_blob_block_count, max_mac_count, sig2, ts) = f[:16]
    build, pad1 = f[28], f[29]  # f[16:28] = version words, decoded from the raw bytes below
    if sig1 != b"STMP":
        raise RomReject("header", f"signature 1 {sig1!r}")
    if sig2 != b"sgtl":
        raise RomReject("header", f"signature 2 {sig2!r}")
    if major != 2 or minor not in (0, 1):
        raise RomReject("header", f"version {major}.{minor}")
    if header_blocks != HDR_SIZE // 16:
        raise RomReject("header", f"header blocks {header_blocks}")
    if key_blob_block != (HDR_SIZE + MAC_SIZE) // 16 or key_blob_block_count != KEYBLOB_SIZE // 16:
        raise RomReject("header", f"key blob block {key_blob_block}/{key_blob_block_count}")
    # versions: 12 u16 starting right after the u64 timestamp
    voff = struct.calcsize("<16s4s4s2BH4I4H4sQ")
    comps = [bytes(data[voff + 2 * i: voff + 2 * i + 2]) for i in range(12)]
    product = ".".join(_bcd(comps[i]) for i in (0, 2, 4))
    component = ".".join(_bcd(comps[i]) for i in (6, 8, 10))
    return {
        "nonce": bytes(nonce), "pad0": bytes(pad0), "pad1": bytes(pad1), "major": major, "minor": minor,
        "flags": flags, "image_blocks": image_blocks, "first_boot_tag_block": first_boot_tag_block,
        "first_boot_section_id": first_section_id, "offset_to_certificate_block": cert_offset,
        "header_blocks": header_blocks, "key_blob_block": key_blob_block,
        "key_blob_block_count": key_blob_block_count, "max_section_mac_count": max_mac_count,
        "timestamp_us": ts, "product_version": product, "component_version": component,
        "version_pad": [comps[i] for i in (1, 3, 5, 7, 9, 11)], "build_number": build,
    }


# ---------------------------------------------------------------------------------------------
# commands


def checksum_ok(hdr16: bytes) -> bool:
    return hdr16[0] == (0x5A + sum(hdr16[1:16])) & 0xFF


def mem_id_of_flags(flags: int) -> int:
    return (((flags >> 4) & 0xF) << 8) | ((flags >> 8) & 0xFF)


def decode_commands(plain: bytes) -> list:
    """Decode a decrypted command stream (multiple of 16 bytes) into a list of dicts.

    Every dict has `cmd` and the raw header words `tag, flags, address, count, data`; LOAD adds
    `payload` (count bytes) and `padding` (bytes up to the 16 byte boundary)."""
    out = []
    pos = 0
    while pos < len(plain):
        hdr = plain[pos:pos + 16]
        if len(hdr) < 16:
            raise RomReject("command", f"truncated header at {pos}")
        if not checksum_ok(hdr):
            raise RomReject("command", f"header checksum at offset {pos}")
        _, tag, flags, address, count, dat = struct.unpack(CMD_FMT, hdr)
        if tag not in TAGS:
            raise RomReject("command", f"unknown tag {tag:#x} at offset {pos}")
        cmd = {"cmd": TAGS[tag], "tag": tag, "flags": flags, "address": address, "count": count, "data": dat,
               "offset": pos}
        pos += 16
        if tag == 2:
            padded = (count + 15) // 16 * 16
            if pos + padded > len(plain):
                raise RomReject("command", f"LOAD at {pos - 16}: {count} data bytes exceed the section")
            body = plain[pos:pos + padded]
            if crc32_mpeg2_fast(body) != dat:
                raise RomReject("command", f"LOAD at {pos - 16}: CRC")
            cmd["payload"] = bytes(body[:count])
            cmd["padding"] = bytes(body[count:])
            cmd["mem_id"] = mem_id_of_flags(flags)
            pos += padded
        out.append(cmd)
    return out


def semantic(cmd: dict) -> dict:
    """What the ROM does with a decoded command (only the fields the ROM uses)."""
    t = cmd["cmd"]
    fl, a, c, d = cmd["flags"], cmd["address"], cmd["count"], cmd["data"]
    if t in ("nop", "reset"):
        return {"cmd": t}
    if t == "tag":
        return {"cmd": t, "flags": fl, "address": a, "count": c, "data": d}
    if t == "load":
        return {"cmd": t, "address": a, "mem_id": mem_id_of_flags(fl), "flags_other": fl & 0x000F,
                "payload": cmd["payload"]}
    if t == "fill":
        return {"cmd": t, "address": a, "length": c, "pattern_word": d, "flags": fl}
    if t == "jump":
        return {"cmd": t, "address": a, "argument": d, "sp": c if fl & 2 else None, "flags_other": fl & ~2}
    if t == "call":
        return {"cmd": t, "address": a, "argument": d, "flags": fl}
    if t == "erase":
        return {"cmd": t, "address": a, "length": c, "mem_id": mem_id_of_flags(fl), "flags_other": fl & 0x000F}
    if t == "mem_enable":
        return {"cmd": t, "address": a, "size": c, "mem_id": mem_id_of_flags(fl), "flags_other": fl & 0x000F}
    if t == "prog":
        return {"cmd": t, "address": a, "mem_id": (fl >> 8) & 0xFF, "eight_byte": fl & 1,
                "word1": c, "word2": d, "flags_other": fl & 0x00FE}
    if t == "fw_version_check":
        return {"cmd": t, "type": a, "version": c, "flags": fl}
    if t in ("keystore_to_nv", "keystore_from_nv"):
        return {"cmd": t, "address": a, "mem_id": (fl >> 8) & 0xFF, "flags_other": fl & 0x00FF}
    raise RomReject("command", t)


# ---------------------------------------------------------------------------------------------
# sections


def read_section(data: bytes, off: int, end: int, ctr: _Ctr, mac_key: bytes, cleartext_ok: bool = False) -> dict:
    """Authenticate + decrypt + decode the boot section whose TAG header is at file offset `off`."""
    if off % 16:
        raise RomReject("section", "unaligned section offset")
    if off + 48 > end:
        raise RomReject("section", f"section header at {off} exceeds the image")
    hdr_ct = data[off:off + 16]
    if hmac256(mac_key, hdr_ct) != data[off + 16:off + 48]:
        raise RomReject("section-header-hmac", f"section at {off}")
    hdr = ctr.block(hdr_ct, off // 16)
    if not checksum_ok(hdr):
        raise RomReject("section-header", f"checksum of the TAG header at {off}")
    _, tag, flags, uid, count, nmac = struct.unpack(CMD_FMT, hdr)
    if tag != 1:
        raise RomReject("section-header", f"tag {tag}")
    if not flags & SECT_BOOTABLE and not cleartext_ok:
        raise RomReject("section-header", f"flags {flags:#x}: not bootable")
    if nmac < 1:
        raise RomReject("section-header", "HMAC count 0")
    tbl_off = off + 48
    cmd_off = tbl_off + 32 * nmac
    cmd_end = cmd_off + 16 * count
    if cmd_end > end:
        raise RomReject("section", f"section at {off}: {count} blocks + {nmac} HMACs exceed the image")
    if count < nmac:
        raise RomReject("section-header", f"HMAC count {nmac} > block count {count}")
    group = (count // nmac) * 16
    pos = cmd_off
    groups = []
    for i in range(nmac):
        g_end = cmd_end if i == nmac - 1 else pos + group
        if hmac256(mac_key, data[pos:g_end]) != data[tbl_off + 32 * i: tbl_off + 32 * (i + 1)]:
            raise RomReject("section-hmac", f"section at {off}: HMAC entry {i}")
        groups.append((pos, g_end))
        pos = g_end
    plain = ctr.blocks(data[cmd_off:cmd_end], cmd_off // 16)
    cmds = decode_commands(plain)
    return {"offset": off, "uid": uid, "flags": flags, "hmac_count": nmac, "blocks": count,
            "end": cmd_end, "commands": cmds, "header_plain": hdr, "table_off": tbl_off, "cmd_off": cmd_off,
            "groups": groups}


# ---------------------------------------------------------------------------------------------
# whole file


def process(data: bytes, kek: bytes) -> dict:
    """Run the loader over the file; returns what it decoded, raises RomReject if it refuses.

    result: header (dict), dek, mac, version ("2.0"/"2.1"), signed, cert (dict or None),
    sections [..], regions [(name, start, end, authenticated)], notes [..]"""
    data = bytes(data)
    if len(data) % 16:
        raise RomReject("layout", "file length is not a multiple of 16")
    h = parse_header(data)
    if len(data) < HDR_SIZE + MAC_SIZE + KEYBLOB_SIZE:
        raise RomReject("layout", "file shorter than header + HMAC + key blob")
    kb_off = HDR_SIZE + MAC_SIZE
    keys = rfc3394_unwrap(kek, data[kb_off:kb_off + WRAPPED_SIZE])
    if len(keys) != 64:
        raise RomReject("keyblob", "unwrapped length")
    dek, mac = keys[:32], keys[32:]
    ctr = _Ctr(dek, h["nonce"])
    res = {"header": h, "dek": dek, "mac": mac, "version": f"{h['major']}.{h['minor']}", "notes": []}
    if h["minor"] == 1:
        _process_21(data, h, ctr, mac, res)
    else:
        _process_20(data, h, ctr, mac, res)
    return res


def _walk_sections(data: bytes, start: int, end: int, ctr: _Ctr, mac: bytes) -> list:
    sections = []
    pos = start
    while pos < end:
        s = read_section(data, pos, end, ctr, mac)
        sections.append(s)
        pos = s["end"]
    if pos != end:
        raise RomReject("layout", "sections do not end at the end of the image")
    if not sections:
        raise RomReject("layout", "no boot section")
    return sections


def _section_regions(sections: list) -> list:
    out = []
    for i, s in enumerate(sections):
        o = s["offset"]
        out.append((f"s{i}-tag-header", o, o + 16, True))
        out.append((f"s{i}-tag-hmac", o + 16, o + 48, True))
        for j in range(s["hmac_count"]):
            out.append((f"s{i}-hmac{j}", s["table_off"] + 32 * j, s["table_off"] + 32 * (j + 1), True))
        for j, (a, b) in enumerate(s["groups"]):
            out.append((f"s{i}-group{j}", a, b, True))
    return out


def _process_21(data: bytes, h: dict, ctr: _Ctr, mac: bytes, res: dict) -> None:
    base = HDR_SIZE + MAC_SIZE + KEYBLOB_SIZE  # 208
    if not h["flags"] & FLAG_SIGNED:
        raise RomReject("header", f"flags {h['flags']:#x}: SB 2.1 must be signed + encrypted")
    if h["offset_to_certificate_block"] != base:
        raise RomReject("header", f"certificate block offset {h['offset_to_certificate_block']}")
    try:
        cb = certblock_v1.read(data, base, alignment=16)
    except certblock_v1.CertBlockError as e:
        raise RomReject(e.stage, e.msg)
    off = base + cb["size"]
    sha = None
    if h["flags"] & FLAG_SHA:
        sha = data[off:off + 32]
        off += 32
    sig = data[off:off + cb["sig_len"]]
    if len(sig) != cb["sig_len"]:
        raise RomReject("signature", "truncated")
    if not certblock_v1.verify_signature(cb, sig, data[:off]):
        raise RomReject("signature", "RSA signature over header..certificate block[..digest]")
    sig_off = off
    start = off + cb["sig_len"]
    end = len(data)
    # block counts.  With the digest flag the 2 digest blocks may or may not be counted (no
    # authoritative golden exists); both are accepted and noted.
    sha_blocks = 2 if sha is not None else 0
    ok_fbt = {start // 16} | ({start // 16 - sha_blocks} if sha_blocks else set())
    ok_img = {end // 16} | ({end // 16 - sha_blocks} if sha_blocks else set())
    if h["first_boot_tag_block"] not in ok_fbt:
        raise RomReject("header-blocks", f"first boot tag block {h['first_boot_tag_block']}, sections start at block {start // 16}")
    if h["image_blocks"] not in ok_img:
        raise RomReject("header-blocks", f"image blocks {h['image_blocks']}, file has {end // 16}")
    if sha_blocks and (h["first_boot_tag_block"] != start // 16 or h["image_blocks"] != end // 16):
        res["notes"].append("digest-blocks-not-counted")
    if cb["image_length"] not in (base + cb["size"], base + cb["size"] + (32 if sha is not None else 0)):
        raise RomReject("cert-header", f"image length {cb['image_length']} != signed header length {base + cb['size']}")
    if cb["build_number"] != h["build_number"]:
        res["notes"].append("cert-build-number-differs")
    if sha is not None and hashlib.sha256(data[start:end]).digest() != sha:
        raise RomReject("sections-digest", "SHA-256 of the boot sections")
    sections = _walk_sections(data, start, end, ctr, mac)
    s0 = sections[0]
    table = data[s0["offset"] + 16: s0["offset"] + 48 + 32 * s0["hmac_count"]]
    if hmac256(mac, table) != data[HDR_SIZE:HDR_SIZE + MAC_SIZE]:
        raise RomReject("header-hmac", "HMAC over the first section's HMAC table")
    if s0["uid"] != h["first_boot_section_id"]:
        raise RomReject("header", f"first boot section id {h['first_boot_section_id']} != {s0['uid']}")
    if sum(s["hmac_count"] for s in sections) != h["max_section_mac_count"]:
        raise RomReject("header", f"section MAC count {h['max_section_mac_count']}")
    regions = [("header", 0, HDR_SIZE, True), ("header-hmac", HDR_SIZE, HDR_SIZE + MAC_SIZE, True),
               ("keyblob", HDR_SIZE + MAC_SIZE, HDR_SIZE + MAC_SIZE + WRAPPED_SIZE, True),
               ("keyblob-pad", HDR_SIZE + MAC_SIZE + WRAPPED_SIZE, base, True)]
    regions += [(n, a, b, True) for (n, a, b) in cb["regions"]]
    if sha is not None:
        regions.append(("sections-digest", sig_off - 32, sig_off, True))
    regions.append(("signature", sig_off, start, True))
    regions += _section_regions(sections)
    res.update({"signed": True, "cert": cb, "sections": sections, "regions": regions, "sections_start": start,
                "digest": sha})


def _process_20(data: bytes, h: dict, ctr: _Ctr, mac: bytes, res: dict) -> None:
    base = HDR_SIZE + MAC_SIZE + KEYBLOB_SIZE  # 208
    if hmac256(mac, data[:HDR_SIZE]) != data[HDR_SIZE:HDR_SIZE + MAC_SIZE]:
        raise RomReject("header-hmac", "HMAC over the header")
    signed = bool(h["flags"] & FLAG_SIGNED)
    img_end = h["image_blocks"] * 16
    regions = [("header", 0, HDR_SIZE, True), ("header-hmac", HDR_SIZE, HDR_SIZE + MAC_SIZE, True),
               ("keyblob", HDR_SIZE + MAC_SIZE, HDR_SIZE + MAC_SIZE + WRAPPED_SIZE, True),
               ("keyblob-pad", HDR_SIZE + MAC_SIZE + WRAPPED_SIZE, base, signed)]
    cb = None
    start = base
    if signed:
        if h["offset_to_certificate_block"] != base + 16 + 64:
            raise RomReject("header", f"certificate block offset {h['offset_to_certificate_block']}")
        if base + 80 > len(data):
            raise RomReject("layout", "truncated certificate section")
        hdr_ct = data[base:base + 16]
        if hmac256(mac, hdr_ct) != data[base + 16:base + 48]:
            raise RomReject("section-header-hmac", "certificate section")
        hdr = ctr.block(hdr_ct, base // 16)
        if not checksum_ok(hdr):
            raise RomReject("section-header", "checksum of the certificate section TAG")
        _, tag, sflags, mark, count, nmac = struct.unpack(CMD_FMT, hdr)
        if tag != 1 or not sflags & SECT_CLEARTEXT or mark != int.from_bytes(b"sign", "little") or nmac != 1:
            raise RomReject("section-header", f"certificate section TAG tag={tag} flags={sflags:#x} mark={mark:#x}")
        try:
            cb = certblock_v1.read(data, base + 80, alignment=16)
        except certblock_v1.CertBlockError as e:
            raise RomReject(e.stage, e.msg)
        if count * 16 != cb["size"]:
            raise RomReject("section-header", f"certificate section length {count} blocks != block of {cb['size']} B")
        if hmac256(mac, data[base + 80: base + 80 + cb["size"]]) != data[base + 48: base + 80]:
            raise RomReject("section-hmac", "certificate block")
        start = base + 80 + cb["size"]
        if len(data) != img_end + cb["sig_len"]:
            raise RomReject("layout", f"file length {len(data)} != image {img_end} + signature {cb['sig_len']}")
        if not certblock_v1.verify_signature(cb, data[img_end:], data[:img_end]):
            raise RomReject("signature", "RSA signature over the image")
        if cb["build_number"] != h["build_number"]:
            res["notes"].append("cert-build-number-differs")
        regions += [("cert-section-tag", base, base + 16, True), ("cert-section-tag-hmac", base + 16, base + 48, True),
                    ("cert-section-body-hmac", base + 48, base + 80, True)]
        regions += [(n, a, b, True) for (n, a, b) in cb["regions"]]
    else:
        if h["offset_to_certificate_block"] != 0:
            raise RomReject("header", "certificate block offset in an unsigned file")
        if len(data) != img_end:
            raise RomReject("layout", f"file length {len(data)} != image blocks {h['image_blocks']}")
    if h["first_boot_tag_block"] * 16 != start:
        raise RomReject("header-blocks", f"first boot tag block {h['first_boot_tag_block']}, sections start at {start // 16}")
    if img_end > len(data):
        raise RomReject("layout", "image blocks exceed the file")
    sections = _walk_sections(data, start, img_end, ctr, mac)
    if sections[0]["uid"] != h["first_boot_section_id"]:
        raise RomReject("header", f"first boot section id {h['first_boot_section_id']}")
    if sum(s["hmac_count"] for s in sections) + (1 if signed else 0) != h["max_section_mac_count"]:
        raise RomReject("header", f"section MAC count {h['max_section_mac_count']}")
    regions += _section_regions(sections)
    if signed:
        regions.append(("signature", img_end, len(data), True))
    res.update({"signed": signed, "cert": cb, "sections": sections, "regions": regions, "sections_start": start,
                "digest": None})


def timestamp_us(unix_seconds: int) -> int:
    """Header timestamp of an instant given as Unix seconds."""
    return (unix_seconds - EPOCH_2000_UNIX) * 1000000
