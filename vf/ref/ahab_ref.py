"""Independent reader / verifier of exported AHAB image *bytes* (no spsdk imports).

Written from the layout tables in the class docstrings of spsdk/image/ahab/*.py (container header, image array
entry, signature block, SRK table / SRK record / SRK data / SRK table array, signature, certificate, blob) and
the AHAB chapter of the i.MX 8/9 / RT118x reference manuals those tables are copied from.  It models what the
boot ROM / EdgeLock enclave does with an image set:

  * containers sit at index * 0x400 (container version 0) or index * 0x4000 (container version 2);
  * every image array entry (128 B) points - relative to its container - at `size` bytes inside the file that hash,
    under the algorithm named in the entry flags, to the left-aligned hash field; an encrypted entry decrypts with
    AES-CBC (key = DEK, IV = upper half of the 32-byte IV field) to data whose SHA-256 is the IV field;
  * a container whose SRK set is not "none" carries a signature block with an SRK table (4 records of one type), the
    selected record must not be revoked, and the signature (RSASSA-PSS or ECDSA r||s) verifies under that record
    (or under the certificate key when a certificate with the container permission is present, the certificate being
    signed by the selected SRK) over bytes [container start, signature block start + signature offset);
  * SRK hash (fuses) = SHA-256 of the SRK table (version 0) / SHA-512 of each SRK table (version 2);
  * no two images overlap, no image overlaps a container.

`examine()` never raises on malformed input: it returns the decoded structure, the list of problems
[(stage, message)] and the list of authenticated regions [(name, start, end)] for the tamper sweep.
Signature arithmetic: crypto="ref" uses vf.ref.rsa / vf.ref.ecdsa (pure Python, written from RFC 8017 / FIPS 186-4);
crypto="lib" uses `cryptography` directly (fast path for the tamper sweeps).  Both are compared on intact files.
"""
from __future__ import annotations

import hashlib
import struct
from typing import Optional

TAG_CONTAINER = 0x87
TAG_SIGBLOCK = 0x90
TAG_SRK_TABLE = 0xD7
TAG_SRK_RECORD = 0xE1
TAG_SRK_TABLE_ARRAY = 0x5A
TAG_SRK_DATA = 0x5D
TAG_SIGNATURE = 0xD8
TAG_CERTIFICATE = 0xAF
TAG_BLOB = 0x81

CONTAINER_SLOT = {0: 0x400, 2: 0x4000}  # container version -> distance between containers
MAX_CONTAINERS = 4
IAE_SIZE = 128
HDR_SIZE = 16

SRK_SET = {0: "none", 1: "nxp", 2: "oem"}
SIGN_ALG = {0x21: "rsa", 0x22: "rsa_pss", 0x27: "ecdsa", 0x28: "sm2", 0xD1: "dilithium", 0xD2: "ml-dsa"}
HASH_V1 = {0: "sha256", 1: "sha384", 2: "sha512", 3: "sm3"}
HASH_V2 = dict(HASH_V1)
HASH_V2.update({4: "sha3_256", 5: "sha3_384", 6: "sha3_512", 8: "shake_128/256", 9: "shake_256/512"})
# key size / curve code -> (kind, name, len1, len2)
KEY_TYPE = {
    1: ("ec", "secp256r1", 32, 32), 2: ("ec", "secp384r1", 48, 48), 3: ("ec", "secp521r1", 66, 66),
    5: ("rsa", "rsa2048", 256, 4), 6: ("rsa", "rsa3072", 384, 4), 7: ("rsa", "rsa4096", 512, 4),
    8: ("sm2", "sm2", 32, 32), 9: ("pqc", "dilithium3", 1952, 0), 10: ("pqc", "dilithium5", 2592, 0),
}
SRK_FLAG_CA = 0x80
CERT_PERM_CONTAINER = 0x01


def align(n: int, a: int) -> int:
    return (n + a - 1) // a * a


def digest(name: str, data: bytes) -> Optional[bytes]:
    if name in ("sha256", "sha384", "sha512", "sha3_256", "sha3_384", "sha3_512"):
        return hashlib.new(name, data).digest()
    if name == "shake_128/256":
        return hashlib.shake_128(data).digest(32)
    if name == "shake_256/512":
        return hashlib.shake_256(data).digest(64)
    return None  # SM3: back end not modelled


def head(data: bytes, off: int) -> Optional[tuple]:
    """(version, length, tag) of a 'version | length | tag' header."""
    if off < 0 or off + 4 > len(data):
        return None
    v, ln, t = struct.unpack_from("<BHB", data, off)
    return v, ln, t


def head_inv(data: bytes, off: int) -> Optional[tuple]:
    """(tag, length, version) of a 'tag | length | version' header (SRK table, SRK record)."""
    if off < 0 or off + 4 > len(data):
        return None
    t, ln, v = struct.unpack_from("<BHB", data, off)
    return t, ln, v


# ---------------------------------------------------------------------------------------------
# signatures


def _pss_verify_auto_salt(n: int, e: int, hash_name: str, m_hash: bytes, sig: bytes) -> Optional[int]:
    """RSASSA-PSS-VERIFY (RFC 8017 8.1.2 / 9.1.2) with the salt length recovered from the encoded message.
    Returns the salt length, or None when the signature is invalid."""
    from vf.ref import rsa

    k = (n.bit_length() + 7) // 8
    if len(sig) != k:
        return None
    m = rsa.rsavp1(n, e, int.from_bytes(sig, "big"))
    if m is None:
        return None
    em_bits = n.bit_length() - 1
    em_len = (em_bits + 7) // 8
    if m >> (8 * em_len):
        return None
    em = m.to_bytes(em_len, "big")
    h_len = len(m_hash)
    if em_len < h_len + 2 or em[-1] != 0xBC:
        return None
    masked_db = em[:em_len - h_len - 1]
    h = em[em_len - h_len - 1:-1]
    zero_bits = 8 * em_len - em_bits
    if zero_bits and masked_db[0] >> (8 - zero_bits):
        return None
    mask = rsa.mgf1(hash_name, h, len(masked_db))
    db = bytearray(a ^ b for a, b in zip(masked_db, mask))
    if zero_bits:
        db[0] &= 0xFF >> zero_bits
    i = 0
    while i < len(db) and db[i] == 0:
        i += 1
    if i >= len(db) or db[i] != 0x01:
        return None
    salt = bytes(db[i + 1:])
    if hashlib.new(hash_name, b"\x00" * 8 + m_hash + salt).digest() != h:
        return None
    return len(salt)


def verify_signature(key: dict, hash_name: str, msg: bytes, sig: bytes, crypto: str = "ref") -> tuple:
    """-> (ok, note).  key: {'kind': 'rsa', 'n', 'e', 'pss'} | {'kind': 'ec', 'curve', 'x', 'y'}."""
    if hash_name not in ("sha256", "sha384", "sha512"):
        return False, f"hash {hash_name} not modelled for signatures"
    md = hashlib.new(hash_name, msg).digest()
    if key["kind"] == "rsa":
        if crypto == "ref":
            from vf.ref import rsa

            if key["pss"]:
                s_len = _pss_verify_auto_salt(key["n"], key["e"], hash_name, md, sig)
                return (s_len is not None), (f"salt={s_len}" if s_len is not None else "pss mismatch")
            return rsa.verify_pkcs1_v15(key["n"], key["e"], hash_name, md, sig), "pkcs1-v1_5"
        from cryptography.exceptions import InvalidSignature
        from cryptography.hazmat.primitives import hashes
        from cryptography.hazmat.primitives.asymmetric import padding
        from cryptography.hazmat.primitives.asymmetric import rsa as crsa

        h = {"sha256": hashes.SHA256, "sha384": hashes.SHA384, "sha512": hashes.SHA512}[hash_name]()
        try:
            pub = crsa.RSAPublicNumbers(key["e"], key["n"]).public_key()
            pad = padding.PSS(mgf=padding.MGF1(h), salt_length=padding.PSS.AUTO) if key["pss"] else padding.PKCS1v15()
            pub.verify(sig, msg, pad, h)
            return True, "lib"
        except (InvalidSignature, ValueError):
            return False, "lib mismatch"
    if key["kind"] == "ec":
        if crypto == "ref":
            from vf.ref import ecdsa

            c = ecdsa.CURVES[key["curve"]]
            return ecdsa.verify_sig(c, (key["x"], key["y"]), md, sig, "raw"), "ecdsa raw"
        from cryptography.exceptions import InvalidSignature
        from cryptography.hazmat.primitives import hashes
        from cryptography.hazmat.primitives.asymmetric import ec
        from cryptography.hazmat.primitives.asymmetric.utils import encode_dss_signature

        h = {"sha256": hashes.SHA256, "sha384": hashes.SHA384, "sha512": hashes.SHA512}[hash_name]()
        cv = {"secp256r1": ec.SECP256R1, "secp384r1": ec.SECP384R1, "secp521r1": ec.SECP521R1}[key["curve"]]()
        size = (cv.key_size + 7) // 8
        if len(sig) != 2 * size:
            return False, "raw signature length"
        try:
            pub = ec.EllipticCurvePublicNumbers(key["x"], key["y"], cv).public_key()
            pub.verify(encode_dss_signature(int.from_bytes(sig[:size], "big"), int.from_bytes(sig[size:], "big")),
                       msg, ec.ECDSA(h))
            return True, "lib"
        except (InvalidSignature, ValueError):
            return False, "lib mismatch"
    return False, f"key kind {key['kind']} not modelled"


# ---------------------------------------------------------------------------------------------
# SRK structures


def _key_from_params(code: int, alg: int, params: bytes) -> Optional[dict]:
    kt = KEY_TYPE.get(code)
    if kt is None:
        return None
    kind, name, l1, l2 = kt
    if len(params) != l1 + l2:
        return None
    p1 = int.from_bytes(params[:l1], "big")
    p2 = int.from_bytes(params[l1:], "big")
    if kind == "rsa" and SIGN_ALG.get(alg) in ("rsa", "rsa_pss"):
        return {"kind": "rsa", "n": p1, "e": p2, "pss": SIGN_ALG[alg] == "rsa_pss", "name": name}
    if kind == "ec" and SIGN_ALG.get(alg) == "ecdsa":
        return {"kind": "ec", "curve": name, "x": p1, "y": p2, "name": name}
    return {"kind": "unusable", "name": f"{name} with signing algorithm {SIGN_ALG.get(alg, hex(alg))}"}


def read_srk_record(data: bytes, off: int, v2: bool, hashes: dict, prob: list, where: str) -> Optional[dict]:
    """SRK record: tag | length | signing algorithm ; hash | key size | reserved | flags ; len1 | len2 ; params."""
    h = head_inv(data, off)
    if h is None or off + 12 > len(data):
        prob.append(("srk-table", f"{where}: record header outside the file"))
        return None
    tag, ln, alg = h
    hash_alg, code, rsv, flags, l1, l2 = struct.unpack_from("<BBBBHH", data, off + 4)
    rec = {"off": off, "tag": tag, "length": ln, "alg": alg, "alg_name": SIGN_ALG.get(alg), "hash": hashes.get(hash_alg),
           "hash_code": hash_alg, "key_code": code, "flags": flags, "len1": l1, "len2": l2}
    if tag != TAG_SRK_RECORD:
        prob.append(("srk-table", f"{where}: record tag {tag:#x}"))
    if alg not in SIGN_ALG:
        prob.append(("srk-table", f"{where}: signing algorithm {alg:#x}"))
    if rec["hash"] is None:
        prob.append(("srk-table", f"{where}: hash algorithm {hash_alg}"))
    if rsv != 0:
        prob.append(("srk-table", f"{where}: reserved byte {rsv:#x}"))
    kt = KEY_TYPE.get(code)
    if kt is None:
        prob.append(("srk-table", f"{where}: key size / curve code {code}"))
        return rec
    if (l1, l2) != (kt[2], kt[3]):
        prob.append(("srk-table", f"{where}: parameter lengths {l1}/{l2} for {kt[1]}"))
    body = 64 if v2 else kt[2] + kt[3]
    if ln != 12 + body:
        prob.append(("srk-table", f"{where}: record length {ln}, expected {12 + body}"))
    if off + 12 + body > len(data):
        prob.append(("srk-table", f"{where}: record body outside the file"))
        return rec
    rec["body"] = data[off + 12:off + 12 + body]
    if not v2:
        rec["key"] = _key_from_params(code, alg, rec["body"])
    return rec


def read_srk_table(data: bytes, off: int, v2: bool, hashes: dict, prob: list, where: str) -> Optional[dict]:
    """SRK table: tag 0xD7 | length | version (0x42 / 0x43), then 4 records of equal size."""
    h = head_inv(data, off)
    if h is None:
        prob.append(("srk-table", f"{where}: outside the file"))
        return None
    tag, ln, ver = h
    tab = {"off": off, "length": ln, "version": ver, "records": []}
    if tag != TAG_SRK_TABLE:
        prob.append(("srk-table", f"{where}: tag {tag:#x}"))
        return None
    if ver != (0x43 if v2 else 0x42):
        prob.append(("srk-table", f"{where}: version {ver:#x}"))
    if off + ln > len(data) or ln < 4 or (ln - 4) % 4:
        prob.append(("srk-table", f"{where}: length {ln}"))
        return None
    tab["bytes"] = data[off:off + ln]
    size = (ln - 4) // 4
    for i in range(4):
        rec = read_srk_record(data, off + 4 + i * size, v2, hashes, prob, f"{where} record {i}")
        if rec is None:
            return None
        if rec["length"] != size:
            prob.append(("srk-table", f"{where} record {i}: length {rec['length']} != slot {size}"))
        tab["records"].append(rec)
    r0 = tab["records"][0]
    for i, r in enumerate(tab["records"][1:], 1):
        for f in ("alg", "hash_code", "key_code", "flags", "length"):
            if r[f] != r0[f]:
                prob.append(("srk-table", f"{where}: record {i} differs from record 0 in {f}"))
    return tab


def srk_record_bytes(key: dict, flags: int = 0, v2_data_hash: Optional[bytes] = None) -> bytes:
    """SRK record for a fixture key given as numbers: {'type': 'rsa', 'bits', 'n', 'e'} | {'type': 'ecc', 'curve', 'x', 'y'}."""
    if key["type"] == "rsa":
        code = {2048: 5, 3072: 6, 4096: 7}[key["bits"]]
        alg, hsh = 0x22, 0
    else:
        code = {"secp256r1": 1, "secp384r1": 2, "secp521r1": 3}[key["curve"]]
        alg, hsh = 0x27, {1: 0, 2: 1, 3: 2}[code]
    _, _, l1, l2 = KEY_TYPE[code]
    body = v2_data_hash if v2_data_hash is not None else key_params(key)
    return struct.pack("<BHBBBBBHH", TAG_SRK_RECORD, 12 + len(body), alg, hsh, code, 0, flags, l1, l2) + body


def key_params(key: dict) -> bytes:
    if key["type"] == "rsa":
        code = {2048: 5, 3072: 6, 4096: 7}[key["bits"]]
        a, b = int(key["n"], 16) if isinstance(key["n"], str) else key["n"], key["e"]
    else:
        code = {"secp256r1": 1, "secp384r1": 2, "secp521r1": 3}[key["curve"]]
        a = int(key["x"], 16) if isinstance(key["x"], str) else key["x"]
        b = int(key["y"], 16) if isinstance(key["y"], str) else key["y"]
    if isinstance(b, str):
        b = int(b, 16)
    _, _, l1, l2 = KEY_TYPE[code]
    return a.to_bytes(l1, "big") + b.to_bytes(l2, "big")


def srk_data_bytes(key: dict, srk_id: int) -> bytes:
    """SRK data (container version 2): version 0 | length | tag 0x5D ; SRK id | reserved ; key data."""
    body = key_params(key)
    return struct.pack("<BHBBBH", 0, 8 + len(body), TAG_SRK_DATA, srk_id, 0, 0) + body


def srk_record_hash_name(key: dict) -> str:
    if key["type"] == "rsa":
        return "sha256"
    return {"secp256r1": "sha256", "secp384r1": "sha384", "secp521r1": "sha512"}[key["curve"]]


def srk_table_bytes(keys: list, flags: int = 0, v2: bool = False) -> bytes:
    """Expected SRK table for four fixture keys (numbers), container version 0 (v2=False) or 2."""
    recs = b""
    for i, k in enumerate(keys):
        if v2:
            d = digest(srk_record_hash_name(k), srk_data_bytes(k, i))
            assert d is not None
            recs += srk_record_bytes(k, flags, d + bytes(64 - len(d)))
        else:
            recs += srk_record_bytes(k, flags)
    return struct.pack("<BHB", TAG_SRK_TABLE, 4 + len(recs), 0x43 if v2 else 0x42) + recs


# ---------------------------------------------------------------------------------------------
# the reader


def _read_signature(data: bytes, off: int, prob: list, where: str) -> Optional[dict]:
    """Signature: version 0 | length | tag 0xD8 ; reserved ; signature data."""
    h = head(data, off)
    if h is None or off + 8 > len(data):
        prob.append(("signature", f"{where}: outside the file"))
        return None
    ver, ln, tag = h
    if tag != TAG_SIGNATURE or ver != 0:
        prob.append(("signature", f"{where}: tag {tag:#x} version {ver}"))
        return None
    if ln < 8 or off + ln > len(data):
        prob.append(("signature", f"{where}: length {ln}"))
        return None
    if data[off + 4:off + 8] != bytes(4):
        prob.append(("signature", f"{where}: reserved word not zero"))
    return {"off": off, "length": ln, "data": data[off + 8:off + ln], "start": off + 8, "end": off + ln}


def _read_srk_data(data: bytes, off: int, prob: list, where: str) -> Optional[dict]:
    h = head(data, off)
    if h is None or off + 8 > len(data):
        prob.append(("srk-table", f"{where}: SRK data outside the file"))
        return None
    ver, ln, tag = h
    if tag != TAG_SRK_DATA or ver != 0 or ln < 8 or off + ln > len(data):
        prob.append(("srk-table", f"{where}: SRK data header tag {tag:#x} version {ver} length {ln}"))
        return None
    srk_id, r1, r2 = struct.unpack_from("<BBH", data, off + 4)
    if r1 or r2:
        prob.append(("srk-table", f"{where}: SRK data reserved bytes not zero"))
    return {"off": off, "length": ln, "srk_id": srk_id, "data": data[off + 8:off + ln], "bytes": data[off:off + ln]}


def _check_v2_record_data(rec: dict, sd: dict, prob: list, where: str) -> None:
    """Version-2 SRK record: body = H(SRK data) left-aligned in 64 bytes; the key itself lives in the SRK data."""
    d = digest(rec["hash"], sd["bytes"]) if rec.get("hash") else None
    if d is None:
        prob.append(("srk-table", f"{where}: hash {rec.get('hash')} of the SRK data not modelled"))
    elif rec.get("body") != d + bytes(64 - len(d)):
        prob.append(("srk-table", f"{where}: SRK record does not carry the hash of its SRK data"))
    rec["key"] = _key_from_params(rec["key_code"], rec["alg"], sd["data"])
    if rec["key"] is None:
        prob.append(("srk-table", f"{where}: SRK data length {len(sd['data'])} does not fit key code {rec['key_code']}"))


def _read_certificate(data: bytes, off: int, hashes: dict, prob: list) -> Optional[dict]:
    """Certificate: version | length | tag 0xAF ; signature offset | ~permissions | permissions ; permission data (12) ;
    fuse version | reserved (3) ; UUID (16) ; SRK record 0 ; SRK data 0 ; [SRK record 1 ; SRK data 1] ; signature(s)."""
    h = head(data, off)
    if h is None or off + 40 > len(data):
        prob.append(("certificate", "outside the file"))
        return None
    ver, ln, tag = h
    if tag != TAG_CERTIFICATE or off + ln > len(data) or ln < 40:
        prob.append(("certificate", f"tag {tag:#x} length {ln}"))
        return None
    sig_off, inv, perm = struct.unpack_from("<HBB", data, off + 4)
    cert = {"off": off, "length": ln, "version": ver, "sig_off": sig_off, "permissions": perm,
            "permission_data": data[off + 8:off + 20], "fuse_version": data[off + 20], "uuid": data[off + 24:off + 40]}
    if inv != (~perm & 0xFF):
        prob.append(("certificate", "inverted permissions do not match"))
    if data[off + 21:off + 24] != bytes(3):
        prob.append(("certificate", "reserved bytes not zero"))
    pos = off + 40
    rec = read_srk_record(data, pos, True, hashes, prob, "certificate key 0")
    if rec is None or "body" not in rec:
        return None
    pos += rec["length"]
    sd = _read_srk_data(data, pos, prob, "certificate key 0")
    if sd is None:
        return None
    _check_v2_record_data(rec, sd, prob, "certificate key 0")
    pos += sd["length"]
    cert["key0"] = rec
    if pos - off < sig_off:
        cert["second_key"] = True  # PQC companion key: outside
        prob.append(("certificate", "second (PQC) key present: not modelled"))
    elif pos - off != sig_off:
        prob.append(("certificate", f"signature offset {sig_off}, keys end at {pos - off}"))
    cert["signed"] = data[off:off + sig_off]
    sig = _read_signature(data, off + sig_off, prob, "certificate signature")
    if sig is None:
        return None
    cert["signature"] = sig
    if not cert.get("second_key") and sig_off + sig["length"] != ln:
        prob.append(("certificate", f"length {ln} != signature offset {sig_off} + signature length {sig['length']}"))
    return cert


def _read_blob(data: bytes, off: int, prob: list) -> Optional[dict]:
    """Blob: version 0 | length | tag 0x81 ; flags | size (bytes) | algorithm | mode ; wrapped key."""
    h = head(data, off)
    if h is None or off + 8 > len(data):
        prob.append(("blob", "outside the file"))
        return None
    ver, ln, tag = h
    if tag != TAG_BLOB or ver != 0 or ln < 8 or off + ln > len(data):
        prob.append(("blob", f"tag {tag:#x} version {ver} length {ln}"))
        return None
    flags, size, algo, mode = struct.unpack_from("<BBBB", data, off + 4)
    blob = {"off": off, "length": ln, "flags": flags, "key_bytes": size, "algorithm": algo, "mode": mode,
            "wrapped": data[off + 8:off + ln]}
    if size not in (16, 24, 32):
        prob.append(("blob", f"key size {size} bytes"))
    elif ln != 8 + 48 + size:
        prob.append(("blob", f"length {ln} for a {size}-byte key (expected {56 + size})"))
    return blob


def read_container(data: bytes, base: int, deks: Optional[list], crypto: str, prob_out: list, regions: list,
                   index: int) -> Optional[dict]:
    prob: list = []

    def done(c):
        prob_out.extend((s, f"container {index}: {m}") for s, m in prob)
        return c

    h = head(data, base)
    if h is None or base + HDR_SIZE > len(data):
        prob.append(("header", "outside the file"))
        return done(None)
    ver, ln, tag = h
    flags, sw, fuse, nimg, sb_off, rsv = struct.unpack_from("<LHBBHH", data, base + 4)
    c: dict = {"index": index, "base": base, "version": ver, "length": ln, "flags": flags, "sw_version": sw,
               "fuse_version": fuse, "nimages": nimg, "sb_off": sb_off, "srk_set": SRK_SET.get(flags & 3, "?"),
               "used_srk_id": (flags >> 4) & 3, "revoke_mask": (flags >> 8) & 0xF, "images": []}
    if tag != TAG_CONTAINER or ver not in CONTAINER_SLOT:
        prob.append(("header", f"tag {tag:#x} version {ver}"))
        return done(None)
    v2 = ver == 2
    hashes = HASH_V2 if v2 else HASH_V1
    if rsv:
        prob.append(("header", "reserved half-word not zero"))
    if (flags & 3) == 3:
        prob.append(("header", "SRK set 3"))
    known = 0x3 | 0x30 | 0xF00 | (0x8000 if v2 else 0x300000)
    if flags & ~known:
        c["unknown_flag_bits"] = flags & ~known
    if nimg < 1 or nimg > 8:
        prob.append(("image-array", f"{nimg} images"))
    if sb_off != align(HDR_SIZE + IAE_SIZE * nimg, 8):
        prob.append(("header", f"signature block offset {sb_off} with {nimg} images"))
    if base + ln > len(data):
        prob.append(("header", f"length {ln} runs outside the file"))
    # ---- image array
    for i in range(min(nimg, 8)):
        eo = base + HDR_SIZE + IAE_SIZE * i
        if eo + IAE_SIZE > len(data):
            prob.append(("image-array", f"entry {i} outside the file"))
            break
        off, size, load, entry, iflags, meta, ihash, iv = struct.unpack_from("<LLQQLL64s32s", data, eo)
        hbits = 4 if v2 else 3
        e = {"index": i, "entry_off": eo, "offset": off, "size": size, "load": load, "entry": entry, "flags": iflags,
             "meta": meta, "hash": ihash, "iv": iv, "type": iflags & 0xF, "core": (iflags >> 4) & 0xF,
             "hash_code": (iflags >> 8) & ((1 << hbits) - 1), "encrypted": bool((iflags >> (8 + hbits)) & 1),
             "boot_flags": (iflags >> 16) & 0x7FFF, "start": base + off, "end": base + off + size}
        e["hash_name"] = hashes.get(e["hash_code"])
        c["images"].append(e)
        if e["end"] > len(data):
            prob.append(("image-range", f"image {i}: [{e['start']:#x}, {e['end']:#x}) outside the file of {len(data):#x} bytes"))
            continue
        img = data[e["start"]:e["end"]]
        if size:
            regions.append((f"c{index}-image{i}", e["start"], e["end"]))
        if e["hash_name"] is None:
            prob.append(("image-hash", f"image {i}: hash code {e['hash_code']}"))
        else:
            d = digest(e["hash_name"], img)
            if d is None:
                prob.append(("image-hash", f"image {i}: {e['hash_name']} not modelled"))
            elif d + bytes(64 - len(d)) != ihash:
                prob.append(("image-hash", f"image {i}: {e['hash_name']} of the {size} bytes at {e['start']:#x} is not the hash field"))
        if e["encrypted"]:
            dek = deks[index] if deks and index < len(deks) else None
            if dek is None:
                c["undecrypted"] = c.get("undecrypted", 0) + 1
            elif size % 16:
                prob.append(("image-decrypt", f"image {i}: size {size} is not a multiple of the AES block"))
            else:
                from cryptography.hazmat.primitives.ciphers import Cipher, algorithms, modes

                dec = Cipher(algorithms.AES(dek), modes.CBC(iv[16:32])).decryptor()  # nosec
                plain = dec.update(img) + dec.finalize()
                e["plain"] = plain
                if hashlib.sha256(plain).digest() != iv:
                    prob.append(("image-decrypt", f"image {i}: SHA-256 of the decrypted data is not the IV field"))
        elif any(iv):
            c["iv_on_plain_image"] = True
    # ---- signature block
    sb = base + sb_off
    sh = head(data, sb)
    if sh is None or sb + 16 > len(data):
        prob.append(("sigblock", "outside the file"))
        return done(c)
    sver, sln, stag = sh
    cert_off, srk_off, sig_off, blob_off, key_id = struct.unpack_from("<HHHHL", data, sb + 4)
    c["sigblock"] = {"off": sb, "version": sver, "length": sln, "cert_off": cert_off, "srk_off": srk_off,
                     "sig_off": sig_off, "blob_off": blob_off, "key_id": key_id}
    if stag != TAG_SIGBLOCK or sver != (1 if v2 else 0):
        prob.append(("sigblock", f"tag {stag:#x} version {sver}"))
        return done(c)
    if ln != sb_off + sln:
        prob.append(("header", f"container length {ln} != signature block offset {sb_off} + its length {sln}"))
    if sb + sln > len(data):
        prob.append(("sigblock", "runs outside the file"))
        return done(c)
    # order and extent of the parts
    parts = sorted((o, n) for n, o in (("srk", srk_off), ("signature", sig_off), ("certificate", cert_off), ("blob", blob_off)) if o)
    if [n for _, n in parts] != [n for n in ("srk", "signature", "certificate", "blob")
                                 if {"srk": srk_off, "signature": sig_off, "certificate": cert_off, "blob": blob_off}[n]]:
        prob.append(("sigblock", f"parts out of order: {parts}"))
    for o, n in parts:
        if o < 16 or o >= sln or (not v2 and o % 8):
            prob.append(("sigblock", f"{n} offset {o} (block length {sln})"))
    signed = c["srk_set"] != "none"
    if blob_off:
        c["blob"] = _read_blob(data, sb + blob_off, prob)
        if c["blob"] and blob_off + c["blob"]["length"] > sln:
            prob.append(("blob", "runs outside the signature block"))
    elif key_id:
        prob.append(("sigblock", "key identifier without blob"))
    if any(e["encrypted"] for e in c["images"]) and not blob_off and c["srk_set"] in ("none", "oem"):
        prob.append(("blob", "encrypted image without blob"))
    if not signed:
        if srk_off or sig_off:
            c["unsigned_with_srk_or_signature"] = True
        return done(c)
    if not srk_off or not sig_off:
        prob.append(("signature", "signed container without SRK table / signature"))
        return done(c)
    # ---- SRK table(s)
    key = None
    sign_hash = None
    srk_end = None
    if not v2:
        tab = read_srk_table(data, sb + srk_off, False, hashes, prob, "SRK table")
        if tab is None:
            return done(c)
        c["srk_tables"] = [tab]
        c["srk_hashes"] = [hashlib.sha256(tab["bytes"]).digest()]
        srk_end = srk_off + tab["length"]
        rec = tab["records"][c["used_srk_id"]]
        key = rec.get("key")
        sign_hash = tab["records"][0]["hash"]
    else:
        ah = head(data, sb + srk_off)
        if ah is None or sb + srk_off + 8 > len(data):
            prob.append(("srk-table", "SRK table array outside the file"))
            return done(c)
        aver, aln, atag = ah
        count = data[sb + srk_off + 4]
        if atag != TAG_SRK_TABLE_ARRAY or aver != 0 or count not in (1, 2) or data[sb + srk_off + 5:sb + srk_off + 8] != bytes(3):
            prob.append(("srk-table", f"SRK table array header tag {atag:#x} version {aver} count {count}"))
            return done(c)
        pos = sb + srk_off + 8
        c["srk_tables"], c["srk_hashes"], c["srk_data"] = [], [], []
        for t in range(count):
            tab = read_srk_table(data, pos, True, hashes, prob, f"SRK table {t}")
            if tab is None:
                return done(c)
            pos += tab["length"]
            sd = _read_srk_data(data, pos, prob, f"SRK table {t}")
            if sd is None:
                return done(c)
            pos += sd["length"]
            c["srk_tables"].append(tab)
            c["srk_hashes"].append(hashlib.sha512(tab["bytes"]).digest())
            c["srk_data"].append(sd)
            if sd["srk_id"] != c["used_srk_id"]:
                prob.append(("srk-table", f"SRK table {t}: SRK data belongs to record {sd['srk_id']}, selected is {c['used_srk_id']}"))
            if t == 0 or KEY_TYPE.get(tab["records"][0]["key_code"], ("?",))[0] != "pqc":
                rec = tab["records"][c["used_srk_id"]]
                if "body" in rec:
                    _check_v2_record_data(rec, sd, prob, f"SRK table {t} record {c['used_srk_id']}")
            if t == 0:
                key = tab["records"][c["used_srk_id"]].get("key")
                sign_hash = tab["records"][0]["hash"]
        if pos - (sb + srk_off) != aln:
            prob.append(("srk-table", f"SRK table array length {aln}, content {pos - (sb + srk_off)}"))
        srk_end = srk_off + aln
        if count == 2:
            c["pqc_second_table"] = True
    if (c["revoke_mask"] >> c["used_srk_id"]) & 1:
        prob.append(("srk-revoked", f"selected SRK {c['used_srk_id']} is revoked by mask {c['revoke_mask']:#x}"))
    if sig_off < srk_end:
        prob.append(("sigblock", f"signature offset {sig_off} inside the SRK table (ends {srk_end})"))
    # ---- certificate
    cert = None
    if cert_off:
        cert = _read_certificate(data, sb + cert_off, hashes, prob)
        c["certificate"] = cert
    # ---- signature
    sig = _read_signature(data, sb + sig_off, prob, "container signature")
    if sig is None:
        return done(c)
    c["signature"] = sig
    c["signed_range"] = (base, sb + sig_off)
    regions.append((f"c{index}-signed", base, sb + sig_off))
    regions.append((f"c{index}-sigdata", sig["start"], sig["end"]))
    nxt = min([o for o, _ in parts if o > sig_off] + [sln])
    if sig_off + sig["length"] > nxt and not c.get("pqc_second_table"):
        prob.append(("signature", f"signature of {sig['length']} bytes at {sig_off} overlaps the next part at {nxt}"))
    if key is None or key.get("kind") not in ("rsa", "ec"):
        prob.append(("signature", f"selected SRK key not usable: {key}"))
        return done(c)
    c["srk_key"] = key
    container_key, container_hash = key, sign_hash
    if cert is not None and cert.get("signature") is not None:
        ok, note = verify_signature(key, sign_hash, cert["signed"], cert["signature"]["data"], crypto)
        if not ok:
            prob.append(("certificate", f"certificate signature does not verify under SRK {c['used_srk_id']} ({note})"))
        regions.append((f"c{index}-certificate", cert["off"], cert["off"] + cert["sig_off"]))
        regions.append((f"c{index}-certsig", cert["signature"]["start"], cert["signature"]["end"]))
        if cert["permissions"] & CERT_PERM_CONTAINER:
            ck = cert["key0"].get("key")
            if ck is None or ck.get("kind") not in ("rsa", "ec"):
                prob.append(("certificate", "certificate key not usable"))
                return done(c)
            container_key, container_hash = ck, cert["key0"]["hash"]
            c["signed_by"] = "certificate"
    msg = data[base:sb + sig_off]
    ok, note = verify_signature(container_key, container_hash, msg, sig["data"], crypto)
    c["signature_note"] = note
    if not ok:
        prob.append(("signature", f"container signature does not verify over [{base:#x}, {sb + sig_off:#x}) with "
                                  f"{container_key.get('name')} / {container_hash} ({note})"))
    return done(c)


def examine(data: bytes, deks: Optional[list] = None, crypto: str = "ref", max_containers: int = MAX_CONTAINERS) -> dict:
    """Decode and judge an AHAB image set.  deks[i] = DEK (bytes) for container i or None."""
    prob: list = []
    regions: list = []
    out: dict = {"containers": [], "problems": prob, "regions": regions}
    h0 = head(data, 0)
    if h0 is None or h0[2] != TAG_CONTAINER or h0[0] not in CONTAINER_SLOT:
        prob.append(("header", "no container header at offset 0"))
        return out
    slot = CONTAINER_SLOT[h0[0]]
    out["version"] = h0[0]
    for i in range(max_containers):
        base = i * slot
        h = head(data, base)
        if h is None or h[2] != TAG_CONTAINER or h[0] != h0[0] or base + HDR_SIZE > len(data):
            break
        c = read_container(data, base, deks, crypto, prob, regions, i)
        if c is None:
            break
        out["containers"].append(c)
    # ---- placement: containers in their slots, images disjoint from each other and from every container
    spans = []
    for c in out["containers"]:
        spans.append((c["base"], c["base"] + c["length"], f"container {c['index']}"))
    for i, (a0, a1, an) in enumerate(spans):  # a container may outgrow its slot only when nothing follows it
        for b0, b1, bn in spans[i + 1:]:
            if a0 < b1 and b0 < a1:
                prob.append(("overlap", f"{an} [{a0:#x}, {a1:#x}) overlaps {bn} [{b0:#x}, {b1:#x})"))
    imgs = []
    for c in out["containers"]:
        for e in c["images"]:
            if e["size"]:
                imgs.append((e["start"], e["end"], f"container {c['index']} image {e['index']}"))
    for a0, a1, an in imgs:
        for b0, b1, bn in spans:
            if a0 < b1 and b0 < a1:
                prob.append(("overlap", f"{an} [{a0:#x}, {a1:#x}) overlaps {bn} [{b0:#x}, {b1:#x})"))
    for i, (a0, a1, an) in enumerate(imgs):
        for b0, b1, bn in imgs[i + 1:]:
            if a0 < b1 and b0 < a1:
                prob.append(("overlap", f"{an} [{a0:#x}, {a1:#x}) overlaps {bn} [{b0:#x}, {b1:#x})"))
    return out


def accepts(data: bytes, deks: Optional[list] = None, crypto: str = "lib") -> tuple:
    """(accepted, first problem) - the yes/no answer used by the tamper sweep."""
    r = examine(data, deks, crypto)
    if not r["containers"]:
        return False, r["problems"][0] if r["problems"] else ("header", "no container")
    return (not r["problems"]), (r["problems"][0] if r["problems"] else None)


# ---------------------------------------------------------------------------------------------
# naming the field a file offset belongs to (for discriminators / reports)

_HDR_FIELDS = ((0, 1, "version"), (1, 3, "length"), (3, 4, "tag"), (4, 8, "flags"), (8, 10, "sw-version"),
               (10, 11, "fuse-version"), (11, 12, "image-count"), (12, 14, "sigblock-offset"), (14, 16, "reserved"))
_IAE_FIELDS = ((0, 4, "offset"), (4, 8, "size"), (8, 16, "load-address"), (16, 24, "entry-point"), (24, 28, "flags"),
               (28, 32, "metadata"), (32, 96, "hash"), (96, 128, "iv"))
_SB_FIELDS = ((0, 1, "version"), (1, 3, "length"), (3, 4, "tag"), (4, 6, "certificate-offset"), (6, 8, "srk-offset"),
              (8, 10, "signature-offset"), (10, 12, "blob-offset"), (12, 16, "key-identifier"))
_REC_FIELDS = ((0, 1, "tag"), (1, 3, "length"), (3, 4, "sign-alg"), (4, 5, "hash-alg"), (5, 6, "key-size"), (6, 7, "reserved"),
               (7, 8, "flags"), (8, 12, "param-lengths"))


def _in(fields: tuple, rel: int) -> str:
    for a, b, n in fields:
        if a <= rel < b:
            return n
    return "?"


def field_at(r: dict, off: int) -> str:
    """Name of the structure field that file offset `off` belongs to in the result of examine()."""
    for c in r.get("containers", []):
        base = c["base"]
        for e in c["images"]:
            if e["start"] <= off < e["end"]:
                return "image-data"
        if base <= off < base + HDR_SIZE:
            return "header." + _in(_HDR_FIELDS, off - base)
        for e in c["images"]:
            if e["entry_off"] <= off < e["entry_off"] + IAE_SIZE:
                f = _in(_IAE_FIELDS, off - e["entry_off"])
                return "image-entry." + f + ("-unused" if f == "iv" and not e["encrypted"] else "")
        sb = c.get("sigblock")
        if not sb or not (sb["off"] <= off < sb["off"] + max(sb["length"], 16)):
            continue
        if off < sb["off"] + 16:
            f = _in(_SB_FIELDS, off - sb["off"])
            return "sigblock." + f + ("-unused" if f == "key-identifier" and not sb["blob_off"] else "")
        for t, tab in enumerate(c.get("srk_tables") or []):
            if tab["off"] <= off < tab["off"] + tab["length"]:
                if off < tab["off"] + 4:
                    return "srk-table." + ("tag", "length", "length", "version")[off - tab["off"]]
                for rec in tab["records"]:
                    if rec["off"] <= off < rec["off"] + rec["length"]:
                        return "srk-record." + (_in(_REC_FIELDS, off - rec["off"]) if off < rec["off"] + 12 else "key-data")
        for sd in c.get("srk_data") or []:
            if sd["off"] <= off < sd["off"] + sd["length"]:
                rel = off - sd["off"]
                return "srk-data." + ("header" if rel < 4 else "srk-id" if rel == 4 else "reserved" if rel < 8 else "key-data")
        if sb["srk_off"] and c["version"] == 2 and sb["off"] + sb["srk_off"] <= off < sb["off"] + sb["srk_off"] + 8:
            rel = off - sb["off"] - sb["srk_off"]
            return "srk-array." + ("header" if rel < 4 else "count" if rel == 4 else "reserved")
        sig = c.get("signature")
        if sig and sig["off"] <= off < sig["end"]:
            rel = off - sig["off"]
            return "signature." + ("header" if rel < 4 else "reserved" if rel < 8 else "data")
        cert = c.get("certificate")
        if cert and cert["off"] <= off < cert["off"] + cert["length"]:
            rel = off - cert["off"]
            if rel < 40:
                return "certificate." + _in(((0, 4, "header"), (4, 6, "signature-offset"), (6, 7, "inverted-permissions"),
                                             (7, 8, "permissions"), (8, 20, "permission-data"), (20, 21, "fuse-version"),
                                             (21, 24, "reserved"), (24, 40, "uuid")), rel)
            k0 = cert.get("key0")
            if k0 and k0["off"] <= off < k0["off"] + k0["length"]:
                return "certificate.srk-record." + (_in(_REC_FIELDS, off - k0["off"]) if off < k0["off"] + 12 else "data-hash")
            s = cert.get("signature")
            if s and s["off"] <= off < s["end"]:
                rel = off - s["off"]
                return "certificate.signature." + ("header" if rel < 4 else "reserved" if rel < 8 else "data")
            return "certificate.srk-data"
        blob = c.get("blob")
        if blob and blob["off"] <= off < blob["off"] + blob["length"]:
            rel = off - blob["off"]
            return "blob." + ("header" if rel < 4 else ("flags", "size", "algorithm", "mode")[rel - 4] if rel < 8 else "wrapped-key")
        return "sigblock.padding"
    return "padding"


# ---------------------------------------------------------------------------------------------
# placement from container headers alone (no file needed)


def layout_problems(headers: list) -> Optional[list]:
    """Interval arithmetic on the exported container headers of an image set (container i sits at i * slot): every image
    [container base + offset, + size) must be disjoint from every other image and from every container
    [base, base + length).  -> list of collisions, or None when a header cannot be read."""
    if not headers:
        return None
    h0 = head(headers[0], 0)
    if h0 is None or h0[2] != TAG_CONTAINER or h0[0] not in CONTAINER_SLOT:
        return None
    slot = CONTAINER_SLOT[h0[0]]
    spans, imgs = [], []
    for i, hdr in enumerate(headers):
        h = head(hdr, 0)
        if h is None or h[2] != TAG_CONTAINER or len(hdr) < HDR_SIZE:
            return None
        base = i * slot
        nimg = hdr[11]
        if len(hdr) < HDR_SIZE + IAE_SIZE * nimg:
            return None
        spans.append((base, base + h[1], f"container {i}"))
        for j in range(nimg):
            off, size = struct.unpack_from("<LL", hdr, HDR_SIZE + IAE_SIZE * j)
            # an empty image is treated as a one-byte probe: it, too, has to lie behind the containers and outside other images
            imgs.append((base + off, base + off + max(size, 1), f"container {i} image {j}"))
    out = []
    for a0, a1, an in imgs:
        for b0, b1, bn in spans:
            if a0 < b1 and b0 < a1:
                out.append(f"{an} [{a0:#x}, {a1:#x}) overlaps {bn} [{b0:#x}, {b1:#x})")
    for i, (a0, a1, an) in enumerate(imgs):
        for b0, b1, bn in imgs[i + 1:]:
            if a0 < b1 and b0 < a1:
                out.append(f"{an} [{a0:#x}, {a1:#x}) overlaps {bn} [{b0:#x}, {b1:#x})")
    for i, (a0, a1, an) in enumerate(spans):
        for b0, b1, bn in spans[i + 1:]:
            if a0 < b1 and b0 < a1:
                out.append(f"{an} [{a0:#x}, {a1:#x}) overlaps {bn} [{b0:#x}, {b1:#x})")
    return out
