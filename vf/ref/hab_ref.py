"""Independent reader / checker of exported HAB4 images (i.MX RT10xx/11xx) — works on bytes only.

Written from the HAB4 data-structure descriptions (class docstrings of SegIVT2 / SegBDT / SegDCD / SegCSF, the
command tables of the CST user guide as quoted in docs/images/hab.rst and the nxpimage templates), *not* from
SPSDK's code; it imports nothing from spsdk.

Layout facts used (all multi-byte fields of HAB structures are big-endian, the IVT / boot-data words little-endian):

    header            tag(1) length(2, BE, includes the header) par(1)
    IVT   tag 0xD1    len 0x20, par = version 0x4x; 7 LE words: entry, reserved1, dcd, boot_data, self, csf, reserved2
    boot data         3 LE words: start (address the image start is loaded to), length, plugin flag
    DCD   tag 0xD2    par = version; commands (each with its own header) up to `length`
    XMCD              LE word at IVT+0x40: tag 0xC [31:28], version [27:24], interface [23:20], instance [19:16],
                      block type [15:12], block size incl. header [11:0]
    CSF   tag 0xD4    par = HAB version; commands up to `length`; after that, at offsets named by the commands
                      (relative to the CSF start), certificate / signature / MAC structures
      Install Key     tag 0xBE, par = flags (1 ABS, 2 CSF, 0x80 HSH); pcl, alg, src, tgt, key_dat(4)
      Authenticate    tag 0xCA, par = flags; key, pcl (0xC5 CMS, 0xA3 AEAD), eng, cfg, aut_start(4), then
                      (address(4), bytes(4)) blocks
      Set 0xB1, Init 0xB4, Unlock 0xB2, NOP 0xC0, Write Data 0xCC, Check Data 0xCF
    certificate       tag 0xD7, par = version: X.509 DER  | SRK table: tag 0xD7 wrapping key entries
      SRK entry       tag 0xE1, par = 0x21 (PKCS#1 RSA) or 0x27 (ECDSA): 3 reserved bytes, flags (0x80 = CA),
                      RSA:   modulus bytes(2) exponent bytes(2) modulus exponent
                      ECDSA: curve id (0x4B P-256, 0x4D P-384, 0x4E P-521), reserved, key bits(2), X, Y
                      tag 0xEE, par = 0x17: SHA-256 digest of a full entry that was replaced
      SRK fuses       SHA-256( SHA-256(entry 0) || SHA-256(entry 1) || ... )   (a 0xEE entry contributes its digest)
    signature         tag 0xD8, par = version: CMS SignedData (DER), detached content
    MAC               tag 0xAC, par = version: 0, nonce bytes, 0, mac bytes, nonce, mac   (AES-CCM, no AAD)

The ROM's key store: slot 0 = SRK[src index of Install SRK]; Install Key with flag CSF puts the CSF key in slot 1
(verified by slot 0); other Install Key commands verify a certificate with slot `src` and put it into `tgt`;
Authenticate Data without blocks authenticates the CSF itself (header + commands, `length` bytes), with blocks the
concatenation of the blocks.  Secret-key slots are a separate store (Install Key with pcl 0xBB, absolute address).
"""
from __future__ import annotations

import base64
import hashlib
import os
import struct
import subprocess
import tempfile
from typing import Optional

TAG_IVT, TAG_DCD, TAG_CSF, TAG_CRT, TAG_SIG, TAG_MAC = 0xD1, 0xD2, 0xD4, 0xD7, 0xD8, 0xAC
CMD_SET, CMD_INS_KEY, CMD_AUT_DAT, CMD_WRT, CMD_CHK, CMD_NOP, CMD_INIT, CMD_UNLK = 0xB1, 0xBE, 0xCA, 0xCC, 0xCF, 0xC0, 0xB4, 0xB2
CMD_NAMES = {CMD_SET: "set", CMD_INS_KEY: "ins_key", CMD_AUT_DAT: "aut_dat", CMD_WRT: "wrt_dat", CMD_CHK: "chk_dat",
             CMD_NOP: "nop", CMD_INIT: "init", CMD_UNLK: "unlk"}
PCL_SRK, PCL_X509, PCL_CMS, PCL_BLOB, PCL_AEAD = 0x03, 0x09, 0xC5, 0xBB, 0xA3
INS_ABS, INS_CSF = 0x01, 0x02
SRK_KEY, SRK_HASH = 0xE1, 0xEE
ALG_SHA256, ALG_PKCS1, ALG_ECDSA = 0x17, 0x21, 0x27
CURVE_IDS = {0x4B: ("p256", 256), 0x4D: ("p384", 384), 0x4E: ("p521", 521)}
IVT_SIZE = 0x20
BOOT_DATA_SIZE = 12  # three words; the builders reserve 0x20 for it
XMCD_OFFSET = 0x40


class Malformed(Exception):
    """The bytes are not a well-formed HAB structure (stage, message)."""

    def __init__(self, stage: str, msg: str):
        super().__init__(f"{stage}: {msg}")
        self.stage = stage
        self.msg = msg


def header(data: bytes, off: int, stage: str = "header") -> tuple:
    if off < 0 or off + 4 > len(data):
        raise Malformed(stage, f"header at 0x{off:X} outside the {len(data)}-byte data")
    tag, length, par = struct.unpack_from(">BHB", data, off)
    if length < 4:
        raise Malformed(stage, f"header at 0x{off:X}: length {length} < 4")
    return tag, length, par


# ---------------------------------------------------------------------------------------------
# IVT / boot data / DCD / XMCD


def read_ivt(data: bytes) -> dict:
    tag, length, par = header(data, 0, "ivt")
    if tag != TAG_IVT or length != IVT_SIZE or not 0x40 <= par <= 0x4F:
        raise Malformed("ivt", f"tag 0x{tag:02X} length 0x{length:X} version 0x{par:02X}")
    if len(data) < IVT_SIZE:
        raise Malformed("ivt", "truncated")
    entry, rs1, dcd, boot_data, self_, csf, rs2 = struct.unpack_from("<7L", data, 4)
    return {"version": par, "entry": entry, "reserved1": rs1, "dcd": dcd, "boot_data": boot_data, "self": self_,
            "csf": csf, "reserved2": rs2}


def read_commands(data: bytes, start: int, end: int, stage: str) -> list:
    """Generic walk over HAB commands in data[start:end]."""
    out = []
    off = start
    while off < end:
        tag, length, par = header(data, off, stage)
        if tag not in CMD_NAMES:
            raise Malformed(stage, f"unknown command tag 0x{tag:02X} at 0x{off:X}")
        if off + length > end:
            raise Malformed(stage, f"command 0x{tag:02X} at 0x{off:X} (length {length}) crosses the end 0x{end:X}")
        cmd = {"tag": tag, "name": CMD_NAMES[tag], "par": par, "len": length, "off": off, "raw": data[off:off + length]}
        body = data[off + 4:off + length]
        if tag == CMD_INS_KEY:
            if length < 12:
                raise Malformed(stage, f"Install Key at 0x{off:X}: length {length} < 12")
            pcl, alg, src, tgt, key_dat = struct.unpack_from(">4BL", body, 0)
            cmd.update(flags=par, pcl=pcl, alg=alg, src=src, tgt=tgt, key_dat=key_dat, crt_hash=body[8:])
        elif tag == CMD_AUT_DAT:
            if length < 12 or (length - 12) % 8:
                raise Malformed(stage, f"Authenticate Data at 0x{off:X}: length {length}")
            key, pcl, eng, cfg, aut_start = struct.unpack_from(">4BL", body, 0)
            blocks = [list(struct.unpack_from(">2L", body, 8 + 8 * i)) for i in range((length - 12) // 8)]
            cmd.update(flags=par, key=key, pcl=pcl, eng=eng, cfg=cfg, aut_start=aut_start, blocks=blocks)
        elif tag == CMD_SET:
            if length != 8:
                raise Malformed(stage, f"Set at 0x{off:X}: length {length}")
            cmd.update(itm=par, alg=body[1], eng=body[2], cfg=body[3])
        elif tag == CMD_UNLK:
            if length not in (8, 16) and length % 4:
                raise Malformed(stage, f"Unlock at 0x{off:X}: length {length}")
            words = [struct.unpack_from(">L", body, 4 * i)[0] for i in range(len(body) // 4)]
            cmd.update(eng=par, features=words[0] if words else 0,
                       uid=(words[1] << 32 | words[2]) if len(words) >= 3 else None, words=words)
        elif tag in (CMD_WRT, CMD_CHK):
            cmd.update(words=[struct.unpack_from(">L", body, 4 * i)[0] for i in range(len(body) // 4)])
        out.append(cmd)
        off += length
    return out


def read_dcd(data: bytes, off: int) -> dict:
    tag, length, par = header(data, off, "dcd")
    if tag != TAG_DCD:
        raise Malformed("dcd", f"tag 0x{tag:02X} at 0x{off:X}")
    if off + length > len(data):
        raise Malformed("dcd", "crosses the end of the image")
    cmds = read_commands(data, off + 4, off + length, "dcd")
    return {"off": off, "len": length, "version": par, "commands": cmds, "raw": data[off:off + length]}


def read_xmcd(data: bytes, off: int = XMCD_OFFSET) -> Optional[dict]:
    """XMCD block at IVT+0x40, or None when there is no XMCD tag there."""
    if off + 4 > len(data):
        return None
    (word,) = struct.unpack_from("<L", data, off)
    if word >> 28 != 0xC:
        return None
    size = word & 0xFFF
    if size < 4 or off + size > len(data):
        raise Malformed("xmcd", f"block size {size}")
    return {"off": off, "len": size, "version": (word >> 24) & 0xF, "interface": (word >> 20) & 0xF,
            "instance": (word >> 16) & 0xF, "block_type": (word >> 12) & 0xF, "raw": data[off:off + size]}


# ---------------------------------------------------------------------------------------------
# SRK table


def read_srk_table(blob: bytes) -> dict:
    tag, length, par = header(blob, 0, "srk-table")
    if tag != TAG_CRT or length > len(blob):
        raise Malformed("srk-table", f"tag 0x{tag:02X} length {length} in a {len(blob)}-byte blob")
    entries = []
    off = 4
    while off < length:
        etag, elen, epar = header(blob, off, "srk-entry")
        if off + elen > length:
            raise Malformed("srk-entry", f"entry at {off} (length {elen}) crosses the table end {length}")
        raw = blob[off:off + elen]
        ent: dict = {"off": off, "raw": raw, "tag": etag, "alg": epar}
        if etag == SRK_HASH:
            if epar != ALG_SHA256 or elen != 4 + 32:
                raise Malformed("srk-entry", f"hash entry alg 0x{epar:02X} length {elen}")
            ent.update(kind="hash", digest=raw[4:])
        elif etag == SRK_KEY and epar == ALG_PKCS1:
            if any(raw[4:7]):
                raise Malformed("srk-entry", "reserved bytes not zero")
            nlen, elen2 = struct.unpack_from(">2H", raw, 8)
            if 12 + nlen + elen2 != elen:
                raise Malformed("srk-entry", f"RSA entry length {elen} != 12 + {nlen} + {elen2}")
            ent.update(kind="rsa", flags=raw[7], n=int.from_bytes(raw[12:12 + nlen], "big"),
                       e=int.from_bytes(raw[12 + nlen:], "big"), n_len=nlen, e_len=elen2)
        elif etag == SRK_KEY and epar == ALG_ECDSA:
            if any(raw[4:7]):
                raise Malformed("srk-entry", "reserved bytes not zero")
            cid = raw[8]
            (bits,) = struct.unpack_from(">H", raw, 10)
            if cid not in CURVE_IDS or CURVE_IDS[cid][1] != bits:
                raise Malformed("srk-entry", f"curve id 0x{cid:02X} with {bits} bits")
            cl = (bits + 7) // 8
            if 12 + 2 * cl != elen:
                raise Malformed("srk-entry", f"ECDSA entry length {elen} != 12 + 2*{cl}")
            ent.update(kind="ecdsa", flags=raw[7], curve=CURVE_IDS[cid][0], x=int.from_bytes(raw[12:12 + cl], "big"),
                       y=int.from_bytes(raw[12 + cl:], "big"))
        else:
            raise Malformed("srk-entry", f"tag 0x{etag:02X} alg 0x{epar:02X}")
        entries.append(ent)
        off += elen
    if off != length:
        raise Malformed("srk-table", "entries do not end at the table length")
    return {"len": length, "version": par, "entries": entries, "raw": blob[:length]}


def srk_fuses(entries: list) -> bytes:
    h = b""
    for e in entries:
        h += e["digest"] if e["kind"] == "hash" else hashlib.sha256(e["raw"]).digest()
    return hashlib.sha256(h).digest()


def srk_entry_rsa(n: int, e: int, ca: bool) -> bytes:
    nb = n.to_bytes((n.bit_length() + 7) // 8, "big")
    eb = e.to_bytes((e.bit_length() + 7) // 8, "big")
    body = bytes([0, 0, 0, 0x80 if ca else 0]) + struct.pack(">2H", len(nb), len(eb)) + nb + eb
    return struct.pack(">BHB", SRK_KEY, 4 + len(body), ALG_PKCS1) + body


def srk_entry_ecdsa(curve: str, x: int, y: int, ca: bool) -> bytes:
    cid, bits = next((c, b) for c, (nm, b) in CURVE_IDS.items() if nm == curve)
    cl = (bits + 7) // 8
    body = bytes([0, 0, 0, 0x80 if ca else 0, cid, 0]) + struct.pack(">H", bits) + x.to_bytes(cl, "big") + y.to_bytes(cl, "big")
    return struct.pack(">BHB", SRK_KEY, 4 + len(body), ALG_ECDSA) + body


def srk_entry_of_cert(der: bytes) -> bytes:
    """The SRK table entry a certificate's public key must produce (numbers read with `cryptography`)."""
    from cryptography import x509
    from cryptography.hazmat.primitives.asymmetric import ec, rsa

    cert = x509.load_der_x509_certificate(der)
    ca = False
    try:
        ca = bool(cert.extensions.get_extension_for_class(x509.KeyUsage).value.key_cert_sign)
    except x509.ExtensionNotFound:
        pass
    pub = cert.public_key()
    if isinstance(pub, rsa.RSAPublicKey):
        nums = pub.public_numbers()
        return srk_entry_rsa(nums.n, nums.e, ca)
    if isinstance(pub, ec.EllipticCurvePublicKey):
        nums = pub.public_numbers()
        curve = {"secp256r1": "p256", "secp384r1": "p384", "secp521r1": "p521"}[pub.curve.name]
        return srk_entry_ecdsa(curve, nums.x, nums.y, ca)
    raise Malformed("srk-cert", "unsupported key type")


def srk_table_of_certs(ders: list, version: int = 0x40, hashed_except: Optional[int] = None) -> bytes:
    """hashed_except = i: every entry but the i-th is replaced by its hash-only form (tag 0xEE)."""
    ents = [srk_entry_of_cert(d) for d in ders]
    if hashed_except is not None:
        ents = [e if i == hashed_except else struct.pack(">BHB", SRK_HASH, 36, ALG_SHA256) + hashlib.sha256(e).digest()
                for i, e in enumerate(ents)]
    body = b"".join(ents)
    return struct.pack(">BHB", TAG_CRT, 4 + len(body), version) + body


# ---------------------------------------------------------------------------------------------
# CSF


def read_blob(data: bytes, off: int, want_tag: int, stage: str) -> dict:
    tag, length, par = header(data, off, stage)
    if tag != want_tag:
        raise Malformed(stage, f"tag 0x{tag:02X} at 0x{off:X}, expected 0x{want_tag:02X}")
    if off + length > len(data):
        raise Malformed(stage, f"structure at 0x{off:X} (length {length}) crosses the end of the data")
    return {"off": off, "len": length, "version": par, "body": data[off + 4:off + length]}


def read_csf(data: bytes, off: int) -> dict:
    """CSF at data[off:]: header, commands, and the data structures the commands point to."""
    tag, length, par = header(data, off, "csf")
    if tag != TAG_CSF or not 0x40 <= par <= 0x4F:
        raise Malformed("csf", f"tag 0x{tag:02X} version 0x{par:02X} at 0x{off:X}")
    if off + length > len(data):
        raise Malformed("csf", "header + commands cross the end of the image")
    csf = data[off:]
    cmds = read_commands(csf, 4, length, "csf-command")
    extent = length
    for c in cmds:
        if c["tag"] == CMD_INS_KEY and not c["flags"] & INS_ABS:
            if c["pcl"] == PCL_SRK:
                c["srk_table"] = read_srk_table(csf[c["key_dat"]:])
                c["blob_len"] = c["srk_table"]["len"]
            elif c["pcl"] == PCL_X509:
                b = read_blob(csf, c["key_dat"], TAG_CRT, "certificate")
                c["cert_der"] = b["body"]
                c["blob_version"] = b["version"]
                c["blob_len"] = b["len"]
            else:
                raise Malformed("csf-command", f"Install Key with protocol 0x{c['pcl']:02X}")
            if c["key_dat"] < length:
                raise Malformed("csf-command", "key data inside the command area")
            extent = max(extent, c["key_dat"] + c["blob_len"])
        elif c["tag"] == CMD_AUT_DAT:
            if c["aut_start"] < length:
                raise Malformed("csf-command", "authentication data inside the command area")
            if c["pcl"] == PCL_CMS:
                b = read_blob(csf, c["aut_start"], TAG_SIG, "signature")
                c["cms"] = b["body"]
            elif c["pcl"] == PCL_AEAD:
                b = read_blob(csf, c["aut_start"], TAG_MAC, "mac")
                body = b["body"]
                if len(body) < 4 or body[0] or body[2]:
                    raise Malformed("mac", "reserved bytes / length")
                nl, ml = body[1], body[3]
                if len(body) != 4 + nl + ml:
                    raise Malformed("mac", f"length {b['len']} != 8 + nonce {nl} + mac {ml}")
                c["nonce"] = body[4:4 + nl]
                c["mac"] = body[4 + nl:]
            else:
                raise Malformed("csf-command", f"Authenticate Data with protocol 0x{c['pcl']:02X}")
            c["blob_version"] = b["version"]
            c["blob_len"] = b["len"]
            extent = max(extent, c["aut_start"] + b["len"])
    # the referenced structures must not overlap each other
    spans = sorted((c.get("key_dat", c.get("aut_start")), c["blob_len"], c["name"]) for c in cmds if "blob_len" in c)
    for (a, al, an), (b_, bl, bn) in zip(spans, spans[1:]):
        if a + al > b_:
            raise Malformed("csf-data", f"{an} data at 0x{a:X}+{al} overlaps {bn} data at 0x{b_:X}")
    return {"off": off, "len": length, "version": par, "commands": cmds, "extent": extent,
            "signed_part": data[off:off + length]}


# ---------------------------------------------------------------------------------------------
# whole image


def read_image(data: bytes) -> dict:
    """Everything that can be read from the exported bytes alone (data[0] = first IVT byte)."""
    ivt = read_ivt(data)
    img: dict = {"ivt": ivt, "size": len(data)}
    base = ivt["self"]

    def rel(ptr: int, what: str) -> int:
        o = ptr - base
        if o < 0 or o >= len(data):
            raise Malformed("ivt", f"{what} pointer 0x{ptr:X} is outside the image (self 0x{base:X}, {len(data)} bytes)")
        return o

    bo = rel(ivt["boot_data"], "boot data")
    if bo + BOOT_DATA_SIZE > len(data):
        raise Malformed("boot-data", "truncated")
    start, length, plugin = struct.unpack_from("<3L", data, bo)
    img["boot_data"] = {"off": bo, "start": start, "length": length, "plugin": plugin, "raw": data[bo:bo + BOOT_DATA_SIZE]}
    img["ivt_offset"] = base - start
    img["errors"] = []  # segments that are pointed to but unreadable: (segment, stage, message)
    for name, fn in (("dcd", lambda: read_dcd(data, rel(ivt["dcd"], "dcd")) if ivt["dcd"] else None),
                     ("xmcd", lambda: read_xmcd(data)),
                     ("csf", lambda: read_csf(data, rel(ivt["csf"], "csf")) if ivt["csf"] else None)):
        try:
            img[name] = fn()
        except Malformed as e:
            img[name] = None
            img["errors"].append((name, e.stage, e.msg))
    return img


def block_bytes(data: bytes, base: int, blocks: list) -> bytes:
    """Concatenation of the (address, size) blocks; data[0] lives at address `base`."""
    out = b""
    for addr, size in blocks:
        o = addr - base
        if o < 0 or o + size > len(data):
            raise Malformed("blocks", f"block 0x{addr:X}+0x{size:X} outside the image at 0x{base:X}+0x{len(data):X}")
        out += data[o:o + size]
    return out


# interval arithmetic on half-open [a, b)


def union(intervals: list) -> list:
    out: list = []
    for a, b in sorted((a, b) for a, b in intervals if b > a):
        if out and a <= out[-1][1]:
            out[-1][1] = max(out[-1][1], b)
        else:
            out.append([a, b])
    return out


def uncovered(need: list, have: list) -> list:
    """Parts of the `need` intervals not inside the union of `have`."""
    u = union(have)
    miss = []
    for a, b in need:
        cur = a
        for x, y in u:
            if y <= cur:
                continue
            if x >= b:
                break
            if x > cur:
                miss.append([cur, min(x, b)])
            cur = max(cur, y)
            if cur >= b:
                break
        if cur < b:
            miss.append([cur, b])
    return miss


def overlaps(intervals: list) -> list:
    s = sorted((a, b) for a, b in intervals if b > a)
    return [[x, y] for x, y in zip(s, s[1:]) if x[1] > y[0]]


# ---------------------------------------------------------------------------------------------
# OpenSSL command line (a third implementation) and AES-CCM

_TMP: Optional[str] = None


def _tmpdir() -> str:
    global _TMP
    if _TMP is None or not os.path.isdir(_TMP) or _TMP_PID[0] != os.getpid():
        base = os.environ.get("VERIF_WORKDIR") or None
        if base:
            os.makedirs(base, exist_ok=True)
        _TMP = tempfile.mkdtemp(prefix=f"habref-{os.getpid()}-", dir=base)
        _TMP_PID[0] = os.getpid()
    return _TMP


_TMP_PID = [0]


def pem_of_der(der: bytes) -> bytes:
    b64 = base64.b64encode(der)
    lines = [b64[i:i + 64] for i in range(0, len(b64), 64)]
    return b"-----BEGIN CERTIFICATE-----\n" + b"\n".join(lines) + b"\n-----END CERTIFICATE-----\n"


def der_of_pem(pem: bytes) -> bytes:
    body = pem.split(b"-----BEGIN CERTIFICATE-----")[1].split(b"-----END CERTIFICATE-----")[0]
    return base64.b64decode(b"".join(body.split()))


def _write(name: str, content: bytes) -> str:
    p = os.path.join(_tmpdir(), name)
    with open(p, "wb") as f:
        f.write(content)
    return p


_VERIFY_CACHE: dict = {}
OPENSSL_CALLS = [0]


def openssl_verify_chain(anchor_der: bytes, cert_der: bytes) -> tuple:
    """`openssl verify` of cert_der with anchor_der as the only trusted certificate -> (ok, message)."""
    key = (hashlib.sha1(anchor_der).digest(), hashlib.sha1(cert_der).digest())
    if key not in _VERIFY_CACHE:
        ca = _write("anchor.pem", pem_of_der(anchor_der))
        crt = _write("leaf.pem", pem_of_der(cert_der))
        OPENSSL_CALLS[0] += 1
        # -no_check_time: the fixtures are valid 2020..2070, golden certificates of the repository may be expired;
        # validity periods are not part of what the ROM checks
        r = subprocess.run(["openssl", "verify", "-no_check_time", "-CAfile", ca, crt],
                           capture_output=True, timeout=60)
        _VERIFY_CACHE[key] = (r.returncode == 0, (r.stdout + r.stderr).decode(errors="replace").strip()[-300:])
    return _VERIFY_CACHE[key]


_CMS_CACHE: dict = {}


def openssl_cms_verify(cms_der: bytes, signer_der: bytes, content: bytes) -> tuple:
    """`openssl cms -verify` of a detached CMS signature over exactly `content` by the key of signer_der.

    Results are memoised on the SHA-1 of the three inputs (the tamper sweeps repeat unchanged verifications)."""
    key = hashlib.sha1(hashlib.sha1(cms_der).digest() + hashlib.sha1(signer_der).digest() + hashlib.sha1(content).digest()).digest()
    if key in _CMS_CACHE:
        return _CMS_CACHE[key]
    if len(_CMS_CACHE) > 4096:
        _CMS_CACHE.clear()
    res = _openssl_cms_verify(cms_der, signer_der, content)
    _CMS_CACHE[key] = res
    return res


def _openssl_cms_verify(cms_der: bytes, signer_der: bytes, content: bytes) -> tuple:
    sig = _write("sig.der", cms_der)
    crt = _write("signer.pem", pem_of_der(signer_der))
    cnt = _write("content.bin", content)
    OPENSSL_CALLS[0] += 1
    r = subprocess.run(["openssl", "cms", "-verify", "-inform", "DER", "-in", sig, "-binary", "-noverify",
                        "-certfile", crt, "-content", cnt, "-out", os.devnull], capture_output=True, timeout=60)
    return r.returncode == 0, (r.stdout + r.stderr).decode(errors="replace").strip()[-300:]


def same_public_key(der_a: bytes, der_b: bytes) -> bool:
    from cryptography import x509
    from cryptography.hazmat.primitives import serialization as ser

    def spki(d: bytes) -> bytes:
        return x509.load_der_x509_certificate(d).public_key().public_bytes(ser.Encoding.DER, ser.PublicFormat.SubjectPublicKeyInfo)

    return spki(der_a) == spki(der_b)


def ccm_decrypt(dek: bytes, nonce: bytes, mac: bytes, ciphertext: bytes) -> bytes:
    """AES-CCM, no associated data; raises cryptography.exceptions.InvalidTag / ValueError."""
    from cryptography.hazmat.primitives.ciphers.aead import AESCCM

    return AESCCM(dek, tag_length=len(mac)).decrypt(nonce, ciphertext + mac, None)


def ccm_length_field(nonce_len: int) -> int:
    return 15 - nonce_len


# ---------------------------------------------------------------------------------------------
# the ROM's walk over an authenticated image


def authenticate(data: bytes, img: dict, srk_certs_der: list, dek: Optional[bytes] = None) -> dict:
    """Replays the CSF like the ROM does.  Returns {"fails": [(stage, message)...], facts...}; never raises
    for a property failure (every check is independent), only Malformed for unreadable structures.

    srk_certs_der: the certificates whose keys are supposed to be in the SRK table (index = table position); they
    are the trust anchors of `openssl verify`."""
    fails: list = []
    csf = img["csf"]
    base = img["ivt"]["self"]
    out: dict = {"fails": fails, "signed_blocks": [], "decrypt_blocks": [], "fuses": None, "csf_sig_ok": None,
                 "img_sig_ok": None, "plaintext": None, "srk_index": None, "fast_auth": False}
    slots: dict = {}  # public key store: slot -> certificate DER (slot 0: the SRK certificate)
    secret_slots: dict = {}
    csf_authenticated = False
    has_csfk = any(c["tag"] == CMD_INS_KEY and c["pcl"] == PCL_X509 and c["flags"] & INS_CSF for c in csf["commands"])
    for c in csf["commands"]:
        if c["tag"] == CMD_INS_KEY and c["pcl"] == PCL_SRK:
            tbl = c["srk_table"]
            out["fuses"] = srk_fuses(tbl["entries"])
            out["srk_entries"] = len(tbl["entries"])
            out["srk_index"] = c["src"]
            if c["src"] >= len(tbl["entries"]):
                fails.append(("srk-index", f"Install SRK source index {c['src']} but the table has {len(tbl['entries'])} entries"))
                continue
            ent = tbl["entries"][c["src"]]
            if ent["kind"] == "hash":
                fails.append(("srk-index", "the selected SRK entry is a hash-only entry"))
                continue
            if c["src"] >= len(srk_certs_der):
                fails.append(("srk-index", "no trust anchor for the selected SRK entry"))
                continue
            want = srk_entry_of_cert(srk_certs_der[c["src"]])
            if want[8:] != ent["raw"][8:] or want[:7] != ent["raw"][:7]:  # everything except the CA flag byte
                fails.append(("srk-key", f"SRK table entry {c['src']} is not the public key of SRK certificate {c['src']}"))
            if c["tgt"] != 0:
                fails.append(("srk-index", f"Install SRK target slot {c['tgt']} (must be 0)"))
            slots[0] = srk_certs_der[c["src"]]
        elif c["tag"] == CMD_INS_KEY and c["pcl"] == PCL_X509:
            tgt = 1 if c["flags"] & INS_CSF else c["tgt"]
            if c["flags"] & INS_CSF and c["tgt"] != 1:
                fails.append(("key-slot", f"Install CSFK into slot {c['tgt']}"))
            ver = slots.get(c["src"])
            if ver is None:
                fails.append(("key-slot", f"Install Key: verification slot {c['src']} is empty"))
            else:
                ok, msg = openssl_verify_chain(ver, c["cert_der"])
                if not ok:
                    fails.append(("chain", f"certificate for slot {tgt} does not verify under slot {c['src']}: {msg}"))
            if tgt in slots and slots[tgt] != c["cert_der"]:
                fails.append(("key-slot", f"slot {tgt} installed twice"))
            slots[tgt] = c["cert_der"]
        elif c["tag"] == CMD_INS_KEY and c["pcl"] == PCL_BLOB:
            secret_slots[c["tgt"]] = c["key_dat"]
            out["dek_blob_address"] = c["key_dat"]
            out["dek_blob_abs"] = bool(c["flags"] & INS_ABS)
        elif c["tag"] == CMD_AUT_DAT and c["pcl"] == PCL_CMS:
            signer = slots.get(c["key"])
            if signer is None and not c["blocks"] and c["key"] == 1 and not has_csfk and 0 in slots:
                # fast authentication (no CSF key installed): the CSF is signed by the SRK itself
                # (calibrated on the golden rt1060_flashloader_authenticated_nocak/output.bin)
                signer = slots[0]
                out["fast_auth"] = True
            if signer is None:
                fails.append(("key-slot", f"Authenticate Data: key slot {c['key']} is empty"))
                continue
            if not c["blocks"]:
                ok, msg = openssl_cms_verify(c["cms"], signer, csf["signed_part"])
                out["csf_sig_ok"] = ok
                if not ok:
                    fails.append(("csf-signature", f"CMS over CSF header+commands ({csf['len']} bytes) under slot {c['key']}: {msg}"))
                csf_authenticated = True
            else:
                if not csf_authenticated:
                    fails.append(("order", "Authenticate Data with blocks before the CSF was authenticated"))
                try:
                    content = block_bytes(data, base, c["blocks"])
                except Malformed as e:
                    fails.append(("blocks", e.msg))
                    continue
                ok, msg = openssl_cms_verify(c["cms"], signer, content)
                out["img_sig_ok"] = ok if out["img_sig_ok"] in (None, True) else False
                if not ok:
                    fails.append(("image-signature", f"CMS over the {len(c['blocks'])} listed blocks ({len(content)} bytes) under slot {c['key']}: {msg}"))
                out["signed_blocks"] += [tuple(b) for b in c["blocks"]]
        elif c["tag"] == CMD_AUT_DAT and c["pcl"] == PCL_AEAD:
            out["decrypt_blocks"] += [tuple(b) for b in c["blocks"]]
            out["nonce_len"] = len(c["nonce"])
            out["mac_len"] = len(c["mac"])
            if c["key"] not in secret_slots:
                fails.append(("key-slot", f"Decrypt Data: secret key slot {c['key']} is empty"))
            if dek is not None:
                try:
                    ct = block_bytes(data, base, c["blocks"])
                    out["ciphertext_len"] = len(ct)
                    out["plaintext"] = ccm_decrypt(dek, c["nonce"], c["mac"], ct)
                except Malformed as e:
                    fails.append(("blocks", e.msg))
                except Exception as e:  # noqa  InvalidTag, ValueError (nonce/tag length)
                    fails.append(("decrypt", f"AES-CCM: {type(e).__name__} {e}"))
    out["slots"] = sorted(slots)
    return out
