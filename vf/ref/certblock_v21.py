"""Independent reader of the NXP certificate block v2.1 (ECDSA, used by SB 3.1 and the ECC MBI types).

Written from the layout in DESIGN §28 "Cert block v2.1"; works on bytes only, uses `hashlib` and the
`cryptography` ECDSA primitive directly.  No spsdk imports.

Layout (little-endian words)
----------------------------
header           "chdr" | u16 minor (1) | u16 major (2) | u32 size of the whole block
root key record  u32 flags = CA << 31 | used root index << 8 | root count << 4 | curve (1 = P-256, 2 = P-384)
                 CTRK table: count x H(X || Y of root i)        (present only when count > 1)
                 X || Y of the used root key                     (fixed-width big-endian coordinates)
ISK certificate  (present iff CA == 0)
                 u32 signature offset (from the start of the ISK certificate) | u32 constraints
                 u32 flags = user data present << 31 | curve of the ISK key
                 X || Y of the ISK key | user data | ECDSA signature r || s by the used root key over
                 `root key record || ISK certificate up to the signature`
H = SHA-256 for P-256 roots, SHA-384 for P-384 roots; the ISK signature uses the hash that belongs to the
*root* curve.  RKTH (what the device holds in fuses) = H(CTRK table), or H(X || Y) when there is one root only.
The image signature is made by the ISK key when an ISK certificate is present, else by the used root key.
"""
from __future__ import annotations

import hashlib
import struct
from typing import Any, Optional

from cryptography.exceptions import InvalidSignature
from cryptography.hazmat.primitives import hashes
from cryptography.hazmat.primitives.asymmetric import ec
from cryptography.hazmat.primitives.asymmetric.utils import encode_dss_signature

# curve id -> (curve object, coordinate bytes, hash object for ECDSA, hashlib constructor)
CURVES = {1: (ec.SECP256R1, 32, hashes.SHA256, hashlib.sha256),
          2: (ec.SECP384R1, 48, hashes.SHA384, hashlib.sha384)}


class CertReject(Exception):
    def __init__(self, stage: str, msg: str = ""):
        super().__init__(f"{stage}: {msg}")
        self.stage = stage
        self.msg = msg


def ec_public(curve_id: int, xy: bytes, what: str):
    curve, n, _, _ = CURVES[curve_id]
    if len(xy) != 2 * n:
        raise CertReject("cert-truncated", f"{what}: {len(xy)} bytes of public key, {2 * n} expected")
    try:
        return ec.EllipticCurvePublicNumbers(int.from_bytes(xy[:n], "big"), int.from_bytes(xy[n:], "big"),
                                             curve()).public_key()
    except Exception as e:  # noqa  (ValueError: not on the curve)
        raise CertReject("cert-point", f"{what}: not a point of the curve ({e})")


def ecdsa_verify(pub, curve_id: int, sig: bytes, msg: bytes) -> bool:
    """Raw r || s signature, hash chosen by the curve of the verifying key."""
    _, n, h, _ = CURVES[curve_id]
    if len(sig) != 2 * n:
        return False
    r, s = int.from_bytes(sig[:n], "big"), int.from_bytes(sig[n:], "big")
    try:
        pub.verify(encode_dss_signature(r, s), msg, ec.ECDSA(h()))
        return True
    except InvalidSignature:
        return False


def rkth_of(root_keys: list) -> bytes:
    """Root-key-table hash the device is fused with, from the root public keys (X || Y each)."""
    if not 1 <= len(root_keys) <= 4:
        raise ValueError("1..4 root keys")
    n = len(root_keys[0]) // 2
    hfn = {32: hashlib.sha256, 48: hashlib.sha384}[n]
    if any(len(k) != 2 * n for k in root_keys):
        raise ValueError("root keys of one curve expected")
    hs = [hfn(k).digest() for k in root_keys]
    return hs[0] if len(hs) == 1 else hfn(b"".join(hs)).digest()


def read(data: bytes, off: int, verify: bool = True, limit: Optional[int] = None) -> dict:
    """Parse + authenticate the block at `off`.  Returns fields, `regions` [(name, a, b)] and the signing key."""
    lim = len(data) if limit is None else min(limit, len(data))
    if off < 0 or off + 12 > lim:
        raise CertReject("cert-header", "certificate block header outside the data")
    magic, minor, major, size = struct.unpack_from("<4s2HL", data, off)
    if magic != b"chdr":
        raise CertReject("cert-header", f"no 'chdr' magic at offset {off} ({magic!r})")
    if (major, minor) != (2, 1):
        raise CertReject("cert-header", f"format version {major}.{minor}")
    if size < 16 or off + size > lim:
        raise CertReject("cert-header", f"block size {size} does not fit")
    end = off + size
    regions = [("cert-header", off, off + 12)]
    pos = off + 12
    (flags,) = struct.unpack_from("<L", data, pos)
    ca = bool(flags >> 31)
    used = (flags >> 8) & 0xF
    count = (flags >> 4) & 0xF
    curve_id = flags & 0xF
    if curve_id not in CURVES:
        raise CertReject("cert-root-flags", f"curve id {curve_id}")
    if flags & 0x7FFFF000:
        raise CertReject("cert-root-flags", f"reserved bits set in {flags:#010x}")
    if not 1 <= count <= 4 or used >= count:
        raise CertReject("cert-root-flags", f"{count} roots, used index {used}")
    _, n, _, hfn = CURVES[curve_id]
    hlen = hfn().digest_size
    rec_start = pos
    regions.append(("cert-root-flags", pos, pos + 4))
    pos += 4
    table = b""
    if count > 1:
        if pos + hlen * count > end:
            raise CertReject("cert-truncated", "CTRK table does not fit into the block")
        table = bytes(data[pos:pos + hlen * count])
        regions.append(("cert-ctrk-table", pos, pos + hlen * count))
        pos += hlen * count
    if pos + 2 * n > end:
        raise CertReject("cert-truncated", "root public key does not fit into the block")
    root_xy = bytes(data[pos:pos + 2 * n])
    root_pub = ec_public(curve_id, root_xy, "root key")
    regions.append(("cert-root-key", pos, pos + 2 * n))
    pos += 2 * n
    root_hash = hfn(root_xy).digest()
    if count > 1:
        if verify and table[hlen * used:hlen * (used + 1)] != root_hash:
            raise CertReject("cert-ctrk", "H(root key) is not the entry of the CTRK table at the used index")
        rkth = hfn(table).digest()
    else:
        rkth = root_hash
    record = bytes(data[rec_start:pos])
    out: dict[str, Any] = {"offset": off, "size": size, "end": end, "ca": ca, "used_root": used, "root_count": count,
                           "root_curve": curve_id, "root_key": root_xy, "ctrk_table": table, "rkth": rkth, "isk": None}
    if ca:
        if pos != end:
            raise CertReject("cert-size", f"{end - pos} bytes after the root key record of a CA block")
        out.update(sign_pub=root_pub, sign_curve=curve_id, sign_key=root_xy)
    else:
        if pos + 12 > end:
            raise CertReject("cert-truncated", "ISK certificate header does not fit into the block")
        isk_start = pos
        sig_off, constraints, iflags = struct.unpack_from("<3L", data, pos)
        icurve = iflags & 0xF
        if icurve not in CURVES:
            raise CertReject("cert-isk-flags", f"ISK curve id {icurve}")
        if iflags & 0x7FFFFFF0:
            raise CertReject("cert-isk-flags", f"reserved bits set in {iflags:#010x}")
        m = CURVES[icurve][1]
        key_start = pos + 12
        ud_start = key_start + 2 * m
        sig_start = isk_start + sig_off
        if ud_start > end or sig_start < ud_start or sig_start + 2 * n != end:
            raise CertReject("cert-isk-offset", f"signature offset {sig_off} inconsistent with the block size {size}")
        isk_xy = bytes(data[key_start:ud_start])
        isk_pub = ec_public(icurve, isk_xy, "ISK key")
        user_data = bytes(data[ud_start:sig_start])
        if bool(user_data) != bool(iflags >> 31):
            raise CertReject("cert-isk-flags", "user-data flag does not match the user data length")
        isk_sig = bytes(data[sig_start:end])
        signed = record + bytes(data[isk_start:sig_start])
        if verify and not ecdsa_verify(root_pub, curve_id, isk_sig, signed):
            raise CertReject("cert-isk-signature", "ISK certificate signature does not verify under the used root key")
        regions += [("cert-isk-header", isk_start, key_start), ("cert-isk-key", key_start, ud_start)]
        if user_data:
            regions.append(("cert-isk-user-data", ud_start, sig_start))
        regions.append(("cert-isk-signature", sig_start, end))
        out.update(sign_pub=isk_pub, sign_curve=icurve, sign_key=isk_xy,
                   isk={"constraints": constraints, "user_data": user_data, "key": isk_xy, "curve": icurve})
    out["regions"] = regions
    out["sig_len"] = 2 * CURVES[out["sign_curve"]][1]
    return out
