"""RSA signature verification written from RFC 8017 (PKCS #1 v2.2) on Python integers and hashlib:
RSAVP1 (5.2.2), RSASSA-PKCS1-v1_5 (8.2.2 / 9.2), RSASSA-PSS (8.1.2 / 9.1.2), MGF1 (B.2.1).
The matching signing operations (RSASP1 with the private exponent, EMSA encodings) exist only to
*construct* oracle inputs.  No spsdk, no `cryptography`, no OpenSSL.
"""
from __future__ import annotations

import hashlib
from typing import Optional

# DigestInfo prefixes, RFC 8017 section 9.2 note 1
DIGEST_INFO = {
    "sha1": bytes.fromhex("3021300906052b0e03021a05000414"),
    "sha256": bytes.fromhex("3031300d060960864801650304020105000420"),
    "sha384": bytes.fromhex("3041300d060960864801650304020205000430"),
    "sha512": bytes.fromhex("3051300d060960864801650304020305000440"),
}


def hlen(hash_name: str) -> int:
    return hashlib.new(hash_name).digest_size


def rsavp1(n: int, e: int, s: int) -> Optional[int]:
    if not 0 <= s < n:
        return None  # "signature representative out of range"
    return pow(s, e, n)


def rsasp1(n: int, d: int, m: int) -> int:
    assert 0 <= m < n
    return pow(m, d, n)


def emsa_pkcs1_v15(hash_name: str, digest: bytes, em_len: int) -> Optional[bytes]:
    """EM = 0x00 || 0x01 || PS (0xff.., >= 8) || 0x00 || DigestInfo  (9.2)."""
    if len(digest) != hlen(hash_name):
        return None
    t = DIGEST_INFO[hash_name] + digest
    if em_len < len(t) + 11:
        return None
    return b"\x00\x01" + b"\xff" * (em_len - len(t) - 3) + b"\x00" + t


def verify_pkcs1_v15(n: int, e: int, hash_name: str, digest: bytes, sig: bytes) -> bool:
    k = (n.bit_length() + 7) // 8
    if len(sig) != k:
        return False
    m = rsavp1(n, e, int.from_bytes(sig, "big"))
    if m is None:
        return False
    em = emsa_pkcs1_v15(hash_name, digest, k)
    return em is not None and m.to_bytes(k, "big") == em


def mgf1(hash_name: str, seed: bytes, length: int) -> bytes:
    out = b""
    counter = 0
    while len(out) < length:
        out += hashlib.new(hash_name, seed + counter.to_bytes(4, "big")).digest()
        counter += 1
    return out[:length]


def emsa_pss_verify(hash_name: str, m_hash: bytes, em: bytes, em_bits: int, s_len: int) -> bool:
    """RFC 8017 9.1.2 steps 3-14 (the message is already hashed: m_hash)."""
    h_len = hlen(hash_name)
    if len(m_hash) != h_len:
        return False
    em_len = (em_bits + 7) // 8
    if len(em) != em_len:
        return False
    if em_len < h_len + s_len + 2:
        return False
    if em[-1] != 0xBC:
        return False
    masked_db = em[:em_len - h_len - 1]
    h = em[em_len - h_len - 1:-1]
    zero_bits = 8 * em_len - em_bits
    if zero_bits and masked_db[0] >> (8 - zero_bits):
        return False
    db_mask = mgf1(hash_name, h, em_len - h_len - 1)
    db = bytearray(a ^ b for a, b in zip(masked_db, db_mask))
    if zero_bits:
        db[0] &= 0xFF >> zero_bits
    ps_len = em_len - h_len - s_len - 2
    if any(db[:ps_len]) or db[ps_len] != 0x01:
        return False
    salt = bytes(db[len(db) - s_len:]) if s_len else b""
    h2 = hashlib.new(hash_name, b"\x00" * 8 + m_hash + salt).digest()
    return h2 == h


def emsa_pss_encode(hash_name: str, m_hash: bytes, em_bits: int, salt: bytes) -> bytes:
    """RFC 8017 9.1.1 with a caller-chosen salt (for constructing oracle inputs)."""
    h_len = hlen(hash_name)
    em_len = (em_bits + 7) // 8
    assert len(m_hash) == h_len and em_len >= h_len + len(salt) + 2
    h = hashlib.new(hash_name, b"\x00" * 8 + m_hash + salt).digest()
    db = b"\x00" * (em_len - len(salt) - h_len - 2) + b"\x01" + salt
    mask = mgf1(hash_name, h, em_len - h_len - 1)
    masked = bytearray(a ^ b for a, b in zip(db, mask))
    masked[0] &= 0xFF >> (8 * em_len - em_bits)
    return bytes(masked) + h + b"\xbc"


def verify_pss(n: int, e: int, hash_name: str, digest: bytes, sig: bytes, s_len: Optional[int] = None) -> bool:
    """RSASSA-PSS-VERIFY (8.1.2) with MGF1 over the same hash; salt length defaults to the digest length."""
    k = (n.bit_length() + 7) // 8
    if len(sig) != k:
        return False
    m = rsavp1(n, e, int.from_bytes(sig, "big"))
    if m is None:
        return False
    em_bits = n.bit_length() - 1
    em_len = (em_bits + 7) // 8
    if m >> (8 * em_len):
        return False  # I2OSP "integer too large"
    return emsa_pss_verify(hash_name, digest, m.to_bytes(em_len, "big"), em_bits,
                           hlen(hash_name) if s_len is None else s_len)


def verify(n: int, e: int, hash_name: str, digest: bytes, sig: bytes, pss: bool) -> bool:
    return verify_pss(n, e, hash_name, digest, sig) if pss else verify_pkcs1_v15(n, e, hash_name, digest, sig)


def sign(n: int, d: int, hash_name: str, digest: bytes, pss: bool, salt: bytes = b"",
         crt: Optional[tuple] = None) -> bytes:
    """Signature with the fixture's private exponent; PSS with the given salt.
    crt = (p, q, dP, dQ, qInv) switches RSASP1 to the CRT form of RFC 8017 5.2.1 step 2.b (same result, faster)."""
    k = (n.bit_length() + 7) // 8
    if pss:
        em = emsa_pss_encode(hash_name, digest, n.bit_length() - 1, salt)
    else:
        em = emsa_pkcs1_v15(hash_name, digest, k)
        assert em is not None
    m = int.from_bytes(em, "big")
    if crt:
        p, q, dp, dq, qinv = crt
        s1 = pow(m, dp, p)
        s2 = pow(m, dq, q)
        s = s2 + q * ((s1 - s2) * qinv % p)
        assert pow(s, 65537, n) == m or s == rsasp1(n, d, m)
    else:
        s = rsasp1(n, d, m)
    return s.to_bytes(k, "big")


# ---------------------------------------------------------------------------------------------
# Self-test.  Vectors: (1) RFC 8017 structure checks on an own toy-free path: the fixture
# certificates (RSA-2048/3072/4096, sha256WithRSAEncryption) were signed by OpenSSL;
# (2) signatures made by the OpenSSL 3 command line with the pool key rsa2048_0 over b"abc"
# (`openssl dgst -<hash> -sign rsa2048_0.pem [-sigopt rsa_padding_mode:pss -sigopt rsa_pss_saltlen:digest]`),
# embedded below; PKCS#1 v1.5 is deterministic, so the own signer must reproduce those bytes.

_OPENSSL_VECTORS: dict = {}  # filled by _load_vectors() from the literal below

_VEC_TEXT = """
v15 sha1 4da2d00d43936b8e38107d5109b1929177c8fa2944190a8d8c8cbe7e6fbd044afc249d22a88fa977a1267dd4863194febb10ae34bea85b3d57629fb8c101ce2fdf22f5e1bc012280ed34d8abb1d3a9cbb521f647f7eabddaa7a29b5dc9868362954eb93ea6199c6461dcbe961924ef41e76990b1c5470e8f8470ae946c49a8a4c69c93cd6c367db7329634cfa22902849a16a318e6aeec751a34a72a5b19c85636eb820ea2e769f4a9c64cd3eff7793a4402eaa885dcdb74e12d9d85da7d494df499615f1df3b0acffc30564a9cdb9c8d31ddc385ce8bbc311112d57852abb8bc7e2a353285a6ec0b4ba85cc6990fdc2eaf2f8c9389a5c8316ecb9cdae700bdf
pss sha1 21c93b9d2d31f906ea8cf22f113064c89e0f80595a593a311c5e45aeb763b7dd077dbb449104961c11c8b9c356e6ce4820434e7cb692bd005c7944966925d8249d7db482d66393904d519d678b4fc1418c241a408cfb37cd4a593ee7173d7696aadfee58dc5e9c14dce24305bd2812f2bf3dc51a6d0ae15b14c6ca8f43fce9a28c905b9baed1d5b35a2b320d71cac80cf9f71c183e1b433a6d4aa282d86e907271af0b16adca9e097bc47be1b1112e99229e853c07a834f8b05a3a31d229ed646beb230f2256a5d0864ff1335c4d0319ac3a3e59030375b700444d4ab0687c9ea1836ee2201ff78d35b6d79023529ee67577552a107039049ca3adfa2b645f0f
v15 sha256 28eed86330cc7719ce86ec04479af0069aa01841aa80a4d26e72c5098ce069b0081d1c4387ee4c0e106b0cd318c92dc950c0ecce68afc49d0633e5f310874312f33db96bdf1023a6424a5daed312688af772d2cc0e645ab3fbb685171b7d294cc6304b871f1a27783d65d540e0bf11bff922b3e403db12a9161bb2a3c209f9da1ec717123f35cdbc2de9b327ce72380d47b2dd5fa83db037d832fd8767a53a43a247d707dc9310d8f24ef767fb6c9c9d3ba5edaaf3ea501d172874c5687465e14ad741c5b6e34a3b4b4ce3203e1041a5c53fdcd064f26656f06c97a8066d3d2d0b3b54fb67cb6ac1a788b5288c05f0b67154ebab91a189ed896a3c56978f681c
pss sha256 4fb9adbec889edcd4c54f4b82f060f66a00cd61f8477fc70dc74eea5e23fae9a0f61b655933bf6db66e5c3508f44513a4855d6feda92beb7a6c84e0b90010de0ad7f698c7846e35355fcf09483b283f00724daf395d726ba270647e81915ef236079e6e39ee1c71d0d132955d7eb9c5c7ad71d146f4619b61e12172f4315f541b24080d0b5dee308260b28cca4ab384cd20b7629cdc533ee7699ba21bfb571c3b72aa835e85e5ad9106c435c2a2dfabd0368cfc3dce0261904dd3f1f8a5a5df0033f0efa62fd5b3c396b8302cc0fc2b3130a1846d82dc866d57f3f06b74895b9fe475a6a4815b7d7459f8a522441a40050f9b8533cd120b00e6fd7a2986ecda2
v15 sha384 8e002e9ed3dba6564525ed28f99ff53a9118c0d3dc223c7e405c5182c51177f1613d995495a4389d24e29e04af49ef564d77f6c110c855845129491d924c0359ead0e6fe4a97132d9362825eba6ea311022711203f64b47c9fb2ca32950d627d8859cac3b43c76fa60c9487b281bd9888b315b8a5cade96f9e054e710b6a4cb15d427b4fd8e5dfc270f55dbaf82d41bed65bfd1f1af2a33fad170bbb4cd0cc1e171c5b9cf6bf5ca97cb46a03e7aafa05d0b87ada9fe49626bec13667f776cd02483574307717b6ec48c6d34d1e7f93963bfa3c25ad283fc2a2d29f2770e0b80f4fbbc3eae838558fe33b27b8ec498ece4fde10c6c40532567bad954697cd3408
pss sha384 0b72477e82673bec89531b56cdab1a1717f6ac5f448fdadc1fe6ccbab1022b413c8dc344452c7e84f52edec2cfaa904d36ad5021755afe880adcf23966b83de6dcdc0b16ed16ea50b434688896282314eeff3f172e96b219827c141193844bc61964634d01d582c5a8cf3201701bbc575482ae63b34a5d6df3b47d89d1185254777b49320ef640f92554892f522c8e950985961d4230e4ad7a14726827b336b64c62353a6c3fc891d20748a788491d12947ac42792e5ac2911a85dadbcc4b62fe48dee075b19de65d3999befeb24bf083b20362d7a360a82c51a4f3949ecd88f7fa3de2fe4f625d81d614c1b0d8c839b29e0d1afc83fa792cd6f930081dd8a4f
v15 sha512 901c940e70adf20ab5df7c50ea44379766ff6257315f709306485c1d5211129ed0898ba9b31fa584e018347fee01fd5c278d9db667a4dd5be8377b3636ee58c8b47ac37fe54f391134339262514399567ff1fcdd167451659a687977d57bad21eaa3de8ec2e4dcc1f9be2b168cb82535caf7510da6e26b0af3130a0849c70dfcb122e72ed492b9f8e81508cd0c33d4f545e37b1b9a47fe8b412bc79799f9db2ae9d945c4b3d02da0d60954ef2a00275940830840270d05f0d76d0eddc2cf9df1668355b97588c2018274e28668f59287b6cff63095c8884fd98f06383712bda2b9d17191778aed6dca3307c8135cd3eb5f029eebc8ab29967dac58bbdbec1f97
pss sha512 835526d3a4cc5e5b45f26efd512712e3fbc2bce23a0cf73ae6c680e777ab1dc55c7e2e8b18e2beaa776b17b0d4c8f347286fc46c25911167149bf5d194f70dc98928ca06a16486229081b701d9a3f6240fa5451ee2ea6fcf9ce613cdabc15fa7675c6eb55e508eb00dcf855e8ec83cbf17c6dc9cac65bf0e4aba49681fc40c9b35406829fc72c21c173252bd13b5672c07699ca6a125d6477e8c0d2519517738131b70738e5646de9d949e189b48db4e7e67caaf6f93a5fb077e03987c2be75af369f7ac18ac694e0273a0f09c58e6f5ce0ff211cbab0882464b229cc6fac0398118fc134a6fa6a546b839aa478f8838e8cc39d23d5b9fa69ab00548d53a925a
"""


def _load_vectors() -> dict:
    out = {}
    for line in _VEC_TEXT.strip().splitlines():
        line = line.strip()
        if not line:
            continue
        kind, h, hx = line.split()
        out[(kind, h)] = bytes.fromhex(hx)
    return out


def selftest() -> None:
    import json
    import os

    from vf.ref import der

    # MGF1 vs. an independent formulation (hash of seed||counter, concatenated) and known lengths
    assert mgf1("sha1", b"", 0) == b""
    assert mgf1("sha256", b"seed", 70)[:32] == hashlib.sha256(b"seed" + b"\0\0\0\0").digest()
    assert mgf1("sha256", b"seed", 70)[64:] == hashlib.sha256(b"seed" + b"\0\0\0\2").digest()[:6]
    # EMSA-PKCS1-v1_5 shape
    em = emsa_pkcs1_v15("sha256", hashlib.sha256(b"abc").digest(), 256)
    assert em is not None and len(em) == 256 and em[:2] == b"\x00\x01" and em[2:256 - 52] == b"\xff" * 202
    assert em[256 - 52] == 0 and em[256 - 51:256 - 32] == DIGEST_INFO["sha256"]
    for h, pre in DIGEST_INFO.items():
        # DigestInfo is valid DER: SEQUENCE { SEQUENCE { OID, NULL }, OCTET STRING (hLen) }
        body = pre + b"\0" * hlen(h)
        seq = der.items(der.single(body, der.SEQUENCE))
        assert len(seq) == 2 and seq[1][0] == der.OCTET_STRING and len(seq[1][1]) == hlen(h)
        alg = der.items(seq[0][1])
        assert alg[0][0] == der.OID and alg[1][0] == der.NULL
        oid = der.parse_oid(alg[0][1])
        assert oid == {"sha1": "1.3.14.3.2.26", "sha256": "2.16.840.1.101.3.4.2.1",
                       "sha384": "2.16.840.1.101.3.4.2.2", "sha512": "2.16.840.1.101.3.4.2.3"}[h]
    fx = os.path.join(os.path.dirname(os.path.dirname(os.path.dirname(os.path.abspath(__file__)))), "fixtures")
    idx = json.load(open(os.path.join(fx, "keys", "index.json")))
    # (1) OpenSSL-signed certificates
    cidx = json.load(open(os.path.join(fx, "certs", "index.json")))
    nver = 0
    for root, ent in sorted(cidx.items()):
        k = idx[ent["root_key"]]
        n, e = int(k["n"], 16), k["e"]
        for suffix in ("ca", "nonca"):
            cert = der.parse_certificate(open(os.path.join(fx, "certs", f"{root}_{suffix}.der"), "rb").read())
            assert cert["sig_alg"] == ("rsa", "sha256") and cert["spki"]["n"] == n and cert["spki"]["e"] == e
            dg = hashlib.sha256(cert["tbs"]).digest()
            assert verify_pkcs1_v15(n, e, "sha256", dg, cert["signature"]), root
            assert not verify_pss(n, e, "sha256", dg, cert["signature"])
            bad = bytearray(cert["signature"])
            bad[-1] ^= 1
            assert not verify_pkcs1_v15(n, e, "sha256", dg, bytes(bad))
            assert not verify_pkcs1_v15(n, e, "sha256", hashlib.sha256(cert["tbs"] + b"x").digest(), cert["signature"])
            assert not verify_pkcs1_v15(n, e, "sha384", hashlib.sha384(cert["tbs"]).digest(), cert["signature"])
            nver += 1
    assert nver >= 24
    # (2) OpenSSL command-line signatures with rsa2048_0 over b"abc"
    vec = _load_vectors()
    k = idx["rsa2048_0"]
    n, e, d = int(k["n"], 16), k["e"], int(k["d"], 16)
    assert len(vec) == 8, "embedded OpenSSL vectors missing"
    for (kind, h), sig in vec.items():
        dg = hashlib.new(h, b"abc").digest()
        if kind == "v15":
            assert verify_pkcs1_v15(n, e, h, dg, sig), (kind, h)
            assert sign(n, d, h, dg, False) == sig, ("deterministic v1.5 bytes", h)
            assert not verify_pss(n, e, h, dg, sig)
        else:
            assert verify_pss(n, e, h, dg, sig), (kind, h)
            assert not verify_pss(n, e, h, dg, sig, s_len=hlen(h) - 1)
            assert not verify_pkcs1_v15(n, e, h, dg, sig)
        assert not verify(n, e, h, hashlib.new(h, b"abd").digest(), sig, kind == "pss")
        for pos in (0, len(sig) // 2, len(sig) - 1):
            bad = bytearray(sig)
            bad[pos] ^= 0x10
            assert not verify(n, e, h, dg, bytes(bad), kind == "pss")
    # own PSS encode/verify agree, also for the salt lengths 0 and maximal
    for h in DIGEST_INFO:
        dg = hashlib.new(h, b"m").digest()
        for sl in (0, hlen(h), 256 - hlen(h) - 2):
            sig = sign(n, d, h, dg, True, bytes(range(7, 7 + sl))[:sl] if sl < 249 else b"\x11" * sl)
            assert verify_pss(n, e, h, dg, sig, s_len=sl)
            if sl != hlen(h):
                assert not verify_pss(n, e, h, dg, sig)
    # range check of the signature representative
    assert not verify_pkcs1_v15(n, e, "sha256", hashlib.sha256(b"abc").digest(), n.to_bytes(256, "big"))
    assert not verify_pkcs1_v15(n, e, "sha256", hashlib.sha256(b"abc").digest(), vec[("v15", "sha256")][1:])
    assert not verify_pkcs1_v15(n, e, "sha256", hashlib.sha256(b"abc").digest(), b"\0" + vec[("v15", "sha256")])


if __name__ == "__main__":
    selftest()
    print("rsa selftest ok")
