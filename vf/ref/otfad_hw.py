"""Model of the OTFAD (On-The-Fly AES Decryption) hardware, per 16-byte block.

Written from the key-blob structure / CTR composition comments of the reference manual (quoted
in the header of the SPSDK module) and RFC 3394; it shares no code with spsdk.  The AES core
comes from `cryptography` (single-block ECB calls only); counter composition, context lookup,
byte-lane swapping, key unwrap, KEK scrambling and the CRC are written here.

  keyblob_t (64 bytes, first 40 wrapped with RFC 3394 -> 48 bytes + zero filler):
      key[16]  ctr[8]  srtaddr(le32)  endaddr(le32, low 3 bits = RO|ADE|VLD)  zero(4)  crc32(le32)
  region of a context: [srtaddr & ~0x3FF , endaddr | 0x3FF]      (1 KiB granules, SRTADDR/ENDADDR[31:10])
  counter block of the 16-byte line at system address A:
      CTR[0..3] | CTR[4..7] | CTR[0..3]^CTR[4..7] | (A & ~0xF) as 32-bit big-endian
  data = fetched line XOR AES-128-encrypt(key, counter block), if the context is VLD and ADE.
"""
from __future__ import annotations

from dataclasses import dataclass
from typing import Optional, Sequence

from cryptography.hazmat.primitives.ciphers import Cipher, algorithms, modes

RO, ADE, VLD = 4, 2, 1
GRANULE = 0x400
RECORD = 64
_A6 = b"\xA6" * 8


class _Aes:
    """Single-block AES (ECB) encrypt/decrypt with one key."""

    def __init__(self, key: bytes):
        c = Cipher(algorithms.AES(bytes(key)), modes.ECB())  # nosec - block primitive
        self._e = c.encryptor()
        self._d = c.decryptor()

    def enc(self, block: bytes) -> bytes:
        return self._e.update(block)

    def dec(self, block: bytes) -> bytes:
        return self._d.update(block)


def crc32_mpeg2(data: bytes) -> int:
    """CRC-32/MPEG-2: poly 0x04C11DB7, init 0xFFFFFFFF, no reflection, no final xor."""
    crc = 0xFFFFFFFF
    for b in data:
        crc ^= b << 24
        for _ in range(8):
            crc = ((crc << 1) ^ 0x04C11DB7) & 0xFFFFFFFF if crc & 0x80000000 else (crc << 1) & 0xFFFFFFFF
    return crc


def rfc3394_unwrap(kek: bytes, wrapped: bytes) -> Optional[bytes]:
    """RFC 3394 section 2.2.2 (index based).  Returns None when the integrity value is wrong."""
    if len(wrapped) % 8 or len(wrapped) < 24:
        return None
    n = len(wrapped) // 8 - 1
    aes = _Aes(kek)
    a = wrapped[:8]
    r = [wrapped[8 * (i + 1): 8 * (i + 2)] for i in range(n)]
    for j in range(5, -1, -1):
        for i in range(n, 0, -1):
            t = n * j + i
            ax = (int.from_bytes(a, "big") ^ t).to_bytes(8, "big")
            b = aes.dec(ax + r[i - 1])
            a, r[i - 1] = b[:8], b[8:]
    if a != _A6:
        return None
    return b"".join(r)


def unswap(data: bytes, cnt: int) -> bytes:
    """Undo the 'reverse every group of cnt bytes' transport order of the wrapped blob."""
    if cnt <= 0:
        return bytes(data)
    return b"".join(data[i:i + cnt][::-1] for i in range(0, len(data), cnt))


def rev32(x: int) -> int:
    return int(f"{x & 0xFFFFFFFF:032b}"[::-1], 2)


def context_kek(kek: bytes, index: int, scramble_mask: Optional[int], scramble_align: Optional[int],
                reversed_mask: bool = False) -> bytes:
    """KEK seen by the unwrap of context `index`.

    With key scrambling enabled the 32-bit KEY_SCRAMBLE value is XORed into one 32-bit word of the
    128-bit KEK; KEY_SCRAMBLE_ALIGN holds a 2-bit word selector per context (context n: bits
    2n+1..2n).  The scramble value is laid over the word in little-endian byte order; parts with a
    bit-reversed scramble register use the mirrored value."""
    if scramble_mask is None or scramble_align is None:
        return bytes(kek)
    m = rev32(scramble_mask) if reversed_mask else scramble_mask & 0xFFFFFFFF
    word = (scramble_align >> (2 * index)) & 3
    k = bytearray(kek)
    for j in range(4):
        k[4 * word + j] ^= (m >> (8 * j)) & 0xFF
    return bytes(k)


@dataclass
class Context:
    index: int
    key: bytes
    ctr: bytes
    srtaddr: int
    endaddr: int  # raw word including flags
    zero: bytes
    crc: int
    crc_ok: bool

    @property
    def flags(self) -> int:
        return self.endaddr & 7

    @property
    def first(self) -> int:
        return self.srtaddr & ~(GRANULE - 1) & 0xFFFFFFFF

    @property
    def last(self) -> int:
        return (self.endaddr | (GRANULE - 1)) & 0xFFFFFFFF

    @property
    def valid(self) -> bool:
        return bool(self.flags & VLD)

    @property
    def decrypts(self) -> bool:
        return (self.flags & (VLD | ADE)) == (VLD | ADE)

    def hits(self, addr: int) -> bool:
        return self.valid and self.first <= addr <= self.last


def parse_plain_record(index: int, rec40: bytes) -> Context:
    key, ctr = rec40[:16], rec40[16:24]
    srt = int.from_bytes(rec40[24:28], "little")
    end = int.from_bytes(rec40[28:32], "little")
    zero = rec40[32:36]
    crc = int.from_bytes(rec40[36:40], "little")
    return Context(index, key, ctr, srt, end, zero, crc, crc == crc32_mpeg2(rec40[:32]))


def unwrap_table(table: bytes, kek: bytes, count: int = 4, swap_cnt: int = 0,
                 scramble_mask: Optional[int] = None, scramble_align: Optional[int] = None,
                 reversed_mask: bool = False) -> list[Optional[Context]]:
    """What the key-blob processing of the engine loads: one context per 64-byte record
    (None when the RFC 3394 integrity check fails)."""
    out: list[Optional[Context]] = []
    for i in range(count):
        rec = table[RECORD * i: RECORD * (i + 1)]
        if len(rec) < 48:
            out.append(None)
            continue
        wrapped = unswap(rec[:48], swap_cnt)
        plain = rfc3394_unwrap(context_kek(kek, i, scramble_mask, scramble_align, reversed_mask), wrapped)
        out.append(parse_plain_record(i, plain) if plain is not None else None)
    return out


def _lanes(block: bytes) -> bytes:
    """Byte-lane swap of a 16-byte line: each 64-bit half is byte-reversed."""
    return block[7::-1] + block[15:7:-1]


class OtfadHw:
    def __init__(self, contexts: Sequence[Optional[Context]], byte_swap: bool = False):
        self.ctx = [c for c in contexts if c is not None]
        self.byte_swap = byte_swap
        self._aes: dict[bytes, _Aes] = {}

    def lookup(self, addr: int) -> Optional[Context]:
        """First valid context whose region contains the address (contexts are disjoint in the
        space the check enumerates, so the priority rule of overlapping contexts is not needed)."""
        for c in self.ctx:
            if c.hits(addr):
                return c
        return None

    def keystream(self, c: Context, line_addr: int) -> bytes:
        aes = self._aes.get(c.key)
        if aes is None:
            aes = self._aes[c.key] = _Aes(c.key)
        w0, w1 = c.ctr[:4], c.ctr[4:8]
        x = (int.from_bytes(w0, "big") ^ int.from_bytes(w1, "big")).to_bytes(4, "big")
        return aes.enc(w0 + w1 + x + (line_addr & 0xFFFFFFF0).to_bytes(4, "big"))

    def read(self, mem: bytes, mem_base: int) -> bytes:
        """Bytes the bus master sees when it reads the flash content `mem` located at the
        16-byte aligned system address `mem_base` through the engine."""
        assert mem_base % 16 == 0
        out = bytearray()
        for off in range(0, len(mem), 16):
            line = mem[off:off + 16]
            addr = mem_base + off
            c = self.lookup(addr)
            if c is None or not c.decrypts:
                out += line
                continue
            ks = self.keystream(c, addr)
            n = len(line)
            if n < 16:  # trailing partial line: pad for the lane logic, cut afterwards
                line = line + bytes(16 - n)
            if self.byte_swap:
                line = _lanes(line)
            pt = (int.from_bytes(line, "big") ^ int.from_bytes(ks, "big")).to_bytes(16, "big")
            if self.byte_swap:
                pt = _lanes(pt)
            out += pt[:n]
        return bytes(out)

    def decrypts_at(self, addr: int) -> bool:
        c = self.lookup(addr)
        return bool(c and c.decrypts)
