"""Independent bitwise CRC (Rocksoft model: width, poly, init, refin, refout, xorout).

Parameters are those of the public CRC catalogue (reveng) for the three algorithms that
spsdk.crypto.crc names; nothing is taken from spsdk's CRC_ALGORITHMS table or from crcmod.
"""
from __future__ import annotations


def _reflect(v: int, width: int) -> int:
    r = 0
    for _ in range(width):
        r = (r << 1) | (v & 1)
        v >>= 1
    return r


def crc(data: bytes, width: int, poly: int, init: int, refin: bool, refout: bool, xorout: int) -> int:
    top = 1 << (width - 1)
    mask = (1 << width) - 1
    reg = init
    for byte in data:
        if refin:
            byte = _reflect(byte, 8)
        reg ^= byte << (width - 8)
        for _ in range(8):
            reg = ((reg << 1) ^ poly) & mask if reg & top else (reg << 1) & mask
    if refout:
        reg = _reflect(reg, width)
    return reg ^ xorout


#: label used by spsdk.crypto.crc.CrcAlg -> catalogue parameters and the "123456789" check value
CATALOGUE = {
    "crc32": dict(width=32, poly=0x04C11DB7, init=0xFFFFFFFF, refin=True, refout=True, xorout=0xFFFFFFFF,
                  check=0xCBF43926),  # CRC-32/ISO-HDLC
    "crc32-mpeg": dict(width=32, poly=0x04C11DB7, init=0xFFFFFFFF, refin=False, refout=False, xorout=0,
                       check=0x0376E6E7),  # CRC-32/MPEG-2
    "crc16-xmodem": dict(width=16, poly=0x1021, init=0, refin=False, refout=False, xorout=0,
                         check=0x31C3),  # CRC-16/XMODEM
}


def by_label(label: str, data: bytes) -> int:
    p = dict(CATALOGUE[label])
    p.pop("check")
    return crc(data, **p)


def crc32_mpeg2(data: bytes) -> int:
    return by_label("crc32-mpeg", data)


def crc16_xmodem(data: bytes) -> int:
    return by_label("crc16-xmodem", data)


def crc32(data: bytes) -> int:
    return by_label("crc32", data)


def selftest() -> None:
    for label, p in CATALOGUE.items():
        assert by_label(label, b"123456789") == p["check"], f"CRC check value {label}"
    assert crc32(b"") == 0 and crc32_mpeg2(b"") == 0xFFFFFFFF and crc16_xmodem(b"") == 0
    # residue property of CRC-16/XMODEM: appending the big-endian CRC gives 0
    m = b"The quick brown fox"
    assert crc16_xmodem(m + crc16_xmodem(m).to_bytes(2, "big")) == 0
    assert crc32_mpeg2(m + crc32_mpeg2(m).to_bytes(4, "big")) == 0
    import zlib

    assert crc32(m) == zlib.crc32(m)


if __name__ == "__main__":
    selftest()
    print("selftest ok")
