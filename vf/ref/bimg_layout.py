"""Independent layout calculator for NXP bootable images (oracle of C14).

Input: the `mem_types.<m>` dictionary of the `bootable_image` feature exactly as the generic
database accessor returns it (`segments: {name: offset}`, optional `image_pattern`), the bytes
supplied for each segment and the initial offset the image was asked to start at.

Output: where every supplied segment has to land, which bytes have to hold the fill pattern,
whether two supplied segments intersect (interval arithmetic) and what a parser has to hand back.

Nothing of `spsdk` is imported here.  The few facts that are not in the database are format facts
of the boot ROMs and are kept in the tables below:

* FIXED_SIZE    size of the slots the ROM reads as a whole (FlexSPI configuration block = 512 B, XSPI
                FCB = 768 B, OTFAD/IEE key blob slot = 256 B, RT5xx/RT6xx key store = 2 KB, BEE
                PRDB/KIB header = 512 B, image version word = 4 B)
* FLOAT_ALIGN   a segment whose database offset is negative has no prescribed offset: it starts at
                the end of its predecessor rounded up to this alignment (AHAB containers are
                searched by the ROM / SPL on 1 KB boundaries)
* START_SEGMENTS segments an image may start with when the leading part is cut off (the FCB and
                the application containers); a parser can only recognise such an image by finding
                one of them at offset 0
* APP_SEGMENTS  the application containers (everything else is "boot header")
"""
from __future__ import annotations

from typing import Any, Optional

FIXED_SIZE = {
    "keyblob": 256,
    "fcb": 512,
    "fcb_xspi": 768,
    "image_version": 4,
    "image_version_ap": 4,
    "keystore": 2048,
    "bee_header_0": 512,
    "bee_header_1": 512,
}
FLOAT_ALIGN = {"secondary_image_container_set": 1024}
START_SEGMENTS = ("fcb", "fcb_xspi", "mbi", "hab_container", "ahab_container",
                  "primary_image_container_set", "sb21", "sb31")
APP_SEGMENTS = ("mbi", "hab_container", "ahab_container", "primary_image_container_set",
                "secondary_image_container_set", "sb21", "sb31")
# segments that are a number in the configuration, not a file
VERSION_SEGMENTS = ("image_version", "image_version_ap")


class LayoutError(Exception):
    """The database entry cannot be interpreted by this model (harness problem, not a finding)."""


def align_up(value: int, alignment: int) -> int:
    if alignment <= 1:
        return value
    return -(-value // alignment) * alignment


def fill_byte(pattern: Any) -> int:
    """Byte value of the device's fill pattern ("zeros" / "ones" / a byte value)."""
    if pattern is None or pattern == "zeros":
        return 0x00
    if pattern == "ones":
        return 0xFF
    if isinstance(pattern, int) and 0 <= pattern <= 0xFF:
        return pattern
    if isinstance(pattern, str):
        try:
            v = int(pattern, 0)
            if 0 <= v <= 0xFF:
                return v
        except ValueError:
            pass
    raise LayoutError(f"fill pattern {pattern!r} is not a constant byte")


def encode_image_version(name: str, value: Optional[int]) -> bytes:
    """Bytes of the image-version word for a configured number (None = not configured).

    image_version:    the number as a little-endian 32-bit word (not configured: 0)
    image_version_ap: low half = the 16-bit version, high half = its bitwise complement ("antipole");
                      not configured: the erased value 0xFFFFFFFF"""
    if name == "image_version":
        return (value or 0).to_bytes(4, "little")
    if name == "image_version_ap":
        if value is None:
            return b"\xff\xff\xff\xff"
        lo = value & 0xFFFF
        return (lo | ((lo ^ 0xFFFF) << 16)).to_bytes(4, "little")
    raise LayoutError(name)


class Placed:
    """One supplied segment inside the exported image."""

    __slots__ = ("name", "start", "end", "floating", "data")

    def __init__(self, name: str, start: int, data: bytes, floating: bool):
        self.name = name
        self.start = start
        self.end = start + len(data)
        self.floating = floating
        self.data = data

    def __repr__(self) -> str:
        return f"{self.name}@{self.start:#x}+{len(self.data):#x}{'~' if self.floating else ''}"


class Layout:
    """Segment map of one (family, revision, memory type) triple."""

    def __init__(self, mem_type_entry: dict):
        segs = mem_type_entry.get("segments")
        if not isinstance(segs, dict) or not segs:
            raise LayoutError("no segments in the database entry")
        self.order = list(segs.keys())
        self.offsets = {}
        for n, o in segs.items():
            if not isinstance(o, int) or isinstance(o, bool):
                raise LayoutError(f"offset of {n} is {o!r}")
            self.offsets[n] = o
        self.fill = fill_byte(mem_type_entry.get("image_pattern", "zeros"))
        if self.offsets[self.order[0]] < 0:
            raise LayoutError("first segment has no prescribed offset")
        for n in self.order:
            if self.offsets[n] < 0 and n not in FLOAT_ALIGN:
                raise LayoutError(f"floating segment {n} without a known alignment")
        stat = [self.offsets[n] for n in self.order if self.offsets[n] >= 0]
        if stat != sorted(stat) or len(set(stat)) != len(stat):
            raise LayoutError(f"prescribed offsets are not strictly increasing: {stat}")

    # -- static facts -------------------------------------------------------------------------
    def is_floating(self, name: str) -> bool:
        return self.offsets[name] < 0

    def static_offsets(self) -> list:
        return [self.offsets[n] for n in self.order if self.offsets[n] >= 0]

    def start_offsets(self) -> list:
        """Offsets (besides 0) at which a cut image can be recognised again by a parser."""
        return [self.offsets[n] for n in self.order
                if self.offsets[n] > 0 and n in START_SEGMENTS]

    def gap_after(self, name: str) -> Optional[int]:
        """Room between the prescribed offset of `name` and the next prescribed offset (None: open end)."""
        if self.is_floating(name):
            return None
        i = self.order.index(name)
        for m in self.order[i + 1:]:
            if self.offsets[m] >= 0:
                return self.offsets[m] - self.offsets[name]
            return None  # followed by a floating segment: no fixed room
        return None

    def excluded(self, name: str, init_offset: int) -> bool:
        """A segment whose prescribed offset lies before the initial offset is not part of the image;
        a floating segment shares the fate of the segment it is anchored to."""
        if not self.is_floating(name):
            return self.offsets[name] < init_offset
        i = self.order.index(name)
        if i == 0:
            raise LayoutError("floating segment without predecessor")
        return self.excluded(self.order[i - 1], init_offset)

    # -- placement ----------------------------------------------------------------------------
    def shift_of(self, image: bytes, placed: list) -> Optional[int]:
        """If the image is the expected image preceded by d > 0 extra fill bytes, d (diagnosis of a displaced image)."""
        cands = [1, 2, 4]
        for p in placed:
            if len(p.data) >= 8:
                at = image.find(p.data[:64])
                if at > p.start:
                    cands.insert(0, at - p.start)
                break
        for d in cands:
            if 0 < d < len(image) and image[:d].count(self.fill) == d and not self.check_image(image[d:], placed):
                return d
        return None

    def full_offset(self, name: str, supplied: dict) -> int:
        """Offset of `name` in the full image (initial offset 0)."""
        if not self.is_floating(name):
            return self.offsets[name]
        i = self.order.index(name)
        prev = self.order[i - 1]
        prev_len = len(supplied[prev]) if supplied.get(prev) else 0
        return align_up(self.full_offset(prev, supplied) + prev_len, FLOAT_ALIGN[name])

    def with_defaults(self, supplied: dict) -> dict:
        """The image-version word is not a file but a number in the configuration: when it is not configured the
        word still exists with its default value (0 / erased)."""
        full = dict(supplied)
        for n in self.order:
            if n in VERSION_SEGMENTS and n not in full:
                full[n] = encode_image_version(n, None)
        return full

    def round_init_offset(self, requested: int) -> Optional[int]:
        """An image can only start at a prescribed offset: a requested initial offset in between means the closest
        prescribed offset above it (None: there is none, the request has to be refused)."""
        if requested == 0:
            return 0
        ups = [o for o in self.static_offsets() if o >= requested]
        return min(ups) if ups else None

    def place(self, supplied: dict, init_offset: int = 0) -> list:
        """-> [Placed] of every supplied, non-excluded, non-empty segment, in image order."""
        if init_offset != 0 and init_offset not in self.static_offsets():
            raise LayoutError(f"initial offset {init_offset:#x} is not a prescribed offset")
        supplied = self.with_defaults(supplied)
        out = []
        for n in self.order:
            data = supplied.get(n)
            if not data or self.excluded(n, init_offset):
                continue
            out.append(Placed(n, self.full_offset(n, supplied) - init_offset, bytes(data), self.is_floating(n)))
        for n in supplied:
            if n not in self.offsets:
                raise LayoutError(f"segment {n} is not in the layout")
        return out

    @staticmethod
    def overlaps(placed: list) -> list:
        """Pairs of placed segments whose byte intervals intersect."""
        bad = []
        ps = sorted(placed, key=lambda p: (p.start, p.end))
        for i, a in enumerate(ps):
            for b in ps[i + 1:]:
                if b.start >= a.end:
                    break
                if a.end > b.start and b.end > a.start:
                    bad.append((a, b))
        return bad

    def expected_length(self, placed: list) -> int:
        return max((p.end for p in placed), default=0)

    def expected_image(self, placed: list) -> bytes:
        """The image the property describes (only defined when nothing overlaps)."""
        img = bytearray([self.fill]) * self.expected_length(placed)
        for p in placed:
            img[p.start:p.end] = p.data
        return bytes(img)

    def check_image(self, image: bytes, placed: list) -> list:
        """Compare an exported image with the placement.  -> [(aspect, discriminator, detail)]

        aspects: "segment-at-offset" (bytes of a supplied segment are not at its place),
                 "fill-pattern" (a byte outside every supplied segment is not the fill pattern),
                 "image-length" (the image ends before the end of the last segment)."""
        probs = []
        cover = bytearray(len(image))
        for p in placed:
            kind = "floating" if p.floating else "static"
            got = image[p.start:p.end]
            if got != p.data:
                if len(got) < len(p.data):
                    why = f"image has {len(image)} bytes, segment needs [{p.start:#x},{p.end:#x})"
                else:
                    d = next(i for i in range(len(got)) if got[i] != p.data[i])
                    why = (f"first difference at segment byte {d:#x} (image offset {p.start + d:#x}): "
                           f"image {got[d]:#04x}, supplied {p.data[d]:#04x}")
                    # where are the bytes instead?
                    at = image.find(p.data[:64]) if len(p.data) >= 8 else -1
                    if at >= 0 and at != p.start:
                        why += f"; the segment's first bytes are found at {at:#x}"
                probs.append(("segment-at-offset", f"{p.name}:{kind}", f"{p!r}: {why}"))
            a, b = max(0, p.start), min(len(image), p.end)
            if b > a:
                cover[a:b] = b"\x01" * (b - a)
        need = self.expected_length(placed)
        if len(image) < need:
            probs.append(("image-length", "short", f"image has {len(image)} bytes, last segment ends at {need:#x}"))
        # fill pattern: every uncovered byte
        bounds = sorted([(p.start, p.end, p.name) for p in placed])
        i = 0
        n = len(image)
        while i < n:
            j = cover.find(b"\x00", i)
            if j < 0:
                break
            k = cover.find(b"\x01", j)
            if k < 0:
                k = n
            chunk = image[j:k]
            if chunk.count(self.fill) != len(chunk):
                off = next(x for x in range(len(chunk)) if chunk[x] != self.fill)
                before = [nm for (s, e, nm) in bounds if e <= j]
                region = ("after:" + before[-1]) if before else "before-first"
                if j >= need:
                    region = "tail"
                probs.append(("fill-pattern", f"{region}:fill={self.fill:#04x}",
                              f"byte at {j + off:#x} is {chunk[off]:#04x}, gap [{j:#x},{k:#x}) must hold {self.fill:#04x}"))
            i = k
        return probs

    def expected_parse(self, supplied: dict, init_offset: int = 0) -> dict:
        """{name: bytes} a parser has to return for an image that starts at `init_offset`."""
        return {p.name: p.data for p in self.place(supplied, init_offset)}


def compare_segment(name: str, supplied: bytes, returned: bytes, fill: int) -> str:
    """Judge the bytes a parser returned for one segment.

    "equal"      returned == supplied
    "padded"     supplied is shorter than the fixed slot, returned = supplied + fill up to the slot size
    "truncated"  supplied is longer than the fixed slot, returned = the first slot-size bytes
    "differs"    anything else"""
    if returned == supplied:
        return "equal"
    size = FIXED_SIZE.get(name)
    if size:
        if len(supplied) < size and len(returned) == size and returned[:len(supplied)] == supplied \
                and returned[len(supplied):].count(fill) == size - len(supplied):
            return "padded"
        if len(supplied) > size and returned == supplied[:size]:
            return "truncated"
    return "differs"
