"""Independent, table-driven model of the register-backed configuration areas (C12).

Written from the register description files (`spsdk/data/**/*.json`: registers with
`offset_int`, `reg_width`, `reset_value_int`, bit-fields listed LSB first with their `width`,
unnamed entries being gaps, `values` = enumerations, `calculated` = derived fields,
`config_preprocess` = presentation shift of the configuration value), from the descriptions in
those files ("inverse value of bits [15:0]", "INV ^ CFPA_LC_STATE[7:0] should be 0xFF") and from
the class docstrings / format comments of the areas (tags, sizes).  No `spsdk` import: the files
are data, everything below is plain Python over them.

Model of an area: a byte image of a documented size, pre-filled with a pattern, into which
every register is stored at its byte offset (little endian for all areas of C12), a register
being `reset_value` with individual bit ranges replaced.
"""
from __future__ import annotations

import hashlib
import json
from typing import Any, Iterable, Optional

from vf.ref import crc as _crc


def num(x: Any) -> int:
    """Number grammar of the description files: int, or decimal / 0x / 0b string."""
    if isinstance(x, bool):
        return int(x)
    if isinstance(x, int):
        return x
    s = str(x).strip().replace("_", "")
    return int(s, 0)


def truthy(x: Any) -> bool:
    if isinstance(x, str):
        return x.strip().lower() in ("1", "true", "yes", "t", "y", "on")
    return bool(x)


class SpecField:
    __slots__ = ("uid", "name", "off", "width", "reset", "has_reset", "access", "enums", "shift", "calculated",
                 "declared_off", "dup_enum_names")

    def __init__(self, d: dict, off: int):
        self.uid = d.get("id", "")
        self.name = d.get("name")  # None = gap / reserved bits
        self.off = off
        self.width = num(d.get("width", 0))
        self.has_reset = "reset_value_int" in d
        self.reset = num(d.get("reset_value_int", 0)) & ((1 << self.width) - 1) if self.width else 0
        self.access = str(d.get("access", "RW")).replace("/", "")
        self.enums = {}
        self.dup_enum_names: set[str] = set()  # one name for several values: the name cannot say which
        for v in d.get("values", []):
            if "value" not in v:
                continue
            if v["name"] in self.enums and self.enums[v["name"]] != num(v["value"]):
                self.dup_enum_names.add(v["name"])
            else:
                self.enums[v["name"]] = num(v["value"])
        self.calculated = d.get("calculated")
        self.declared_off = num(d["offset"]) if "offset" in d else None
        self.shift = 0
        pp = d.get("config_preprocess")
        if pp and pp.split(":")[0] == "SHIFT_RIGHT":
            for p in pp.split(";")[0].split(":")[1].split(","):
                k, v = p.split("=")
                if k.strip().upper() == "COUNT":
                    self.shift = num(v)

    @property
    def mask(self) -> int:
        return ((1 << self.width) - 1) << self.off


class SpecReg:
    __slots__ = ("uid", "name", "offset", "width", "reset", "reserved", "access", "fields", "calculated", "index",
                 "has_offset", "ambiguous_reset")

    def __init__(self, d: dict):
        self.uid = d.get("id", "")
        self.name = d.get("name", "N/A")
        self.has_offset = "offset_int" in d
        self.offset = num(d.get("offset_int", 0))
        self.width = num(d.get("reg_width", 32))
        self.reserved = truthy(d.get("is_reserved", False))
        self.access = str(d.get("access", "RW")).replace("/", "")
        self.calculated = d.get("calculated")
        self.index = num(d["index_int"]) if "index_int" in d else None
        self.fields: list[SpecField] = []
        off = 0
        for b in d.get("bitfields", []) or []:
            f = SpecField(b, off)
            off += f.width
            self.fields.append(f)
        base = num(d.get("reset_value_int", 0))
        # reset value of the register: the register-level value with the bit-field level values put in
        self.ambiguous_reset = False
        v = base
        for f in self.fields:
            if f.has_reset and f.reset:
                if (base & f.mask) not in (0, f.reset << f.off):
                    self.ambiguous_reset = True
                v = (v & ~f.mask) | (f.reset << f.off)
        self.reset = v & ((1 << self.width) - 1) if self.width else v

    def field(self, name: str) -> Optional[SpecField]:
        hit = [f for f in self.fields if f.name == name]
        return hit[0] if len(hit) == 1 else None

    @property
    def nbytes(self) -> int:
        return (self.width + 7) // 8


def read_spec(path: str) -> list[SpecReg]:
    with open(path, "r", encoding="utf-8") as f:
        d = json.load(f)
    out = []
    for g in d.get("groups", []):
        for r in g.get("registers", []):
            out.append(SpecReg(r))
    return out


def read_flat_yaml(path: str) -> list[tuple[str, int]]:
    """TrustZone preset file: an ordered mapping `register name: value`."""
    import yaml

    with open(path, "r", encoding="utf-8") as f:
        d = yaml.load(f, Loader=getattr(yaml, "CSafeLoader", yaml.SafeLoader))
    return [(str(k), num(v)) for k, v in d.items()]


def file_sha1(path: str) -> str:
    with open(path, "rb") as f:
        return hashlib.sha1(f.read()).hexdigest()


def extent(regs: Iterable[SpecReg]) -> int:
    return max((r.offset + r.nbytes for r in regs), default=0)


# ---------------------------------------------------------------------------------------------
# image model


class AreaModel:
    """Byte image of `size` bytes (0 = extent of the registers) pre-filled with `prefill`."""

    def __init__(self, regs: list[SpecReg], size: int = 0, prefill: int = 0, byteorder: str = "little",
                 base_offset: int = 0):
        self.regs = regs
        self.byteorder = byteorder
        self.base_offset = base_offset
        self.size = size or (extent(regs) + base_offset)
        self.prefill = prefill
        self.by_name: dict[str, SpecReg] = {}
        self.by_uid: dict[str, SpecReg] = {}
        self.dup_names: set[str] = set()
        for r in regs:
            if r.name in self.by_name:
                self.dup_names.add(r.name)
            else:
                self.by_name[r.name] = r
            self.by_uid.setdefault(r.uid, r)
        # registers of a description file must not share bytes (offset 0 without `offset_int` = no address: fuse maps)
        self.overlapping: set[str] = set()
        placed = sorted((r for r in regs if r.has_offset), key=lambda r: (r.offset, r.nbytes))
        end, last = -1, None
        for r in placed:
            if r.offset < end and last is not None and not (r.reserved and last.reserved):
                self.overlapping.add(r.name)
                self.overlapping.add(last.name)
            if r.offset + r.nbytes > end:
                end, last = r.offset + r.nbytes, r

    def reg(self, name: str) -> Optional[SpecReg]:
        if name in self.dup_names:
            return None
        return self.by_name.get(name) or self.by_uid.get(name)

    def reset_image(self) -> bytes:
        img = bytearray([self.prefill]) * self.size
        for r in self.regs:
            self.put(img, r, r.reset)
        return bytes(img)

    def put(self, img: bytearray, r: SpecReg, value: int) -> None:
        o = r.offset + self.base_offset
        img[o:o + r.nbytes] = (value & ((1 << (8 * r.nbytes)) - 1)).to_bytes(r.nbytes, self.byteorder)

    def get(self, img: bytes, r: SpecReg) -> int:
        o = r.offset + self.base_offset
        return int.from_bytes(img[o:o + r.nbytes], self.byteorder)

    def with_field(self, img: bytes, r: SpecReg, f: SpecField, raw: int) -> bytes:
        out = bytearray(img)
        v = self.get(img, r)
        self.put(out, r, (v & ~f.mask) | ((raw << f.off) & f.mask))
        return bytes(out)

    def with_reg(self, img: bytes, r: SpecReg, value: int) -> bytes:
        out = bytearray(img)
        self.put(out, r, value)
        return bytes(out)


def diff_regs(model: AreaModel, a: bytes, b: bytes, limit: int = 4) -> str:
    """Human readable list of the registers in which two images differ."""
    out = []
    if len(a) != len(b):
        out.append(f"length {len(a)} vs {len(b)}")
    covered = bytearray(max(len(a), len(b)))
    for r in model.regs:
        o = r.offset + model.base_offset
        for i in range(o, min(o + r.nbytes, len(covered))):
            covered[i] = 1
        va, vb = a[o:o + r.nbytes], b[o:o + r.nbytes]
        if va != vb and len(out) < limit:
            out.append(f"{r.name}@{o:#x}: {va[::-1].hex()} vs {vb[::-1].hex()}")
    for i in range(min(len(a), len(b))):
        if not covered[i] and a[i] != b[i] and len(out) < limit:
            out.append(f"gap byte @{i:#x}: {a[i]:02x} vs {b[i]:02x}")
    return "; ".join(out) or "identical"


# ---------------------------------------------------------------------------------------------
# computed fields (table: `calculated` marker of the description file -> rule)


def inverse_rules(regs: list[SpecReg]) -> list[tuple[SpecReg, SpecField]]:
    """Bit-fields the description files mark `calculated: INVERSE`: a field of width w at bit o holds
    the bitwise inverse of the w bits below it ("inverse value of bits [15:0]")."""
    return [(r, f) for r in regs for f in r.fields if f.calculated == "INVERSE" and f.off >= f.width]


def inverse_expected(value: int, f: SpecField) -> int:
    src = (value >> (f.off - f.width)) & ((1 << f.width) - 1)
    return (~src) & ((1 << f.width) - 1)


def check_inverse(model: AreaModel, img: bytes, demanded: Iterable[str]) -> list[tuple[str, str]]:
    """-> [(register name, detail)] for every demanded register whose INVERSE field is wrong."""
    dem = set(demanded)
    bad = []
    for r, f in inverse_rules(model.regs):
        if r.name not in dem:
            continue
        v = model.get(img, r)
        got = (v >> f.off) & ((1 << f.width) - 1)
        want = inverse_expected(v, f)
        if got != want:
            bad.append((r.name, f"{r.name}={v:#010x}: {f.name} is {got:#x}, inverse of the bits below is {want:#x}"))
    return bad


def other_calculated(regs: list[SpecReg]) -> list[str]:
    """Markers this table has no rule for (reported as observations, never as violations)."""
    out = []
    for r in regs:
        if r.calculated is not None:
            out.append(f"{r.uid}:{json.dumps(r.calculated, sort_keys=True)}")
        for f in r.fields:
            if f.calculated not in (None, "INVERSE"):
                out.append(f"{r.uid}.{f.name}:{f.calculated}")
    return out


SEAL_MARK = b"SEAL"  # BaseConfigArea: "The export is finished in the PFR record by seal" (4-byte mark per seal word)


def check_seal(img: bytes, plain: bytes, seal_offset: Optional[int], seal_count: Optional[int]) -> Optional[str]:
    """Sealed image = plain image with `seal_count` marks from the seal start register on; without
    seal data in the database sealing is a no-op."""
    if seal_offset is None or not seal_count:
        return None if img == plain else "device without seal data: sealed export differs from the plain one"
    want = bytearray(plain)
    want[seal_offset:seal_offset + 4 * seal_count] = SEAL_MARK * seal_count
    if len(want) != len(plain):
        return f"seal region {seal_offset:#x}+{4 * seal_count} exceeds the area"
    if img != bytes(want):
        i = next((k for k in range(min(len(img), len(want))) if img[k] != want[k]), -1)
        return f"sealed export differs from plain+marks at byte {i:#x} (lengths {len(img)}/{len(want)})"
    return None


# ---------------------------------------------------------------------------------------------
# root of trust key hash (what the ROM compares the ROTKH words with)


def rsa_key_hash(n: int, e: int) -> bytes:
    nb = n.to_bytes((n.bit_length() + 7) // 8, "big")
    eb = e.to_bytes((e.bit_length() + 7) // 8, "big")
    return hashlib.sha256(nb + eb).digest()


def rkth_v1(keys: list[tuple[int, int]]) -> bytes:
    """Certificate block v1: SHA-256 over four 32-byte key hashes, unused slots zero."""
    tbl = b"".join(rsa_key_hash(n, e) for n, e in keys).ljust(128, b"\0")
    return hashlib.sha256(tbl).digest()


def rkth_v21(keys: list[tuple[int, int, int]]) -> bytes:
    """Certificate block v2.1: keys (bits, x, y); hash = SHA-256 / SHA-384 by curve; one key -> its hash,
    more -> hash of the concatenated key hashes."""
    bits = keys[0][0]
    n = (bits + 7) // 8
    h = {256: hashlib.sha256, 384: hashlib.sha384}[bits]
    hs = [h(x.to_bytes(n, "big") + y.to_bytes(n, "big")).digest() for _, x, y in keys]
    return hs[0] if len(hs) == 1 else h(b"".join(hs)).digest()


# ---------------------------------------------------------------------------------------------
# per-area markers


def fcb_markers(img: bytes) -> Optional[str]:
    """FlexSPI/XSPI configuration block: tag 'FCFB' in bytes 0..3, version word [31:24]='V' in bytes 4..7."""
    if img[:4] != b"FCFB":
        return f"tag {img[:4]!r}"
    if len(img) < 8 or img[7:8] != b"V":
        return f"version word {img[4:8][::-1].hex()} does not start with 'V'"
    return None


def bca_markers(img: bytes) -> Optional[str]:
    return None if img[:4] == b"kcfg" else f"tag {img[:4]!r}"


XMCD_TAG = 0xC


def xmcd_header(img: bytes) -> dict:
    w = int.from_bytes(img[:4], "little")
    return {"size": w & 0xFFF, "block_type": (w >> 12) & 0xF, "instance": (w >> 16) & 0xF,
            "interface": (w >> 20) & 0xF, "version": (w >> 24) & 0xF, "tag": (w >> 28) & 0xF}


def xmcd_markers(img: bytes) -> Optional[str]:
    h = xmcd_header(img)
    if h["tag"] != XMCD_TAG:
        return f"header tag {h['tag']:#x}"
    if h["version"] != 0:
        return f"header version {h['version']}"
    if h["size"] != len(img):
        return f"configurationBlockSize {h['size']} but the block has {len(img)} bytes"
    return None


def xmcd_crc(img: bytes) -> bytes:
    """CRC the ROM compares with the XMCD CRC fuse: CRC-32/MPEG-2 over the whole block, big endian."""
    return _crc.crc32_mpeg2(img).to_bytes(4, "big")


def memcfg_word_count(rule: str, words: list[int], first: Optional[SpecReg], total: int) -> Optional[int]:
    """Number of option words the ROM consumes, by the database rule name."""
    if rule == "All":
        return total
    if first is None:
        return None
    if rule == "OptionSize":
        f = first.field("OptionSize")
        return None if f is None else 1 + ((words[0] >> f.off) & ((1 << f.width) - 1))
    if rule == "AcTimingMode":
        f = first.field("AcTimingMode")
        if f is None or "UserDefined" not in f.enums:
            return None
        return total if ((words[0] >> f.off) & ((1 << f.width) - 1)) == f.enums["UserDefined"] else 1
    return None


# ---------------------------------------------------------------------------------------------
# value alphabet


def alphabet(width: int, thin: bool = False) -> list[int]:
    """{0, 1, max, max-1, 0x55.., 0xAA..} cut to the width, duplicates removed, order kept;
    thin (quick tier): {0, 1, max, 0x55..}."""
    m = (1 << width) - 1
    p5 = int("55" * ((width + 7) // 8), 16) & m
    pa = int("AA" * ((width + 7) // 8), 16) & m
    out: list[int] = []
    for v in ((0, 1, m, p5) if thin else (0, 1, m, m - 1, p5, pa)):
        if 0 <= v <= m and v not in out:
            out.append(v)
    return out


def zero_byte_patterns(width: int) -> list[int]:
    """Two values for a register wider than 8 bits, written as bytes in reading order (most significant first):
    01 02 .. n-1 00 (LAST byte zero) and 00 01 .. n-1 (FIRST byte zero); all other bytes non-zero and pairwise
    different (n <= 255).  Leading / trailing zero bytes are where width-from-magnitude arithmetic goes wrong."""
    n = width // 8
    if width % 8 or n < 2:
        return []
    body = bytes((i % 255) + 1 for i in range(n - 1))
    return [int.from_bytes(body + b"\0", "big"), int.from_bytes(b"\0" + body, "big")]


def structure_key(r: SpecReg) -> str:
    """Everything about a register except where it is and what it is called."""
    return json.dumps([r.width, r.reset, r.reserved, r.access, r.calculated is not None,
                       [[f.name, f.width, f.reset, f.access, sorted(f.enums.items()), f.shift, f.calculated] for f in r.fields]],
                      sort_keys=True, default=str)


def selftest() -> None:
    f = SpecField({"width": 16, "calculated": "INVERSE", "name": "INV"}, 16)
    assert inverse_expected(0x1234, f) == 0xEDCB
    f8 = SpecField({"width": 8, "calculated": "INVERSE", "name": "INV"}, 8)
    assert inverse_expected(0xAB05, f8) == 0xFA
    assert alphabet(1) == [0, 1] and alphabet(3) == [0, 1, 7, 6, 5, 2] and alphabet(3, thin=True) == [0, 1, 7, 5]
    assert zero_byte_patterns(32) == [0x01020300, 0x00010203] and zero_byte_patterns(8) == [] and len(zero_byte_patterns(1152)) == 2
    assert xmcd_crc(b"123456789") == bytes.fromhex("0376E6E7")
    assert xmcd_header((0xC000000C).to_bytes(4, "little")) == {"size": 12, "block_type": 0, "instance": 0, "interface": 0,
                                                              "version": 0, "tag": 0xC}
    r = SpecReg({"id": "r", "name": "R", "offset_int": "0x4", "reset_value_int": "0xc0000700",
                 "bitfields": [{"width": 8, "name": "a"}, {"width": 4, "name": "b", "reset_value_int": "0x7"}, {"width": 16},
                               {"width": 4, "name": "t", "reset_value_int": "0xc"}]})
    assert r.reset == 0xC0000700 and not r.ambiguous_reset and r.fields[3].off == 28
    m = AreaModel([r], size=8, prefill=0xFF)
    img = m.reset_image()
    assert img == b"\xff\xff\xff\xff\x00\x07\x00\xc0"
    assert m.with_field(img, r, r.fields[0], 0x55)[4] == 0x55
    r2 = SpecReg({"id": "q", "name": "Q", "offset_int": "0x6", "reg_width": 16})
    assert AreaModel([r, r2]).overlapping == {"R", "Q"} and not AreaModel([r]).overlapping
    assert check_seal(b"abcdSEALSEAL", b"abcd________", 4, 2) is None
    assert rkth_v1([(0xC1, 0x10001)]) == hashlib.sha256(hashlib.sha256(b"\xc1\x01\x00\x01").digest().ljust(128, b"\0")).digest()


if __name__ == "__main__":
    selftest()
    print("selftest ok")
