"""Minimal strict DER reader/writer (X.690) — just enough for SubjectPublicKeyInfo, PKCS#1
RSAPublicKey / RSAPrivateKey, unencrypted PKCS#8, SEC1 ECPrivateKey, ECDSA-Sig-Value and the
tbsCertificate / signature split of an X.509 certificate.  Written from X.690 / RFC 5280 /
RFC 5480 / RFC 5915 / RFC 5958 / RFC 8017; no spsdk, no `cryptography`.

Strictness (DER, not BER): definite lengths only, shortest length form, shortest two's complement
INTEGER content, no trailing bytes.  Every deviation raises DerError.
"""
from __future__ import annotations

import base64
from typing import Optional

SEQUENCE = 0x30
INTEGER = 0x02
BIT_STRING = 0x03
OCTET_STRING = 0x04
NULL = 0x05
OID = 0x06

OID_RSA = "1.2.840.113549.1.1.1"
OID_EC_PUBKEY = "1.2.840.10045.2.1"
OID_CURVES = {
    "1.2.840.10045.3.1.7": "secp256r1",
    "1.3.132.0.34": "secp384r1",
    "1.3.132.0.35": "secp521r1",
}
OID_SIG_ALGS = {
    "1.2.840.113549.1.1.5": ("rsa", "sha1"),
    "1.2.840.113549.1.1.11": ("rsa", "sha256"),
    "1.2.840.113549.1.1.12": ("rsa", "sha384"),
    "1.2.840.113549.1.1.13": ("rsa", "sha512"),
    "1.2.840.10045.4.1": ("ecdsa", "sha1"),
    "1.2.840.10045.4.3.2": ("ecdsa", "sha256"),
    "1.2.840.10045.4.3.3": ("ecdsa", "sha384"),
    "1.2.840.10045.4.3.4": ("ecdsa", "sha512"),
}


class DerError(ValueError):
    """Input is not the strict DER encoding of the expected structure."""


# ---------------------------------------------------------------------------------------------
# reader


def read_tlv(data: bytes, off: int = 0) -> tuple[int, int, int]:
    """Return (tag, content_start, content_end) of the TLV starting at `off`."""
    if off + 2 > len(data):
        raise DerError("truncated header")
    tag = data[off]
    if tag & 0x1F == 0x1F:
        raise DerError("high tag numbers are not supported")
    b = data[off + 1]
    pos = off + 2
    if b < 0x80:
        ln = b
    else:
        nb = b & 0x7F
        if nb == 0:
            raise DerError("indefinite length")
        if nb > 4:
            raise DerError("length of length > 4")
        if pos + nb > len(data):
            raise DerError("truncated length")
        if data[pos] == 0:
            raise DerError("non-minimal length (leading zero)")
        ln = int.from_bytes(data[pos:pos + nb], "big")
        if ln < 0x80:
            raise DerError("non-minimal length (long form for < 128)")
        pos += nb
    if pos + ln > len(data):
        raise DerError("content exceeds the data")
    return tag, pos, pos + ln


def single(data: bytes, tag: Optional[int] = None) -> bytes:
    """Content of the one TLV that makes up all of `data` (no trailing bytes)."""
    t, a, b = read_tlv(data, 0)
    if b != len(data):
        raise DerError("trailing bytes")
    if tag is not None and t != tag:
        raise DerError(f"tag {t:#x}, expected {tag:#x}")
    return data[a:b]


def items(content: bytes) -> list[tuple[int, bytes, bytes]]:
    """Split the content of a constructed value into [(tag, content, whole_tlv), ...]."""
    out = []
    off = 0
    while off < len(content):
        t, a, b = read_tlv(content, off)
        out.append((t, content[a:b], content[off:b]))
        off = b
    return out


def parse_int(content: bytes) -> int:
    """INTEGER content -> signed value (strict: shortest form)."""
    if len(content) == 0:
        raise DerError("empty INTEGER")
    if len(content) > 1:
        if content[0] == 0x00 and content[1] < 0x80:
            raise DerError("non-minimal INTEGER (redundant 00)")
        if content[0] == 0xFF and content[1] >= 0x80:
            raise DerError("non-minimal INTEGER (redundant FF)")
    return int.from_bytes(content, "big", signed=True)


def parse_oid(content: bytes) -> str:
    if not content or content[-1] & 0x80:
        raise DerError("bad OID")
    arcs = []
    v = 0
    start = True
    for c in content:
        if start and c == 0x80:
            raise DerError("non-minimal OID arc")
        start = False
        v = (v << 7) | (c & 0x7F)
        if not c & 0x80:
            arcs.append(v)
            v = 0
            start = True
    first = arcs[0]
    if first < 40:
        head = [0, first]
    elif first < 80:
        head = [1, first - 40]
    else:
        head = [2, first - 80]
    return ".".join(str(x) for x in head + arcs[1:])


def parse_bitstring(content: bytes) -> bytes:
    """BIT STRING content with zero unused bits -> bytes."""
    if not content or content[0] != 0:
        raise DerError("BIT STRING with unused bits")
    return content[1:]


def expect(seq: list, idx: int, tag: int) -> bytes:
    if idx >= len(seq) or seq[idx][0] != tag:
        raise DerError(f"element {idx}: expected tag {tag:#x}")
    return seq[idx][1]


# ---------------------------------------------------------------------------------------------
# writer (used to *construct* oracle inputs: ECDSA-Sig-Value for chosen r, s)


def enc_len(n: int) -> bytes:
    if n < 0x80:
        return bytes([n])
    b = n.to_bytes((n.bit_length() + 7) // 8, "big")
    return bytes([0x80 | len(b)]) + b


def enc_tlv(tag: int, content: bytes) -> bytes:
    return bytes([tag]) + enc_len(len(content)) + content


def enc_uint(v: int) -> bytes:
    """INTEGER TLV of a non-negative value."""
    if v < 0:
        raise ValueError("negative")
    b = v.to_bytes(max(1, (v.bit_length() + 7) // 8), "big")
    if b[0] & 0x80:
        b = b"\x00" + b
    return enc_tlv(INTEGER, b)


def encode_ecdsa_sig(r: int, s: int) -> bytes:
    """ECDSA-Sig-Value ::= SEQUENCE { r INTEGER, s INTEGER } (RFC 3279 2.2.3)."""
    return enc_tlv(SEQUENCE, enc_uint(r) + enc_uint(s))


def decode_ecdsa_sig(data: bytes) -> tuple[int, int]:
    seq = items(single(data, SEQUENCE))
    if len(seq) != 2:
        raise DerError("ECDSA-Sig-Value needs exactly two elements")
    return parse_int(expect(seq, 0, INTEGER)), parse_int(expect(seq, 1, INTEGER))


# ---------------------------------------------------------------------------------------------
# PEM (RFC 7468)


def pem_decode(text: bytes) -> tuple[str, bytes]:
    """Return (label, DER) of the first PEM block."""
    lines = [ln.strip() for ln in text.decode("ascii").strip().splitlines()]
    if not lines or not lines[0].startswith("-----BEGIN ") or not lines[0].endswith("-----"):
        raise DerError("no PEM header")
    label = lines[0][len("-----BEGIN "):-5]
    end = f"-----END {label}-----"
    if end not in lines:
        raise DerError("no PEM footer")
    body = "".join(lines[1:lines.index(end)])
    return label, base64.b64decode(body, validate=True)


# ---------------------------------------------------------------------------------------------
# keys


def parse_rsa_public_pkcs1(der: bytes) -> dict:
    """RSAPublicKey ::= SEQUENCE { modulus INTEGER, publicExponent INTEGER } (RFC 8017 A.1.1)."""
    seq = items(single(der, SEQUENCE))
    if len(seq) != 2:
        raise DerError("RSAPublicKey needs two elements")
    return {"type": "rsa", "n": parse_int(expect(seq, 0, INTEGER)), "e": parse_int(expect(seq, 1, INTEGER))}


def _alg_id(content: bytes) -> tuple[str, Optional[tuple[int, bytes]]]:
    seq = items(content)
    if not 1 <= len(seq) <= 2:
        raise DerError("AlgorithmIdentifier")
    oid = parse_oid(expect(seq, 0, OID))
    params = (seq[1][0], seq[1][1]) if len(seq) == 2 else None
    return oid, params


def _ec_point(point: bytes, curve: str) -> tuple[int, int]:
    size = {"secp256r1": 32, "secp384r1": 48, "secp521r1": 66}[curve]
    if len(point) != 1 + 2 * size or point[0] != 0x04:
        raise DerError("not an uncompressed EC point of the curve's size")
    return int.from_bytes(point[1:1 + size], "big"), int.from_bytes(point[1 + size:], "big")


def parse_spki(der: bytes) -> dict:
    """SubjectPublicKeyInfo (RFC 5280 4.1 / RFC 5480 / RFC 3279) -> numbers."""
    seq = items(single(der, SEQUENCE))
    if len(seq) != 2:
        raise DerError("SubjectPublicKeyInfo needs two elements")
    oid, params = _alg_id(expect(seq, 0, SEQUENCE))
    key = parse_bitstring(expect(seq, 1, BIT_STRING))
    if oid == OID_RSA:
        if params is None or params[0] != NULL or params[1] != b"":
            raise DerError("rsaEncryption parameters must be NULL")
        return parse_rsa_public_pkcs1(key)
    if oid == OID_EC_PUBKEY:
        if params is None or params[0] != OID:
            raise DerError("id-ecPublicKey needs a namedCurve")
        curve = OID_CURVES.get(parse_oid(params[1]))
        if curve is None:
            raise DerError("unknown curve")
        x, y = _ec_point(key, curve)
        return {"type": "ecc", "curve": curve, "x": x, "y": y}
    raise DerError(f"unknown key algorithm {oid}")


def parse_pkcs8(der: bytes) -> dict:
    """Unencrypted PKCS#8 OneAsymmetricKey (RFC 5958) holding an RSA (RFC 8017 A.1.2) or EC (RFC 5915) key."""
    seq = items(single(der, SEQUENCE))
    if len(seq) < 3:
        raise DerError("PrivateKeyInfo needs version, algorithm, key")
    if parse_int(expect(seq, 0, INTEGER)) not in (0, 1):
        raise DerError("PrivateKeyInfo version")
    oid, params = _alg_id(expect(seq, 1, SEQUENCE))
    inner = expect(seq, 2, OCTET_STRING)
    if oid == OID_RSA:
        k = items(single(inner, SEQUENCE))
        if len(k) < 9 or parse_int(expect(k, 0, INTEGER)) != 0:
            raise DerError("RSAPrivateKey")
        n, e, d, p, q, dp, dq, qi = (parse_int(expect(k, i, INTEGER)) for i in range(1, 9))
        return {"type": "rsa", "n": n, "e": e, "d": d, "p": p, "q": q, "dp": dp, "dq": dq, "qi": qi}
    if oid == OID_EC_PUBKEY:
        if params is None or params[0] != OID:
            raise DerError("id-ecPublicKey needs a namedCurve")
        curve = OID_CURVES.get(parse_oid(params[1]))
        if curve is None:
            raise DerError("unknown curve")
        k = items(single(inner, SEQUENCE))
        if len(k) < 2 or parse_int(expect(k, 0, INTEGER)) != 1:
            raise DerError("ECPrivateKey")
        out = {"type": "ecc", "curve": curve, "d": int.from_bytes(expect(k, 1, OCTET_STRING), "big"),
               "d_len": len(k[1][1])}
        for t, content, _ in k[2:]:
            if t == 0xA1:  # [1] publicKey BIT STRING
                x, y = _ec_point(parse_bitstring(single(content, BIT_STRING)), curve)
                out["x"], out["y"] = x, y
        return out
    raise DerError(f"unknown key algorithm {oid}")


def pkcs8_is_encrypted(der: bytes) -> bool:
    """EncryptedPrivateKeyInfo ::= SEQUENCE { AlgorithmIdentifier, OCTET STRING } (RFC 5958 3)."""
    seq = items(single(der, SEQUENCE))
    return len(seq) == 2 and seq[0][0] == SEQUENCE and seq[1][0] == OCTET_STRING


# ---------------------------------------------------------------------------------------------
# X.509


def parse_certificate(der: bytes) -> dict:
    """Certificate ::= SEQUENCE { tbsCertificate, signatureAlgorithm, signatureValue } (RFC 5280 4.1).

    Returns tbs (the complete TLV, the bytes that are signed), sig_alg (key type, hash), signature
    bytes and the subject public key numbers."""
    seq = items(single(der, SEQUENCE))
    if len(seq) != 3 or seq[0][0] != SEQUENCE:
        raise DerError("Certificate needs three elements")
    tbs_tlv = seq[0][2]
    oid, _ = _alg_id(expect(seq, 1, SEQUENCE))
    if oid not in OID_SIG_ALGS:
        raise DerError(f"unknown signature algorithm {oid}")
    signature = parse_bitstring(expect(seq, 2, BIT_STRING))
    tbs = items(seq[0][1])
    i = 0
    if tbs and tbs[0][0] == 0xA0:  # [0] EXPLICIT version
        i = 1
    # serialNumber, signature, issuer, validity, subject, subjectPublicKeyInfo
    serial = parse_int(expect(tbs, i, INTEGER))
    inner_oid, _ = _alg_id(expect(tbs, i + 1, SEQUENCE))
    if inner_oid != oid:
        raise DerError("signature algorithm mismatch between tbs and outer")
    spki_tlv = tbs[i + 5][2]
    return {"tbs": tbs_tlv, "sig_alg": OID_SIG_ALGS[oid], "signature": signature, "serial": serial,
            "spki": parse_spki(spki_tlv), "issuer": tbs[i + 2][2], "subject": tbs[i + 4][2]}


def selftest() -> None:
    # ECDSA-Sig-Value round trip + strictness
    for r, s in ((1, 1), (0x7F, 0x80), (0xFF, 0x100), (2**255, 2**256 - 1), (2**520, 2**521 - 1)):
        enc = encode_ecdsa_sig(r, s)
        assert decode_ecdsa_sig(enc) == (r, s)
    assert encode_ecdsa_sig(1, 1) == bytes.fromhex("3006020101020101")
    assert encode_ecdsa_sig(0x80, 0x7F) == bytes.fromhex("300702020080" "02017f")
    assert len(encode_ecdsa_sig(2**519, 2**519)) == 3 + 2 * (2 + 66)  # long-form SEQUENCE length
    for bad in ("3006020101020101" "00",  # trailing byte
                "30070201010202" "0001",  # redundant 00
                "308106020101020101",  # long form for short length
                "3006020101020201",  # content exceeds
                "3003020101",  # one element
                "30060201010201"):  # truncated
        try:
            decode_ecdsa_sig(bytes.fromhex(bad))
        except DerError:
            continue
        raise AssertionError(f"accepted non-DER {bad}")
    assert decode_ecdsa_sig(bytes.fromhex("30060201ff020101")) == (-1, 1)  # negative is DER, just not a valid r
    assert parse_oid(bytes.fromhex("2a8648ce3d030107")) == "1.2.840.10045.3.1.7"
    assert parse_oid(bytes.fromhex("2b81040023")) == "1.3.132.0.35"
    assert parse_oid(bytes.fromhex("2a864886f70d010101")) == OID_RSA


if __name__ == "__main__":
    selftest()
    print("der selftest ok")
