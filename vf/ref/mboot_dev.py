"""Reference model of an MCU bootloader (mboot) device, written from the protocol definition
(framing 0x5A/type/len/crc16-xmodem, ACK/NAK/ABORT, ping; HID report id/len; command packets
`<4B tag flags rsvd nparams` + u32 params; generic / get-property / read-memory / read-once
responses; data phases with a final generic response).  No spsdk imports.

The device consumes the host's bytes with its *own* deframer (so a wrong CRC, length, ordering
or an oversized packet from the host is a model error, collected in `errors`) and produces a
device->host byte stream (serial) or a list of reports (HID).
"""
from __future__ import annotations

import struct
from typing import Optional

SUCCESS, FAIL, INVALID_ARGUMENT = 0, 1, 4
UNKNOWN_COMMAND, UNKNOWN_PROPERTY, MEM_RANGE_INVALID = 10000, 10300, 10200
ABORT_DATA_PHASE = 10002

CMD_FLASH_ERASE_ALL, CMD_FLASH_ERASE_REGION, CMD_READ_MEMORY, CMD_WRITE_MEMORY, CMD_FILL_MEMORY = 1, 2, 3, 4, 5
CMD_GET_PROPERTY, CMD_RECEIVE_SB, CMD_EXECUTE, CMD_CALL, CMD_RESET, CMD_SET_PROPERTY = 7, 8, 9, 10, 11, 12
CMD_PROGRAM_ONCE, CMD_READ_ONCE = 0x0E, 0x0F
CMD_KEY_PROV, RSP_KEY_PROV = 0x15, 0xB5
RSP_GENERIC, RSP_READ_MEMORY, RSP_GET_PROPERTY, RSP_READ_ONCE = 0xA0, 0xA3, 0xA7, 0xAF

MEM_SIZE = 0x2000  # 8 KiB of model memory at address 0


def crc16_xmodem(data: bytes) -> int:
    crc = 0
    for b in data:
        crc ^= b << 8
        for _ in range(8):
            crc = ((crc << 1) ^ 0x1021) & 0xFFFF if crc & 0x8000 else (crc << 1) & 0xFFFF
    return crc


def packet(tag: int, flags: int, params: list[int]) -> bytes:
    return struct.pack("<4B", tag, flags, 0, len(params)) + b"".join(struct.pack("<I", p & 0xFFFFFFFF) for p in params)


class Core:
    """Transport independent part: memory, properties, program-once words, command execution."""

    def __init__(self, max_packet: Optional[int] = 32, cmd_status: int = SUCCESS, final_status: int = SUCCESS):
        self.mem = bytearray((i * 3 + (i >> 8) + 1) & 0xFF for i in range(MEM_SIZE))  # position-dependent content
        self.props = {1: [0x4B030100], 4: [MEM_SIZE], 10: [1], 14: [0x20000000]}
        if max_packet is not None:
            self.props[11] = [max_packet]
        self.max_packet = max_packet if max_packet is not None else 32
        self.once: dict[int, int] = {}
        self.effects: list = []
        self.errors: list[str] = []
        self.cmd_status = cmd_status      # status answered to a command instead of executing it (script)
        self.final_status = final_status  # status of the final response of a data phase (script)
        self.sb_sink = b""
        self.image_sink = b""             # raw data packets outside any command (load-image mode of some ROMs)
        self.key_store = bytes((i * 11 + 7) & 0xFF for i in range(48))
        self.user_keys: dict[int, bytes] = {}
        self.din: Optional[dict] = None   # running host->device data phase
        self.dout: Optional[dict] = None  # running device->host data phase

    def generic(self, status: int, tag: int) -> bytes:
        return packet(RSP_GENERIC, 0, [status, tag])

    def command(self, pkt: bytes) -> list:
        """Returns a list of items to send: ("cmd", bytes) | ("data", bytes)."""
        if self.din is not None:
            self.errors.append("command received while a host->device data phase is running")
            self.din = None
        if len(pkt) < 4:
            self.errors.append("short command packet")
            return []
        tag, flags, rsvd, n = struct.unpack_from("<4B", pkt)
        if len(pkt) != 4 + 4 * n:
            # flash_program_once style packets carry raw data after the params: allow 4-byte multiples only
            if (len(pkt) - 4) % 4 or len(pkt) < 4 + 4 * n:
                self.errors.append(f"command packet length {len(pkt)} does not match param count {n}")
                return [("cmd", self.generic(INVALID_ARGUMENT, tag))]
        words = [struct.unpack_from("<I", pkt, 4 + 4 * i)[0] for i in range((len(pkt) - 4) // 4)]
        p = words
        st = self.cmd_status
        if tag == CMD_GET_PROPERTY:
            if st != SUCCESS:
                return [("cmd", packet(RSP_GET_PROPERTY, 0, [st]))]
            vals = self.props.get(p[0])
            if vals is None:
                return [("cmd", packet(RSP_GET_PROPERTY, 0, [UNKNOWN_PROPERTY]))]
            return [("cmd", packet(RSP_GET_PROPERTY, 0, [SUCCESS] + vals))]
        if tag == CMD_SET_PROPERTY:
            if st == SUCCESS:
                if p[0] not in (10, 22):
                    st = UNKNOWN_PROPERTY
                else:
                    self.props[p[0]] = [p[1]]
                    self.effects.append(("set_property", p[0], p[1]))
            return [("cmd", self.generic(st, tag))]
        if tag == CMD_READ_MEMORY:
            addr, ln = p[0], p[1]
            if st == SUCCESS and (addr + ln > MEM_SIZE):
                st = MEM_RANGE_INVALID
            if st != SUCCESS:
                return [("cmd", packet(RSP_READ_MEMORY, 0, [st, 0]))]
            out = [("cmd", packet(RSP_READ_MEMORY, 1, [SUCCESS, ln]))]
            data = bytes(self.mem[addr:addr + ln])
            for i in range(0, ln, self.max_packet):
                out.append(("data", data[i:i + self.max_packet]))
            out.append(("cmd", self.generic(self.final_status, tag)))
            self.effects.append(("read", addr, ln))
            return out
        if tag in (CMD_WRITE_MEMORY, CMD_RECEIVE_SB):
            if tag == CMD_WRITE_MEMORY:
                addr, ln = p[0], p[1]
                if st == SUCCESS and addr + ln > MEM_SIZE:
                    st = MEM_RANGE_INVALID
            else:
                addr, ln = None, p[0]
            if not flags & 1:
                self.errors.append("data-phase command without the data-phase flag")
            if st != SUCCESS:
                return [("cmd", self.generic(st, tag))]
            if ln == 0:
                self.effects.append(("write", addr, b"") if tag == CMD_WRITE_MEMORY else ("sb", b""))
                return [("cmd", self.generic(SUCCESS, tag)), ("cmd", self.generic(self.final_status, tag))]
            self.din = {"tag": tag, "addr": addr, "len": ln, "buf": b""}
            return [("cmd", self.generic(SUCCESS, tag))]
        if tag == CMD_FILL_MEMORY:
            addr, ln, pat = p[0], p[1], p[2]
            if st == SUCCESS and (addr + ln > MEM_SIZE or addr % 4 or ln % 4):
                st = MEM_RANGE_INVALID
            if st == SUCCESS:
                self.mem[addr:addr + ln] = (struct.pack("<I", pat) * (ln // 4 + 1))[:ln]
                self.effects.append(("fill", addr, ln, pat))
            return [("cmd", self.generic(st, tag))]
        if tag == CMD_FLASH_ERASE_REGION:
            addr, ln = p[0], p[1]
            if st == SUCCESS and addr + ln > MEM_SIZE:
                st = MEM_RANGE_INVALID
            if st == SUCCESS:
                self.mem[addr:addr + ln] = b"\xff" * ln
                self.effects.append(("erase", addr, ln))
            return [("cmd", self.generic(st, tag))]
        if tag == CMD_FLASH_ERASE_ALL:
            if st == SUCCESS:
                self.mem[:] = b"\xff" * MEM_SIZE
                self.effects.append(("erase_all", p[0] if p else 0))
            return [("cmd", self.generic(st, tag))]
        if tag == CMD_PROGRAM_ONCE:
            idx, cnt = p[0], p[1]
            if st == SUCCESS and (cnt not in (4, 8) or len(p) < 2 + cnt // 4):
                st = INVALID_ARGUMENT
            if st == SUCCESS:
                for j in range(cnt // 4):
                    self.once[idx + j] = self.once.get(idx + j, 0) | p[2 + j]
                self.effects.append(("program_once", idx, tuple(p[2:2 + cnt // 4])))
            return [("cmd", self.generic(st, tag))]
        if tag == CMD_READ_ONCE:
            idx, cnt = p[0], p[1]
            if st != SUCCESS:
                return [("cmd", packet(RSP_READ_ONCE, 0, [st, 0]))]
            return [("cmd", packet(RSP_READ_ONCE, 0, [SUCCESS, cnt] + [self.once.get(idx + j, 0) for j in range(cnt // 4)]))]
        if tag == CMD_KEY_PROV:
            op = p[0] if p else -1
            if op in (1, 5):  # set user key / write key store: host->device data phase
                ln = p[2] if len(p) > 2 else 0
                if not flags & 1:
                    self.errors.append("data-phase command without the data-phase flag")
                if st != SUCCESS or ln == 0:
                    return [("cmd", self.generic(st or INVALID_ARGUMENT, tag))]
                self.din = {"tag": tag, "addr": (op, p[1]), "len": ln, "buf": b""}
                return [("cmd", self.generic(SUCCESS, tag))]
            if op == 6:  # read key store: device->host data phase
                if st != SUCCESS:
                    return [("cmd", packet(RSP_KEY_PROV, 0, [st, 0]))]
                out = [("cmd", packet(RSP_KEY_PROV, 1, [SUCCESS, len(self.key_store)]))]
                for i in range(0, len(self.key_store), self.max_packet):
                    out.append(("data", self.key_store[i:i + self.max_packet]))
                out.append(("cmd", self.generic(self.final_status, tag)))
                return out
            if st == SUCCESS:
                self.effects.append(("key_prov", op, tuple(p[1:])))
            return [("cmd", self.generic(st, tag))]
        if tag in (CMD_EXECUTE, CMD_CALL, CMD_RESET):
            if st == SUCCESS:
                self.effects.append(("control", tag, tuple(p)))
            return [("cmd", self.generic(st, tag))]
        return [("cmd", self.generic(UNKNOWN_COMMAND, tag))]

    def data_in(self, chunk: bytes) -> list:
        """One host->device data packet. Returns items to send (the final response when complete)."""
        if self.din is None:
            # no command is running: the ROM's load-image mode takes raw data packets
            if len(chunk) > self.max_packet:
                self.errors.append(f"data packet of {len(chunk)} bytes exceeds the negotiated size {self.max_packet}")
            self.image_sink += chunk
            return []
        if len(chunk) > self.max_packet:
            self.errors.append(f"data packet of {len(chunk)} bytes exceeds the negotiated size {self.max_packet}")
        if len(chunk) == 0:
            self.errors.append("empty data packet")
        d = self.din
        d["buf"] += chunk
        if len(d["buf"]) > d["len"]:
            self.errors.append("more data than announced")
        if len(d["buf"]) >= d["len"]:
            self.din = None
            buf = d["buf"][: d["len"]]
            if self.final_status == SUCCESS:
                if d["tag"] == CMD_KEY_PROV:
                    if d["addr"][0] == 5:
                        self.key_store = buf
                        self.effects.append(("write_key_store", buf))
                    else:
                        self.user_keys[d["addr"][1]] = buf
                        self.effects.append(("set_user_key", d["addr"][1], buf))
                elif d["tag"] == CMD_WRITE_MEMORY:
                    self.mem[d["addr"]:d["addr"] + d["len"]] = buf
                    self.effects.append(("write", d["addr"], buf))
                else:
                    self.sb_sink += buf
                    self.effects.append(("sb", buf))
            return [("cmd", self.generic(self.final_status, d["tag"]))]
        return []


class SerialLink:
    """UART framing. `host_write(bytes)` feeds the deframer; the device->host stream is `out`.

    A frame the device sends must be ACKed by the host before the device sends the next one."""

    def __init__(self, core: Core):
        self.core = core
        self.out = bytearray()
        self.rx = bytearray()
        self.queue: list[bytes] = []
        self.await_ack = False
        self.frames_sent: list[tuple] = []  # (offset in stream, kind, length) for fault targeting
        self.host_frames = 0               # command/data frames received from the host so far
        self.reject: set[int] = set()      # indices of host frames the device answers with NAK and discards (line noise on
        #                                    the way TO the device: what a NAK means in the protocol)

    def frame(self, ftype: int, payload: bytes) -> bytes:
        hdr = struct.pack("<BBH", 0x5A, ftype, len(payload))
        crc = crc16_xmodem(hdr + payload)
        return hdr + struct.pack("<H", crc) + payload

    def _emit(self, raw: bytes, kind: str) -> None:
        self.frames_sent.append((len(self.out), kind, len(raw)))
        self.out += raw

    def _send_next(self) -> None:
        if self.queue and not self.await_ack:
            kind, payload = self.queue.pop(0)
            self._emit(self.frame(0xA4 if kind == "cmd" else 0xA5, payload), kind)
            self.await_ack = True

    def host_write(self, data: bytes) -> None:
        self.rx += data
        while True:
            if len(self.rx) < 2:
                if self.rx and self.rx[0] != 0x5A:
                    self.core.errors.append(f"host sent byte {self.rx[0]:#x} outside a frame")
                    del self.rx[0]
                    continue
                return
            if self.rx[0] != 0x5A:
                self.core.errors.append(f"host sent byte {self.rx[0]:#x} outside a frame")
                del self.rx[0]
                continue
            t = self.rx[1]
            if t == 0xA6:  # ping
                del self.rx[:2]
                body = struct.pack("<BB", 0x5A, 0xA7) + struct.pack("<IH", 0x50010300, 0)
                self._emit(body + struct.pack("<H", crc16_xmodem(body)), "pingr")
                continue
            if t == 0xA1:  # ACK
                del self.rx[:2]
                if not self.await_ack:
                    self.core.errors.append("unexpected ACK from host")
                self.await_ack = False
                self._send_next()
                continue
            if t in (0xA2, 0xA3):
                del self.rx[:2]
                self.core.errors.append("host sent NAK/ABORT")
                continue
            if t in (0xA4, 0xA5):
                if len(self.rx) < 6:
                    return
                ln, crc = struct.unpack_from("<HH", self.rx, 2)
                if len(self.rx) < 6 + ln:
                    return
                payload = bytes(self.rx[6:6 + ln])
                del self.rx[:6 + ln]
                if crc16_xmodem(struct.pack("<BBH", 0x5A, t, ln) + payload) != crc:
                    self.core.errors.append("frame with wrong CRC from host")
                    self._emit(b"\x5a\xa2", "nak")
                    continue
                idx = self.host_frames
                self.host_frames += 1
                if idx in self.reject:
                    self._emit(b"\x5a\xa2", "nak")
                    continue
                if self.await_ack:
                    self.core.errors.append("host sent a frame while the device waits for an ACK")
                    if t == 0xA4:
                        # a new command ends whatever the device was still trying to deliver (its ACK wait times out):
                        # pending frames are dropped, so that a session can recover after a disturbed exchange
                        self.queue.clear()
                        self.await_ack = False
                        self.core.dout = None
                self._emit(b"\x5a\xa1", "ack")
                items = self.core.command(payload) if t == 0xA4 else self.core.data_in(payload)
                self.queue += items
                self._send_next()
                continue
            self.core.errors.append(f"unknown frame type {t:#x} from host")
            del self.rx[:2]


class HidLink:
    """USB-HID reports: `<2BH id 0 len` + payload. Device->host reports are queued in `out`."""

    def __init__(self, core: Core):
        self.core = core
        self.out: list[bytes] = []

    def report(self, rid: int, payload: bytes) -> bytes:
        return struct.pack("<2BH", rid, 0, len(payload)) + payload

    def host_write(self, data: bytes) -> int:
        if len(data) < 4:
            self.core.errors.append("short HID report")
            return len(data)
        rid, _, ln = struct.unpack_from("<2BH", data)
        payload = data[4:4 + ln]
        if len(payload) != ln:
            self.core.errors.append("HID report shorter than its length field")
        if rid == 1:
            items = self.core.command(payload)
        elif rid == 2:
            items = self.core.data_in(payload)
        else:
            self.core.errors.append(f"unknown report id {rid}")
            items = []
        for kind, p in items:
            self.out.append(self.report(3 if kind == "cmd" else 4, p))
        return len(data)
