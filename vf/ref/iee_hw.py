"""Model of the IEE (Inline Encryption Engine) as seen by a read through the engine, per 16-byte block.

Written from the iee_keyblob_t layout quoted in the SPSDK module header, IEEE 1619 (XTS-AES) and
SP 800-38A (CTR); no spsdk import.  AES single-block calls come from `cryptography`; the XTS tweak
chain (GF(2^128) doubling), sector/block-index arithmetic, counter composition, key-blob parsing
and the CRC are written here.

  iee_keyblob_t (96 bytes, little-endian words):
      header 'IEEB'=0x49454542 | version 0x56010000 | attribute {lock, keySize, aesMode, 0} |
      pageOffset | key1[32] | key2[32] | startAddr | endAddr | reserved | crc32 (MPEG-2, over bytes 0..91)
  The four records (384 bytes) are stored AES-XTS encrypted with IBKEK1|IBKEK2, data unit number =
  keyblob address >> 12.
  Key words are loaded as 32-bit little-endian registers and form the AES key most significant
  byte first, i.e. every 4-byte group of the stored key is byte-reversed.
  XTS: data unit 4 KiB, data unit number = system address >> 12 (128-bit little-endian tweak),
       block index inside the unit = (address & 0xFFF) >> 4.
  CTR with address binding: counter block = initial counter with its low 32 bits (big-endian)
       increased by address >> 4.  A carry out of the low 32 bits is *not modelled*: `read`
       reports such blocks as ambiguous instead of guessing.
  Region of a context: startAddr <= address < endAddr (page offset 0 assumed).
"""
from __future__ import annotations

from dataclasses import dataclass
from typing import Optional, Sequence

from cryptography.hazmat.primitives.ciphers import Cipher, algorithms, modes

HEADER_TAG = 0x49454542
VERSION = 0x56010000
RECORD = 96
TABLE = 384
UNIT = 0x1000

KEYSIZE_128_256 = 0x5A  # CTR-128 / XTS-256
KEYSIZE_256_512 = 0xA5  # CTR-256 / XTS-512
MODE_BYPASS = 0x6A
MODE_XTS = 0xA6
MODE_CTR_ADDR = 0x66
MODE_CTR_NOADDR = 0xAA
MODE_CTR_KEYSTREAM = 0x19
LOCK, UNLOCK = 0x95, 0x59


class _Aes:
    def __init__(self, key: bytes):
        c = Cipher(algorithms.AES(bytes(key)), modes.ECB())  # nosec - block primitive
        self._e = c.encryptor()
        self._d = c.decryptor()

    def enc(self, b: bytes) -> bytes:
        return self._e.update(b)

    def dec(self, b: bytes) -> bytes:
        return self._d.update(b)


def crc32_mpeg2(data: bytes) -> int:
    crc = 0xFFFFFFFF
    for b in data:
        crc ^= b << 24
        for _ in range(8):
            crc = ((crc << 1) ^ 0x04C11DB7) & 0xFFFFFFFF if crc & 0x80000000 else (crc << 1) & 0xFFFFFFFF
    return crc


def words_be(stored: bytes) -> bytes:
    """Stored little-endian key words -> AES key byte string."""
    return b"".join(stored[i:i + 4][::-1] for i in range(0, len(stored), 4))


def _xor(a: bytes, b: bytes) -> bytes:
    n = min(len(a), len(b))
    return (int.from_bytes(a[:n], "big") ^ int.from_bytes(b[:n], "big")).to_bytes(n, "big")


def _double(t: int) -> int:
    """Multiply by alpha in GF(2^128), tweak taken as a little-endian integer (IEEE 1619 5.2)."""
    t <<= 1
    if t >> 128:
        t = (t & ((1 << 128) - 1)) ^ 0x87
    return t


class Xts:
    """XTS-AES on whole 16-byte blocks (no ciphertext stealing is ever needed here)."""

    def __init__(self, key1: bytes, key2: bytes):
        self.k1 = _Aes(key1)
        self.k2 = _Aes(key2)
        self._t0: dict[int, list[bytes]] = {}

    def tweaks(self, unit_no: int, nblocks: int) -> list[bytes]:
        lst = self._t0.get(unit_no)
        if lst is None:
            lst = self._t0[unit_no] = [self.k2.enc(unit_no.to_bytes(16, "little"))]
        while len(lst) < nblocks:
            lst.append(_double(int.from_bytes(lst[-1], "little")).to_bytes(16, "little"))
        return lst

    def dec_block(self, unit_no: int, j: int, c: bytes) -> bytes:
        t = self.tweaks(unit_no, j + 1)[j]
        return _xor(self.k1.dec(_xor(c, t)), t)

    def enc_block(self, unit_no: int, j: int, p: bytes) -> bytes:
        t = self.tweaks(unit_no, j + 1)[j]
        return _xor(self.k1.enc(_xor(p, t)), t)

    def dec(self, unit_no: int, data: bytes, first_block: int = 0) -> bytes:
        return b"".join(self.dec_block(unit_no, first_block + i // 16, data[i:i + 16]) for i in range(0, len(data), 16))


@dataclass
class Context:
    index: int
    header: int
    version: int
    lock: int
    key_size: int
    aes_mode: int
    attr_reserved: int
    page_offset: int
    key1: bytes  # 32 stored bytes
    key2: bytes
    start: int
    end: int
    reserved: int
    crc: int
    crc_ok: bool

    @property
    def tagged(self) -> bool:
        return self.header == HEADER_TAG and self.version == VERSION

    def hits(self, addr: int) -> bool:
        return self.tagged and self.start <= addr < self.end

    @property
    def k1_len(self) -> int:
        return 16 if self.key_size == KEYSIZE_128_256 else 32

    @property
    def k2_len(self) -> int:
        if self.aes_mode in (MODE_CTR_ADDR, MODE_CTR_NOADDR, MODE_CTR_KEYSTREAM):
            return 16
        return self.k1_len


def parse_record(index: int, rec: bytes) -> Context:
    w = lambda o: int.from_bytes(rec[o:o + 4], "little")  # noqa: E731
    return Context(index, w(0), w(4), rec[8], rec[9], rec[10], rec[11], w(12), rec[16:48], rec[48:80],
                   w(80), w(84), w(88), w(92), w(92) == crc32_mpeg2(rec[:92]))


def parse_plain_table(table: bytes) -> list[Context]:
    return [parse_record(i, table[RECORD * i: RECORD * (i + 1)]) for i in range(len(table) // RECORD)]


def decrypt_table(enc: bytes, ibkek1: bytes, ibkek2: bytes, keyblob_address: int) -> bytes:
    """IBKEK1/IBKEK2 are given most significant byte first, as in the fuse words description;
    they are stored/used with every 32-bit word byte-reversed like the region keys."""
    x = Xts(words_be(ibkek1), words_be(ibkek2))
    return x.dec(keyblob_address >> 12, enc, 0)


AMBIGUOUS = object()


class IeeHw:
    def __init__(self, contexts: Sequence[Context]):
        self.ctx = [c for c in contexts if c.tagged]
        self._xts: dict[int, Xts] = {}
        self._aes: dict[int, _Aes] = {}

    def lookup(self, addr: int) -> Optional[Context]:
        for c in self.ctx:
            if c.hits(addr):
                return c
        return None

    def read_block(self, c: Context, addr: int, blk: bytes):
        """16-byte block at aligned `addr` in the region of context c.  Returns bytes, or AMBIGUOUS
        when the model does not define the result (counter carry, modes without a claim)."""
        if c.aes_mode == MODE_BYPASS:
            return blk
        if c.aes_mode == MODE_XTS:
            x = self._xts.get(c.index)
            if x is None:
                x = self._xts[c.index] = Xts(words_be(c.key1[:c.k1_len]), words_be(c.key2[:c.k2_len]))
            if len(blk) != 16:
                return None  # a partial block cannot be deciphered: never equals a plaintext
            return x.dec_block(addr >> 12, (addr & 0xFFF) >> 4, blk)
        if c.aes_mode == MODE_CTR_ADDR:
            a = self._aes.get(c.index)
            if a is None:
                a = self._aes[c.index] = _Aes(words_be(c.key1[:c.k1_len]))
            iv = words_be(c.key2[:16])
            low = int.from_bytes(iv[12:], "big") + (addr >> 4)
            if low >> 32:
                return AMBIGUOUS
            ks = a.enc(iv[:12] + low.to_bytes(4, "big"))
            return _xor(blk, ks[:len(blk)])
        return AMBIGUOUS

    def read(self, mem: bytes, mem_base: int):
        """Returns (data, ambiguous_offsets).  Ambiguous blocks are passed through unchanged and
        their offsets listed so that the caller skips them."""
        assert mem_base % 16 == 0
        out = bytearray()
        amb = []
        for off in range(0, len(mem), 16):
            blk = mem[off:off + 16]
            addr = mem_base + off
            c = self.lookup(addr)
            if c is None:
                out += blk
                continue
            r = self.read_block(c, addr, blk)
            if r is AMBIGUOUS:
                amb.append(off)
                out += blk
            elif r is None:
                out += bytes(b ^ 0xFF for b in blk)  # undecipherable: guaranteed different from blk
            else:
                out += r
        return bytes(out), amb
