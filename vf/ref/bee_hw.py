"""Model of the BEE (Bus Encryption Engine, i.MX RT10xx) read path, per 16-byte block, together
with what the boot ROM does with an encrypted region header (EKIB + EPRDB).

Written from the header layout comments (KIB / PRDB / FAC structures) and SP 800-38A; no spsdk
import.  AES single-block calls come from `cryptography`; ECB/CBC chaining, PRDB/FAC parsing,
region lookup and the counter composition are written here.

  region header (0x200 bytes):  0x000 EKIB = AES-128-ECB(user key, KIB{key[16], iv[16]})
                                0x080 EPRDB = AES-128-CBC(KIB.key, KIB.iv, PRDB[0x100])
  PRDB: 'TAG_' 'EHDR' version(0x56010000) fac_count | start end mode lock_options |
        counter[16] (stored byte-reversed) | reserved[32] | FAC[0..3]{start, end, level, reserved[20]}
  mode 1 = AES-CTR: counter block of the 16-byte line at address A =
        nonce (counter with low 32 bits zero) + (A >> 4), big-endian; key = user key of the engine.
  A line is deciphered iff start <= A < end of the PRDB and A lies in one of its FAC regions
  (FAC: start <= A < end).
"""
from __future__ import annotations

from dataclasses import dataclass, field
from typing import Optional, Sequence

from cryptography.hazmat.primitives.ciphers import Cipher, algorithms, modes

TAGL = 0x5F474154
TAGH = 0x52444845
VERSION = 0x56010000
HDR_SIZE = 0x200
PRDB_OFFSET = 0x80
PRDB_SIZE = 0x100
FAC_OFFSET = 0x50
FAC_SIZE = 0x20
MODE_ECB, MODE_CTR = 0, 1


class _Aes:
    def __init__(self, key: bytes):
        c = Cipher(algorithms.AES(bytes(key)), modes.ECB())  # nosec - block primitive
        self._e = c.encryptor()
        self._d = c.decryptor()

    def enc(self, b: bytes) -> bytes:
        return self._e.update(b)

    def dec(self, b: bytes) -> bytes:
        return self._d.update(b)


def _xor(a: bytes, b: bytes) -> bytes:
    n = min(len(a), len(b))
    return (int.from_bytes(a[:n], "big") ^ int.from_bytes(b[:n], "big")).to_bytes(n, "big")


def ecb_dec(key: bytes, data: bytes) -> bytes:
    a = _Aes(key)
    return b"".join(a.dec(data[i:i + 16]) for i in range(0, len(data), 16))


def cbc_dec(key: bytes, iv: bytes, data: bytes) -> bytes:
    a = _Aes(key)
    out = bytearray()
    prev = iv
    for i in range(0, len(data), 16):
        c = data[i:i + 16]
        out += _xor(a.dec(c), prev)
        prev = c
    return bytes(out)


@dataclass
class Fac:
    start: int
    end: int
    level: int
    reserved_zero: bool


@dataclass
class Engine:
    index: int
    user_key: bytes
    kib_key: bytes
    kib_iv: bytes
    tag_ok: bool
    version: int
    fac_count: int
    start: int
    end: int
    mode: int
    lock_options: int
    nonce: bytes  # 16 bytes, most significant first (already un-reversed)
    reserved_zero: bool
    facs: list[Fac] = field(default_factory=list)
    tail_zero: bool = True

    def fac_hit(self, addr: int) -> bool:
        return any(f.start <= addr < f.end for f in self.facs)

    def hits(self, addr: int) -> bool:
        return self.tag_ok and self.start <= addr < self.end and self.fac_hit(addr)


def load_header(index: int, header: bytes, user_key: bytes) -> Optional[Engine]:
    if len(header) < HDR_SIZE:
        return None
    kib = ecb_dec(user_key, header[:32])
    kib_key, kib_iv = kib[:16], kib[16:32]
    prdb = cbc_dec(kib_key, kib_iv, header[PRDB_OFFSET:PRDB_OFFSET + PRDB_SIZE])
    w = lambda o: int.from_bytes(prdb[o:o + 4], "little")  # noqa: E731
    n = w(12)
    e = Engine(index, user_key, kib_key, kib_iv, w(0) == TAGL and w(4) == TAGH, w(8), n, w(16), w(20), w(24), w(28),
               prdb[32:48][::-1], prdb[48:80] == bytes(32))
    for i in range(min(n, 4)):
        o = FAC_OFFSET + FAC_SIZE * i
        e.facs.append(Fac(w(o), w(o + 4), w(o + 8), prdb[o + 12:o + 32] == bytes(20)))
    used = FAC_OFFSET + FAC_SIZE * min(n, 4)
    e.tail_zero = prdb[used:] == bytes(PRDB_SIZE - used)
    return e


class BeeHw:
    def __init__(self, engines: Sequence[Optional[Engine]]):
        self.engines = [e for e in engines if e is not None]
        self._aes: dict[int, _Aes] = {}

    def lookup(self, addr: int) -> Optional[Engine]:
        for e in self.engines:
            if e.hits(addr):
                return e
        return None

    def read(self, mem: bytes, mem_base: int):
        """Returns (data, unsupported_offsets): blocks in a region whose AES mode the model does not
        implement (ECB) are passed through and listed."""
        assert mem_base % 16 == 0
        out = bytearray()
        unsup = []
        for off in range(0, len(mem), 16):
            blk = mem[off:off + 16]
            addr = mem_base + off
            e = self.lookup(addr)
            if e is None:
                out += blk
                continue
            if e.mode != MODE_CTR:
                unsup.append(off)
                out += blk
                continue
            a = self._aes.get(e.index)
            if a is None:
                a = self._aes[e.index] = _Aes(e.user_key)
            ctr = (int.from_bytes(e.nonce, "big") + (addr >> 4)) & ((1 << 128) - 1)
            ks = a.enc(ctr.to_bytes(16, "big"))
            out += _xor(blk, ks[:len(blk)])
        return bytes(out), unsup
