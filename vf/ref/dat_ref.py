"""Independent byte-level reader / verifier of NXP debug-authentication artefacts: debug credentials
(DC), debug authentication challenges (DAC) and responses (DAR), per protocol version.

Written from the data-format descriptions (the field lists next to the struct formats and the
binary-structure note of the DC configuration template, the AHAB SRK table / SRK record / SRK data /
certificate / signature tables) and calibrated on the repository's golden binaries
(tests/dat/data/*.cert, *.dc, sample_dac*.bin).  No spsdk import.  Hashes: hashlib.  Signatures:
vf/ref/rsa.py and vf/ref/ecdsa.py (own big-integer code) or, for bulk work, `cryptography` called
directly (`fast=True`).

All multi-byte header fields are little endian; key material (RSA n, e; EC x, y; r, s) is big endian.

Classic credential, RSA protocol 1.0 (RSA-2048, K = 256) / 1.1 (RSA-4096, K = 512)::

    0            u16 major, u16 minor
    4            u32 SoC class (SOCC)
    8            UUID[16]
    24           RoT meta[128]: 4 slots of SHA-256(n || e) of RoT key i (n, e minimal big endian), unused = zeros
    152          DCK public key: n[K] || e[4]
    156+K        u32 CC_SOCU, u32 CC_VU, u32 credential beacon
    168+K        RoT public key: n[K] || e[4]
    172+2K       signature[K] (RSASSA over bytes[0 : 172+2K], SHA-256)      -> total 172 + 3K

Classic credential, ECC protocol 2.0 / 2.1 / 2.2 (P-256 / P-384 / P-521, C = 32 / 48 / 66, H = 32 / 48 / 64)::

    0            u16 major, u16 minor; u32 SOCC; UUID[16]
    24           u32 CC_SOCU, u32 CC_VU, u32 credential beacon
    36           RoT meta: u32 flags (bit 31 set, bits 11..8 index of the used RoT key, bits 7..4 number of RoT keys)
                 followed, only when the number of keys is > 1, by n x H bytes: SHA-256/384/512(x || y) of RoT key i
    ..           RoT public key x[C] || y[C]
    ..           DCK public key x[C] || y[C]
    ..           signature r[C] || s[C]  (ECDSA over everything before it, SHA-256/384/512 by curve)

EdgeLock-enclave credential (container version 1)::

    0..36        as ECC (the version field says 1.0/1.1 for RSA and 2.0/2.1/2.2 for ECC root keys)
    36           u32 flags (as above) + AHAB SRK table: tag 0xD7, u16 length, version 0x42, four SRK records:
                 tag 0xE1, u16 length, signing algorithm (0x21 RSA, 0x22 RSA-PSS, 0x27 ECDSA); hash algorithm
                 (0 SHA-256, 1 SHA-384, 2 SHA-512), key size/curve (1 P-256, 2 P-384, 3 P-521, 5/6/7 RSA-2048/3072/4096),
                 reserved, SRK flags (0x80 = CA); u16 len1, u16 len2; n[len1] || e[len2] or x[len1] || y[len2]
    ..           DCK public key: x || y, or n || e (e minimal)
    ..           signature by SRK record[used]: r || s, or RSASSA-PSS (modulus length)
    RoT hash = SHA-256 over the SRK table.

EdgeLock-enclave credential, container version 2 = AHAB certificate version 2::

    0            version 0x02, u16 length, tag 0xAF
    4            u16 signature offset, u8 ~permissions, u8 permissions (0x02 = debug)
    8            permission data[12] = u32 SOCC, u32 CC_SOCU, u32 beacon
    20           u8 fuse version, 3 reserved
    24           UUID[16]
    40           SRK record v2 (tag 0xE1, 12-byte head as above + 64-byte hash field: hash(SRK data) zero padded)
    ..           SRK data: version 0x00, u16 length, tag 0x5D; u8 SRK index, 3 reserved; key data x || y or n || e[4]
    sig offset   signature container: version 0x00, u16 length, tag 0xD8, 4 reserved, signature bytes
    signed: bytes[0 : signature offset]; the signing (SRK) key is not carried by the certificate.

Challenge (DAC)::

    0   u16 major, u16 minor (some devices send minor first), u32 SOCC, UUID[16], u32 RoT revocation state,
        RoT key table hash[L] (L = 32; 48 / 64 for protocol 2.1 / 2.2 on devices that do not always use SHA-256),
        u32 CC_SOC_PINNED, u32 CC_SOC_DEFAULT, u32 CC_VU, challenge[32]

Response (DAR) = DC || u32 authentication beacon || (ECC protocol versions: UUID[16] of the challenge) || signature,
the signature made with the DCK over DC || beacon || (UUID) || challenge[32].
"""
from __future__ import annotations

import hashlib
import struct
from typing import Any, Optional

from vf.ref import ecdsa as recdsa
from vf.ref import rsa as rrsa


class DatError(ValueError):
    """The bytes are not a well-formed artefact of the stated layout."""


RSA_MOD_BYTES = {0: 256, 1: 512}  # protocol minor -> modulus length
ECC_COORD = {0: 32, 1: 48, 2: 66}  # protocol minor -> coordinate length
CURVE_BY_COORD = {32: "secp256r1", 48: "secp384r1", 66: "secp521r1"}
COORD_BY_CURVE = {v: k for k, v in CURVE_BY_COORD.items()}
HASH_BY_CURVE = {"secp256r1": "sha256", "secp384r1": "sha384", "secp521r1": "sha512"}
SRK_CURVE = {1: "secp256r1", 2: "secp384r1", 3: "secp521r1"}
SRK_RSA_BITS = {5: 2048, 6: 3072, 7: 4096}
SRK_HASH = {0: "sha256", 1: "sha384", 2: "sha512"}
TAG_SRK_TABLE, TAG_SRK_RECORD, TAG_SRK_DATA, TAG_CERT, TAG_SIGNATURE = 0xD7, 0xE1, 0x5D, 0xAF, 0xD8
ALG_RSA, ALG_RSA_PSS, ALG_ECDSA = 0x21, 0x22, 0x27
HEAD = 36  # version + socc + uuid + 3 constraints of the ECC / EdgeLock layouts


# ---------------------------------------------------------------------------------------------
# keys as plain dicts: {"type": "rsa", "n", "e"} | {"type": "ecc", "curve", "x", "y"}


def ilen(v: int) -> int:
    return max(1, (v.bit_length() + 7) // 8)


def key_hash_name(key: dict) -> str:
    """Hash a key signs with in this protocol family: SHA-256 for RSA, by curve size for ECC."""
    return "sha256" if key["type"] == "rsa" else HASH_BY_CURVE[key["curve"]]


def key_raw(key: dict, exp_len: Optional[int] = None) -> bytes:
    """n || e (e in `exp_len` bytes, minimal when None) or x || y at coordinate width."""
    if key["type"] == "rsa":
        return key["n"].to_bytes(ilen(key["n"]), "big") + key["e"].to_bytes(exp_len or ilen(key["e"]), "big")
    c = COORD_BY_CURVE[key["curve"]]
    return key["x"].to_bytes(c, "big") + key["y"].to_bytes(c, "big")


def rot_key_hash(key: dict) -> bytes:
    """Root-key hash as the image tools' root key tables define it: SHA-256(n || e) with minimal big-endian
    numbers for RSA; SHA-256/384/512(x || y) at coordinate width for ECC."""
    return hashlib.new(key_hash_name(key), key_raw(key)).digest()


def signature_size(key: dict) -> int:
    return ilen(key["n"]) if key["type"] == "rsa" else 2 * COORD_BY_CURVE[key["curve"]]


def verify_sig(key: dict, msg: bytes, sig: bytes, pss: bool = False, fast: bool = False,
               hash_name: Optional[str] = None) -> bool:
    """Does `sig` (RSASSA-PKCS1-v1_5 / PSS, or raw r || s) verify over `msg` under `key`?"""
    h = hash_name or key_hash_name(key)
    if fast:
        return _verify_fast(key, msg, sig, pss, h)
    dg = hashlib.new(h, msg).digest()
    if key["type"] == "rsa":
        return rrsa.verify(key["n"], key["e"], h, dg, sig, pss)
    return recdsa.verify_sig(recdsa.CURVES[key["curve"]], (key["x"], key["y"]), dg, sig, "raw")


_FAST_KEYS: dict = {}


def _verify_fast(key: dict, msg: bytes, sig: bytes, pss: bool, h: str) -> bool:
    """Same decision through `cryptography` used directly (OpenSSL) — for the large binding matrices."""
    from cryptography.exceptions import InvalidSignature
    from cryptography.hazmat.primitives import hashes
    from cryptography.hazmat.primitives.asymmetric import ec, padding, rsa, utils

    halg = {"sha256": hashes.SHA256, "sha384": hashes.SHA384, "sha512": hashes.SHA512}[h]()
    ident = tuple(sorted((k, v) for k, v in key.items()))
    pk = _FAST_KEYS.get(ident)
    try:
        if key["type"] == "rsa":
            if pk is None:
                pk = _FAST_KEYS[ident] = rsa.RSAPublicNumbers(key["e"], key["n"]).public_key()
            pad = padding.PSS(mgf=padding.MGF1(halg), salt_length=halg.digest_size) if pss else padding.PKCS1v15()
            pk.verify(sig, msg, pad, halg)
            return True
        if pk is None:
            crv = {"secp256r1": ec.SECP256R1, "secp384r1": ec.SECP384R1, "secp521r1": ec.SECP521R1}[key["curve"]]()
            pk = _FAST_KEYS[ident] = ec.EllipticCurvePublicNumbers(key["x"], key["y"], crv).public_key()
        c = COORD_BY_CURVE[key["curve"]]
        if len(sig) != 2 * c:
            return False
        der = utils.encode_dss_signature(int.from_bytes(sig[:c], "big"), int.from_bytes(sig[c:], "big"))
        pk.verify(der, msg, ec.ECDSA(halg))
        return True
    except (InvalidSignature, ValueError):
        return False


# ---------------------------------------------------------------------------------------------
# AHAB pieces used by the EdgeLock layouts


def _u16(b: bytes, off: int) -> int:
    return struct.unpack_from("<H", b, off)[0]


def _u32(b: bytes, off: int) -> int:
    return struct.unpack_from("<L", b, off)[0]


def _need(b: bytes, off: int, n: int, what: str) -> None:
    if off < 0 or off + n > len(b):
        raise DatError(f"{what}: needs bytes [{off}:{off + n}] of {len(b)}")


def parse_srk_record_head(b: bytes, off: int) -> dict:
    """The 12-byte head shared by SRK records v1 and v2."""
    _need(b, off, 12, "SRK record head")
    if b[off] != TAG_SRK_RECORD:
        raise DatError(f"SRK record tag {b[off]:#x} at {off}")
    return {"length": _u16(b, off + 1), "alg": b[off + 3], "hash": b[off + 4], "size": b[off + 5],
            "reserved": b[off + 6], "flags": b[off + 7], "len1": _u16(b, off + 8), "len2": _u16(b, off + 10)}


def key_from_srk(head: dict, p1: bytes, p2: bytes) -> dict:
    if head["alg"] in (ALG_RSA, ALG_RSA_PSS):
        if head["size"] not in SRK_RSA_BITS:
            raise DatError(f"RSA SRK with key size code {head['size']}")
        key = {"type": "rsa", "n": int.from_bytes(p1, "big"), "e": int.from_bytes(p2, "big")}
        if key["n"].bit_length() != SRK_RSA_BITS[head["size"]]:
            raise DatError("RSA modulus length does not match the SRK key size code")
        return key
    if head["alg"] == ALG_ECDSA:
        if head["size"] not in SRK_CURVE:
            raise DatError(f"ECDSA SRK with curve code {head['size']}")
        curve = SRK_CURVE[head["size"]]
        if len(p1) != COORD_BY_CURVE[curve] or len(p2) != len(p1):
            raise DatError("EC coordinate lengths do not match the curve code")
        return {"type": "ecc", "curve": curve, "x": int.from_bytes(p1, "big"), "y": int.from_bytes(p2, "big")}
    raise DatError(f"unsupported SRK signing algorithm {head['alg']:#x}")


def parse_srk_table(b: bytes, off: int) -> dict:
    """SRK table (container v1): {'length', 'records': [{head.., 'key'}], 'bytes'}; four records."""
    _need(b, off, 4, "SRK table head")
    if b[off] != TAG_SRK_TABLE or b[off + 3] != 0x42:
        raise DatError(f"SRK table tag/version {b[off]:#x}/{b[off + 3]:#x}")
    length = _u16(b, off + 1)
    _need(b, off, length, "SRK table")
    pos = off + 4
    recs = []
    while pos < off + length:
        h = parse_srk_record_head(b, pos)
        if h["length"] != 12 + h["len1"] + h["len2"]:
            raise DatError("SRK record length != 12 + parameter lengths")
        _need(b, pos, h["length"], "SRK record")
        p1 = b[pos + 12:pos + 12 + h["len1"]]
        p2 = b[pos + 12 + h["len1"]:pos + h["length"]]
        h["key"] = key_from_srk(h, p1, p2)
        h["offset"] = pos
        recs.append(h)
        pos += h["length"]
    if pos != off + length or len(recs) != 4:
        raise DatError(f"SRK table with {len(recs)} records / length mismatch")
    return {"length": length, "records": recs, "bytes": bytes(b[off:off + length])}


def build_srk_table(keys: list[dict], ca: bool = False) -> bytes:
    """The SRK table (container v1) of four public keys, from their numbers."""
    body = b""
    for k in keys:
        if k["type"] == "rsa":
            bits = k["n"].bit_length()
            size = {v: c for c, v in SRK_RSA_BITS.items()}[bits]
            p1, p2 = k["n"].to_bytes(bits // 8, "big"), k["e"].to_bytes(4, "big")
            alg, hsh = ALG_RSA_PSS, 0
        else:
            size = {v: c for c, v in SRK_CURVE.items()}[k["curve"]]
            c = COORD_BY_CURVE[k["curve"]]
            p1, p2 = k["x"].to_bytes(c, "big"), k["y"].to_bytes(c, "big")
            alg, hsh = ALG_ECDSA, {"sha256": 0, "sha384": 1, "sha512": 2}[HASH_BY_CURVE[k["curve"]]]
        rec = struct.pack("<BHBBBBBHH", TAG_SRK_RECORD, 12 + len(p1) + len(p2), alg, hsh, size, 0,
                          0x80 if ca else 0, len(p1), len(p2)) + p1 + p2
        body += rec
    return struct.pack("<BHB", TAG_SRK_TABLE, 4 + len(body), 0x42) + body


# ---------------------------------------------------------------------------------------------
# debug credential


def _parse_flags(b: bytes, off: int) -> tuple[int, int]:
    flags = _u32(b, off)
    if not flags & (1 << 31):
        raise DatError("RoT meta flags: bit 31 not set")
    if flags & ~((1 << 31) | 0xFF0):
        raise DatError(f"RoT meta flags: unexpected bits {flags:#x}")
    used, cnt = (flags >> 8) & 0xF, (flags >> 4) & 0xF
    if not 1 <= cnt <= 4 or used >= cnt:
        raise DatError(f"RoT meta flags: used {used} of {cnt}")
    return used, cnt


def parse_dc(data: bytes, layout: str) -> dict:
    """Read a classic (`layout='plain'`) or EdgeLock v1 (`layout='ele'`) credential.

    Returns the field values, the RoT key the credential names (`rot_key`), where the signature starts
    (`sig_off`) and the byte regions of every field group (`regions`: name -> (start, end))."""
    _need(data, 0, HEAD, "credential head")
    major, minor = struct.unpack_from("<2H", data, 0)
    out: dict[str, Any] = {"layout": layout, "version": (major, minor), "socc": _u32(data, 4), "uuid": bytes(data[8:24])}
    regions: dict[str, tuple[int, int]] = {"version": (0, 4), "socc": (4, 8), "uuid": (8, 24)}
    if layout == "plain" and major == 1:
        if minor not in RSA_MOD_BYTES:
            raise DatError(f"protocol 1.{minor}")
        k = RSA_MOD_BYTES[minor]
        if len(data) != 172 + 3 * k:
            raise DatError(f"RSA credential of {len(data)} bytes, expected {172 + 3 * k}")
        slots = [bytes(data[24 + 32 * i:56 + 32 * i]) for i in range(4)]
        dck_off, cc_off, rot_off, sig_off = 152, 156 + k, 168 + k, 172 + 2 * k

        def rsa_at(off: int) -> dict:
            return {"type": "rsa", "n": int.from_bytes(data[off:off + k], "big"),
                    "e": int.from_bytes(data[off + k:off + k + 4], "big")}

        out.update(cc_socu=_u32(data, cc_off), cc_vu=_u32(data, cc_off + 4), cc_beacon=_u32(data, cc_off + 8),
                   rot_meta={"kind": "rsa", "slots": slots}, dck=rsa_at(dck_off), rot_key=rsa_at(rot_off),
                   dck_raw=bytes(data[dck_off:dck_off + k + 4]))
        regions.update(rot_meta=(24, 152), dck=(dck_off, cc_off), cc_socu=(cc_off, cc_off + 4),
                       cc_vu=(cc_off + 4, cc_off + 8), cc_beacon=(cc_off + 8, cc_off + 12), rot_pub=(rot_off, sig_off))
        # which slot names the embedded RoT key
        hk = rot_key_hash(out["rot_key"])
        out["rot_index"] = slots.index(hk) if hk in slots else None
        out["rot_count"] = sum(1 for s in slots if any(s))
    elif layout == "plain" and major == 2:
        if minor not in ECC_COORD:
            raise DatError(f"protocol 2.{minor}")
        c = ECC_COORD[minor]
        curve = CURVE_BY_COORD[c]
        hlen = hashlib.new(HASH_BY_CURVE[curve]).digest_size
        out.update(cc_socu=_u32(data, 24), cc_vu=_u32(data, 28), cc_beacon=_u32(data, 32))
        regions.update(cc_socu=(24, 28), cc_vu=(28, 32), cc_beacon=(32, 36))
        _need(data, HEAD, 4, "RoT meta flags")
        used, cnt = _parse_flags(data, HEAD)
        table_len = cnt * hlen if cnt > 1 else 0
        rot_off = HEAD + 4 + table_len
        _need(data, rot_off, 2 * c, "RoT public key")
        items = [bytes(data[HEAD + 4 + i * hlen:HEAD + 4 + (i + 1) * hlen]) for i in range(cnt)] if cnt > 1 else []
        sig_off = len(data) - 2 * c
        dck_off = rot_off + 2 * c
        if sig_off < dck_off:
            raise DatError("ECC credential too short")
        dck_raw = bytes(data[dck_off:sig_off])
        out.update(rot_meta={"kind": "ecc", "used": used, "count": cnt, "items": items},
                   rot_key={"type": "ecc", "curve": curve, "x": int.from_bytes(data[rot_off:rot_off + c], "big"),
                            "y": int.from_bytes(data[rot_off + c:rot_off + 2 * c], "big")},
                   dck_raw=dck_raw, dck=_ecc_from_raw(dck_raw), rot_index=used, rot_count=cnt)
        regions.update(rot_meta=(HEAD, rot_off), rot_pub=(rot_off, dck_off), dck=(dck_off, sig_off))
    elif layout == "ele":
        out.update(cc_socu=_u32(data, 24), cc_vu=_u32(data, 28), cc_beacon=_u32(data, 32))
        regions.update(cc_socu=(24, 28), cc_vu=(28, 32), cc_beacon=(32, 36))
        _need(data, HEAD, 8, "RoT meta")
        used, cnt = _parse_flags(data, HEAD)
        tab = parse_srk_table(data, HEAD + 4)
        if cnt != 4:
            raise DatError("EdgeLock RoT meta must announce four SRK records")
        rot_key = tab["records"][used]["key"]
        dck_off = HEAD + 4 + tab["length"]
        sig_off = len(data) - signature_size(rot_key)
        if sig_off <= dck_off:
            raise DatError("EdgeLock credential too short")
        dck_raw = bytes(data[dck_off:sig_off])
        if rot_key["type"] == "rsa":
            # n at the RoT modulus length when that leaves a plausible exponent, else unknown
            nlen = ilen(rot_key["n"])
            dck = _rsa_or_ecc_from_raw(dck_raw, nlen)
        else:
            dck = _rsa_or_ecc_from_raw(dck_raw, None)
        out.update(rot_meta={"kind": "ele", "used": used, "count": cnt, "table": tab}, rot_key=rot_key, dck_raw=dck_raw,
                   dck=dck, rot_index=used, rot_count=cnt)
        regions.update(rot_meta=(HEAD, dck_off), dck=(dck_off, sig_off))
        if (major == 1) != (rot_key["type"] == "rsa"):
            out["version_key_mismatch"] = True
    else:
        raise DatError(f"layout {layout!r} with protocol {major}.{minor}")
    out["sig_off"] = sig_off
    out["signature"] = bytes(data[sig_off:])
    regions["signature"] = (sig_off, len(data))
    out["regions"] = regions
    return out


def _ecc_from_raw(raw: bytes) -> Optional[dict]:
    c = len(raw) // 2
    if len(raw) % 2 or c not in CURVE_BY_COORD:
        return None
    return {"type": "ecc", "curve": CURVE_BY_COORD[c], "x": int.from_bytes(raw[:c], "big"), "y": int.from_bytes(raw[c:], "big")}


def _rsa_or_ecc_from_raw(raw: bytes, nlen: Optional[int]) -> Optional[dict]:
    """A DCK field of an EdgeLock credential carries no type: decide by its length (64/96/132 = EC point,
    256/384/512 + 1..4 = RSA modulus and exponent)."""
    k = _ecc_from_raw(raw)
    if k is not None:
        return k
    for n in ((nlen,) if nlen else ()) + (256, 384, 512):
        if n and n < len(raw) <= n + 4:
            return {"type": "rsa", "n": int.from_bytes(raw[:n], "big"), "e": int.from_bytes(raw[n:], "big")}
    return None


def dc_signed_bytes(data: bytes, parsed: dict) -> bytes:
    return bytes(data[:parsed["sig_off"]])


def verify_dc(data: bytes, parsed: dict, pss: bool, fast: bool = False) -> bool:
    """The credential's signature under the RoT key it names, over exactly bytes[0 : sig_off]."""
    return verify_sig(parsed["rot_key"], dc_signed_bytes(data, parsed), parsed["signature"], pss=pss, fast=fast)


def dc_names_key(parsed: dict, key: dict) -> Optional[str]:
    """None when the credential's RoT meta consistently names `key` as its root of trust, else why not."""
    if parsed["rot_key"] != key:
        return "rot-key-differs"
    meta = parsed["rot_meta"]
    if meta["kind"] == "rsa":
        if parsed["rot_index"] is None:
            return "rot-key-hash-not-in-table"
    elif meta["kind"] == "ecc":
        if meta["count"] > 1 and meta["items"][meta["used"]] != rot_key_hash(key):
            return "used-table-entry-is-not-hash-of-rot-key"
    return None


def expected_rot_meta(kind: str, keys: list[dict], used: int, ca: bool = False) -> bytes:
    """RoT meta bytes from the key numbers."""
    if kind == "rsa":
        return b"".join(rot_key_hash(k) for k in keys) + bytes(32 * (4 - len(keys)))
    flags = struct.pack("<L", (1 << 31) | (used << 8) | (len(keys) << 4))
    if kind == "ecc":
        return flags + (b"".join(rot_key_hash(k) for k in keys) if len(keys) > 1 else b"")
    if kind == "ele":
        return flags + build_srk_table(keys, ca)
    raise DatError(kind)


def expected_rot_hash(kind: str, keys: list[dict], ca: bool = False) -> bytes:
    """The RoT (table) hash for a key set — the value the image tools compute for the same keys:
    rsa: SHA-256 over the four 32-byte slots (cert block v1 RKTH); ecc: the single key hash, or the hash of the
    concatenated key hashes with the curve's hash (cert block v2.1 RKTH); ele: SHA-256 over the SRK table."""
    if kind == "rsa":
        return hashlib.sha256(expected_rot_meta("rsa", keys, 0)).digest()
    if kind == "ecc":
        hs = [rot_key_hash(k) for k in keys]
        return hs[0] if len(hs) == 1 else hashlib.new(key_hash_name(keys[0]), b"".join(hs)).digest()
    if kind == "ele":
        return hashlib.sha256(build_srk_table(keys, ca)).digest()
    raise DatError(kind)


def build_dc_body(layout: str, version: tuple[int, int], socc: int, uuid: bytes, cc_socu: int, cc_vu: int,
                  cc_beacon: int, rot_keys: list[dict], used: int, dck: dict, ca: bool = False) -> bytes:
    """The model: every byte of a credential before its signature, from the field values and key numbers."""
    head = struct.pack("<2HL", version[0], version[1], socc) + uuid
    cc = struct.pack("<3L", cc_socu, cc_vu, cc_beacon)
    if len(uuid) != 16:
        raise DatError("uuid must have 16 bytes")
    if layout == "plain" and version[0] == 1:
        return head + expected_rot_meta("rsa", rot_keys, used) + key_raw(dck, 4) + cc + key_raw(rot_keys[used], 4)
    if layout == "plain":
        return head + cc + expected_rot_meta("ecc", rot_keys, used) + key_raw(rot_keys[used]) + key_raw(dck)
    if layout == "ele":
        return head + cc + expected_rot_meta("ele", rot_keys, used, ca) + key_raw(dck)
    raise DatError(layout)


# ---------------------------------------------------------------------------------------------
# EdgeLock container version 2: the credential is an AHAB certificate v2


def parse_cert_v2(data: bytes) -> dict:
    _need(data, 0, 40, "certificate head")
    if data[0] != 0x02 or data[3] != TAG_CERT:
        raise DatError(f"certificate version/tag {data[0]:#x}/{data[3]:#x}")
    length = _u16(data, 1)
    if length != len(data):
        raise DatError(f"certificate length field {length}, {len(data)} bytes given")
    sig_off = _u16(data, 4)
    perm_inv, perm = data[6], data[7]
    if perm ^ perm_inv != 0xFF:
        raise DatError("permissions and inverted permissions disagree")
    socc, socu, beacon = struct.unpack_from("<LLL", data, 8)
    out: dict[str, Any] = {"layout": "ele2", "length": length, "sig_off": sig_off, "permissions": perm, "socc": socc,
                           "cc_socu": socu, "cc_beacon": beacon, "fuse_version": data[20],
                           "reserved": bytes(data[21:24]), "uuid": bytes(data[24:40])}
    regions = {"header": (0, 4), "sig_offset": (4, 6), "permissions": (6, 8), "socc": (8, 12), "cc_socu": (12, 16),
               "cc_beacon": (16, 20), "fuse_version": (20, 21), "uuid": (24, 40)}
    pos = 40
    keys = []
    while pos < sig_off:
        h = parse_srk_record_head(data, pos)
        if h["length"] != 12 + 64:
            raise DatError("SRK record v2 must be 76 bytes")
        _need(data, pos, 76, "SRK record v2")
        dhash = bytes(data[pos + 12:pos + 76])
        dpos = pos + 76
        _need(data, dpos, 8, "SRK data head")
        if data[dpos] != 0x00 or data[dpos + 3] != TAG_SRK_DATA:
            raise DatError("SRK data version/tag")
        dlen = _u16(data, dpos + 1)
        _need(data, dpos, dlen, "SRK data")
        srk_id = data[dpos + 4]
        kd = bytes(data[dpos + 8:dpos + dlen])
        if len(kd) != h["len1"] + h["len2"]:
            raise DatError("SRK data length != parameter lengths of the record")
        key = key_from_srk(h, kd[:h["len1"]], kd[h["len1"]:])
        hname = SRK_HASH.get(h["hash"])
        if hname is None:
            raise DatError("SRK record hash algorithm")
        want = hashlib.new(hname, bytes(data[dpos:dpos + dlen])).digest()
        keys.append({"head": h, "key": key, "srk_id": srk_id, "data_hash_ok": dhash == want + bytes(64 - len(want)),
                     "region": (pos, dpos + dlen)})
        pos = dpos + dlen
    if pos != sig_off or not keys:
        raise DatError("key records do not end at the signature offset")
    out["keys"] = keys
    out["dck"] = keys[0]["key"]
    regions["dck"] = (40, sig_off)
    sigs = []
    while pos < len(data):
        _need(data, pos, 8, "signature head")
        if data[pos] != 0x00 or data[pos + 3] != TAG_SIGNATURE:
            raise DatError("signature container version/tag")
        slen = _u16(data, pos + 1)
        _need(data, pos, slen, "signature container")
        sigs.append(bytes(data[pos + 8:pos + slen]))
        pos += slen
    if pos != len(data) or not sigs:
        raise DatError("signature containers do not end at the certificate end")
    out["signatures"] = sigs
    out["signature"] = sigs[0]
    regions["signature"] = (sig_off, len(data))
    out["regions"] = regions
    return out


def build_cert_v2_body(socc: int, cc_socu: int, beacon: int, fuse_version: int, uuid: bytes, dck: dict,
                       signer: dict, permissions: int = 0x02) -> bytes:
    """The model of an EdgeLock v2 credential: every byte before the signature container, from the values.
    `signer` only determines the total length written into the header (8 + signature size)."""
    if dck["type"] == "rsa":
        bits = dck["n"].bit_length()
        size = {v: c for c, v in SRK_RSA_BITS.items()}[bits]
        p1, p2 = dck["n"].to_bytes(bits // 8, "big"), dck["e"].to_bytes(4, "big")
        alg, hname = ALG_RSA_PSS, "sha256"
    else:
        size = {v: c for c, v in SRK_CURVE.items()}[dck["curve"]]
        c = COORD_BY_CURVE[dck["curve"]]
        p1, p2 = dck["x"].to_bytes(c, "big"), dck["y"].to_bytes(c, "big")
        alg, hname = ALG_ECDSA, HASH_BY_CURVE[dck["curve"]]
    srk_data = struct.pack("<BHBBBH", 0x00, 8 + len(p1) + len(p2), TAG_SRK_DATA, 0, 0, 0) + p1 + p2
    dh = hashlib.new(hname, srk_data).digest()
    record = struct.pack("<BHBBBBBHH", TAG_SRK_RECORD, 76, alg, {"sha256": 0, "sha384": 1, "sha512": 2}[hname], size, 0, 0,
                         len(p1), len(p2)) + dh + bytes(64 - len(dh))
    sig_off = 40 + len(record) + len(srk_data)
    total = sig_off + 8 + signature_size(signer)
    if len(uuid) != 16:
        raise DatError("uuid must have 16 bytes")
    head = struct.pack("<BHBHBB", 0x02, total, TAG_CERT, sig_off, ~permissions & 0xFF, permissions)
    return head + struct.pack("<LLL", socc, cc_socu, beacon) + struct.pack("<B3x", fuse_version) + uuid + record + srk_data


def parse_signed_msg_v2(data: bytes) -> dict:
    """EdgeLock v2 response = AHAB signed-message container (version 2) with the debug-authentication request::

        0   version 0x02, u16 length, tag 0x89; u32 flags; u16 sw version, u8 fuse version, u8 -; u16 signature block offset, u16 -
        16  message descriptor: u8 flags, 3 reserved, IV[32]
        52  message header: u16 issue date, u8 permission, u8 certificate version, u16 -, u8 command (0xC8), u8 -, unique id[8]
        68  payload: challenge vector[32], u16 authentication beacon
        sbo signature block: version 0x01, u16 length, tag 0x90; u16 certificate offset, u16 SRK table offset;
            u16 signature offset, u16 blob offset; u32 key identifier; SRK table array; signature container
            (version 0, u16 length, tag 0xD8, 4 reserved, signature); certificate (= the credential)
    Signed: bytes[0 : sbo + signature offset] (container head, message and the signature block up to the signature
    container; the certificate that follows carries its own signature by the SRK)."""
    _need(data, 0, 16, "container head")
    if data[0] != 0x02 or data[3] != 0x89:
        raise DatError(f"signed message version/tag {data[0]:#x}/{data[3]:#x}")
    length = _u16(data, 1)
    sbo = _u16(data, 12)
    _need(data, 16, 36 + 16 + 34, "message")
    if sbo != 16 + 36 + 16 + 34:
        raise DatError(f"signature block offset {sbo}")
    out: dict[str, Any] = {"length": length, "flags": _u32(data, 4), "sw_version": _u16(data, 8), "fuse_version": data[10],
                           "sbo": sbo, "descriptor_flags": data[16], "iv": bytes(data[20:52]),
                           "issue_date": _u16(data, 52), "permission": data[54], "cert_version": data[55],
                           "command": data[58], "unique_id": bytes(data[60:68]), "challenge": bytes(data[68:100]),
                           "beacon": _u16(data, 100)}
    _need(data, sbo, 16, "signature block head")
    if data[sbo] != 0x01 or data[sbo + 3] != 0x90:
        raise DatError("signature block version/tag")
    blen = _u16(data, sbo + 1)
    cert_off, srk_off, sig_off, blob_off = struct.unpack_from("<4H", data, sbo + 4)
    _need(data, sbo, blen, "signature block")
    if not (srk_off and sig_off and cert_off) or not srk_off < sig_off < cert_off <= blen:
        raise DatError(f"signature block offsets srk {srk_off} sig {sig_off} cert {cert_off} of {blen}")
    s = sbo + sig_off
    if data[s] != 0x00 or data[s + 3] != TAG_SIGNATURE:
        raise DatError("signature container version/tag")
    slen = _u16(data, s + 1)
    c = sbo + cert_off
    if s + slen > c:
        raise DatError("signature container overlaps the certificate")
    _need(data, c, 4, "certificate head")
    clen = _u16(data, c + 1)
    _need(data, c, clen, "certificate")
    out.update(srk_array=bytes(data[sbo + srk_off:s]), signature=bytes(data[s + 8:s + slen]), signed_end=s,
               certificate=bytes(data[c:c + clen]), blob_off=blob_off, regions={
                   "container-head": (0, 16), "descriptor": (16, 52), "message-head": (52, 60), "unique_id": (60, 68),
                   "challenge": (68, 100), "beacon": (100, 102), "signature-block-head": (sbo, sbo + 16),
                   "srk-array": (sbo + srk_off, s)})
    return out


def verify_signed_msg_v2(data: bytes, parsed: dict, dck: dict, fast: bool = False) -> bool:
    return verify_sig(dck, bytes(data[:parsed["signed_end"]]), parsed["signature"], pss=True, fast=fast)


def verify_cert_v2(data: bytes, parsed: dict, signer: dict, fast: bool = False) -> bool:
    """Signature 0 over bytes[0 : signature offset] under `signer` (RSA: PSS, as the SRK records of this
    container family announce RSA-PSS)."""
    return verify_sig(signer, bytes(data[:parsed["sig_off"]]), parsed["signature"], pss=True, fast=fast)


# ---------------------------------------------------------------------------------------------
# challenge and response


def build_dac(version: tuple[int, int], socc: int, uuid: bytes, revocation: int, rkth: bytes, pinned: int,
              default: int, cc_vu: int, challenge: bytes, swapped: bool = False) -> bytes:
    a, b = (version[1], version[0]) if swapped else version
    assert len(uuid) == 16 and len(challenge) == 32
    return (struct.pack("<2HL", a, b, socc) + uuid + struct.pack("<L", revocation) + rkth
            + struct.pack("<3L", pinned, default, cc_vu) + challenge)


def parse_dac(data: bytes, hash_len: int, swapped: bool = False) -> dict:
    _need(data, 0, 28 + hash_len + 12 + 32, "challenge")
    a, b = struct.unpack_from("<2H", data, 0)
    off = 28 + hash_len
    return {"version": (b, a) if swapped else (a, b), "socc": _u32(data, 4), "uuid": bytes(data[8:24]),
            "revocation": _u32(data, 24), "rkth": bytes(data[28:off]), "pinned": _u32(data, off),
            "default": _u32(data, off + 4), "cc_vu": _u32(data, off + 8), "challenge": bytes(data[off + 12:off + 44])}


def dar_message(dc: bytes, beacon: int, uuid: Optional[bytes], challenge: bytes) -> bytes:
    """What the debug credential key signs: DC || beacon || (UUID in the ECC protocol versions) || challenge."""
    return dc + struct.pack("<L", beacon) + (uuid if uuid is not None else b"") + challenge


def split_dar(data: bytes, dc_len: int, with_uuid: bool) -> dict:
    off = dc_len
    _need(data, off, 4 + (16 if with_uuid else 0), "response")
    out = {"dc": bytes(data[:dc_len]), "beacon": _u32(data, off)}
    off += 4
    if with_uuid:
        out["uuid"] = bytes(data[off:off + 16])
        off += 16
    else:
        out["uuid"] = None
    out["sig_off"] = off
    out["signature"] = bytes(data[off:])
    return out


def verify_dar(dar: dict, dck: dict, dc: bytes, beacon: int, uuid: Optional[bytes], challenge: bytes, pss: bool,
               fast: bool = False) -> bool:
    """Does the response's signature verify, under the DCK, for (credential, beacon, uuid, challenge)?"""
    return verify_sig(dck, dar_message(dc, beacon, uuid, challenge), dar["signature"], pss=pss, fast=fast)


# ---------------------------------------------------------------------------------------------
# calibration on the repository's golden binaries


def selftest(repo: str = "/repo") -> int:
    """Read and verify every golden DC / DAC under tests/dat/data; returns how many files were used."""
    import os

    from vf.ref import der as rder

    d = os.path.join(repo, "tests", "dat", "data")
    kd = os.path.join(repo, "tests", "_data", "keys")

    def pub(rel: str) -> dict:
        label, body = rder.pem_decode(open(os.path.join(kd, rel), "rb").read())
        return rder.parse_rsa_public_pkcs1(body) if label == "RSA PUBLIC KEY" else rder.parse_spki(body)

    n = 0
    golden = [("new_dck_rsa2048.cert", "plain", False, (1, 0), "rsa2048/srk0_rsa2048.pub", "rsa2048/dck_rsa2048.pub", 1),
              ("new_dck_secp256r1.cert", "plain", False, (2, 0), "ecc256/srk0_ecc256.pub", "ecc256/dck_ecc256.pub", 1),
              ("lpc55s3x_dck_secp384r1.cert", "plain", False, (2, 1), None, None, None),
              ("rt118x_ecc256.dc", "ele", True, (2, 0), None, None, 4),
              ("rt118x_rsa2048.dc", "ele", True, (1, 0), None, None, 4)]
    for name, layout, pss, ver, rotf, dckf, cnt in golden:
        p = os.path.join(d, name)
        if not os.path.exists(p):
            continue
        data = open(p, "rb").read()
        dc = parse_dc(data, layout)
        assert dc["version"] == ver, (name, dc["version"])
        assert verify_dc(data, dc, pss), f"{name}: golden credential does not verify"
        assert verify_dc(data, dc, pss, fast=True), name
        assert not verify_dc(data, dc, not pss) or dc["rot_key"]["type"] == "ecc", name
        bad = bytearray(data)
        bad[5] ^= 1
        assert not verify_dc(bytes(bad), dc, pss), name
        if rotf:
            assert dc_names_key(dc, pub(rotf)) is None, (name, dc_names_key(dc, pub(rotf)))
            assert dc["dck"] == pub(dckf), name
        if cnt is not None:
            assert dc["rot_count"] == cnt, (name, dc["rot_count"])
        kind = dc["rot_meta"]["kind"]
        if kind == "ele":
            keys = [r["key"] for r in dc["rot_meta"]["table"]["records"]]
            ca = bool(dc["rot_meta"]["table"]["records"][0]["flags"] & 0x80)
            assert expected_rot_meta("ele", keys, dc["rot_index"], ca) == data[HEAD:dc["regions"]["rot_meta"][1]], name
        elif kind == "ecc":
            meta = dc["rot_meta"]
            if meta["count"] > 1:
                assert meta["items"][meta["used"]] == rot_key_hash(dc["rot_key"]), name
        else:
            assert dc["rot_index"] is not None, name
        n += 1
    for name, hlen, ver, socc in (("sample_dac.bin", 32, (1, 0), 1), ("sample_dac_ecc.bin", 32, (2, 0), 1),
                                  ("sample_dac_lpc55s3x.bin", 48, (2, 1), 4)):
        p = os.path.join(d, name)
        if not os.path.exists(p):
            continue
        data = open(p, "rb").read()
        dac = parse_dac(data, hlen)
        assert len(data) == 72 + hlen and dac["version"] == ver and dac["socc"] == socc, (name, dac)
        assert build_dac(dac["version"], dac["socc"], dac["uuid"], dac["revocation"], dac["rkth"], dac["pinned"],
                         dac["default"], dac["cc_vu"], dac["challenge"]) == data, name
        n += 1
    # AHAB certificates v2 (the EdgeLock v2 credential form), made by the image tool
    ad = os.path.join(repo, "tests", "nxpimage", "data", "ahab")
    for bits in ("256", "384", "521"):
        p = os.path.join(ad, f"ahab_certificate{bits}.bin")
        sk = os.path.join(kd, f"ecc{bits}", f"srk0_ecc{bits}.pub")
        if not (os.path.exists(p) and os.path.exists(sk)):
            continue
        data = open(p, "rb").read()
        cert = parse_cert_v2(data)
        assert cert["keys"][0]["data_hash_ok"] and cert["keys"][0]["srk_id"] == 0, bits
        assert cert["dck"] == pub(f"ecc{bits}/imgkey_ecc{bits}.pub"), bits
        signer = pub(f"ecc{bits}/srk0_ecc{bits}.pub")
        assert verify_cert_v2(data, cert, signer) and verify_cert_v2(data, cert, signer, fast=True), bits
        bad = bytearray(data)
        bad[25] ^= 0x40
        assert not verify_cert_v2(bytes(bad), cert, signer), bits
        assert build_cert_v2_body(cert["socc"], cert["cc_socu"], cert["cc_beacon"], cert["fuse_version"], cert["uuid"],
                                  cert["dck"], signer, cert["permissions"]) == data[:cert["sig_off"]], bits
        n += 1
    # own SRK table builder against a golden table, byte for byte
    p = os.path.join(d, "rt118x_ecc256.dc")
    if os.path.exists(p):
        data = open(p, "rb").read()
        dc = parse_dc(data, "ele")
        assert build_srk_table([r["key"] for r in dc["rot_meta"]["table"]["records"]]) == dc["rot_meta"]["table"]["bytes"]
    return n


if __name__ == "__main__":
    print("dat_ref selftest: golden files used:", selftest())
