"""Own NIST P-256 / P-384 / P-521 arithmetic and ECDSA (FIPS 186-4 6.4, SEC 1 v2 4.1) on plain
Python integers.  Written from the standards; no spsdk, no `cryptography`, no OpenSSL.

Points are affine tuples (x, y) or None (infinity); the scalar multiplication works in Jacobian
coordinates (a = -3).  `selftest()` proves the domain parameters (primality of p and n, G on the
curve, n*G = O) and runs RFC 6979 A.2.5-A.2.7 vectors plus signatures produced by OpenSSL.
"""
from __future__ import annotations

import hashlib
from typing import Optional

from vf.ref import der


class Curve:
    def __init__(self, name: str, p: int, b: int, gx: int, gy: int, n: int):
        self.name = name
        self.p = p
        self.a = p - 3
        self.b = b
        self.g = (gx, gy)
        self.n = n
        self.nbits = n.bit_length()
        self.size = (p.bit_length() + 7) // 8  # coordinate / r / s width in bytes
        self._gtab: Optional[list] = None

    def __repr__(self) -> str:
        return f"Curve({self.name})"


P256 = Curve(
    "secp256r1",
    0xFFFFFFFF00000001000000000000000000000000FFFFFFFFFFFFFFFFFFFFFFFF,
    0x5AC635D8AA3A93E7B3EBBD55769886BC651D06B0CC53B0F63BCE3C3E27D2604B,
    0x6B17D1F2E12C4247F8BCE6E563A440F277037D812DEB33A0F4A13945D898C296,
    0x4FE342E2FE1A7F9B8EE7EB4A7C0F9E162BCE33576B315ECECBB6406837BF51F5,
    0xFFFFFFFF00000000FFFFFFFFFFFFFFFFBCE6FAADA7179E84F3B9CAC2FC632551,
)
P384 = Curve(
    "secp384r1",
    2**384 - 2**128 - 2**96 + 2**32 - 1,
    0xB3312FA7E23EE7E4988E056BE3F82D19181D9C6EFE8141120314088F5013875AC656398D8A2ED19D2A85C8EDD3EC2AEF,
    0xAA87CA22BE8B05378EB1C71EF320AD746E1D3B628BA79B9859F741E082542A385502F25DBF55296C3A545E3872760AB7,
    0x3617DE4A96262C6F5D9E98BF9292DC29F8F41DBD289A147CE9DA3113B5F0B8C00A60B1CE1D7E819D7A431D7C90EA0E5F,
    0xFFFFFFFFFFFFFFFFFFFFFFFFFFFFFFFFFFFFFFFFFFFFFFFFC7634D81F4372DDF581A0DB248B0A77AECEC196ACCC52973,
)
P521 = Curve(
    "secp521r1",
    2**521 - 1,
    0x0051953EB9618E1C9A1F929A21A0B68540EEA2DA725B99B315F3B8B489918EF109E156193951EC7E937B1652C0BD3BB1BF073573DF883D2C34F1EF451FD46B503F00,
    0x00C6858E06B70404E9CD9E3ECB662395B4429C648139053FB521F828AF606B4D3DBAA14B5E77EFE75928FE1DC127A2FFA8DE3348B3C1856A429BF97E7E31C2E5BD66,
    0x011839296A789A3BC0045C8A5FB42C7D1BD998F54449579B446817AFBD17273E662C97EE72995EF42640C550B9013FAD0761353C7086A272C24088BE94769FD16650,
    0x01FFFFFFFFFFFFFFFFFFFFFFFFFFFFFFFFFFFFFFFFFFFFFFFFFFFFFFFFFFFFFFFFFA51868783BF2F966B7FCC0148F709A5D03BB5C9B8899C47AEBB6FB71E91386409,
)
CURVES = {c.name: c for c in (P256, P384, P521)}
HASH_BITS = {"sha1": 160, "sha256": 256, "sha384": 384, "sha512": 512}


# ---------------------------------------------------------------------------------------------
# affine reference arithmetic (slow, obviously right) — used by the self-test to validate the
# Jacobian code and for small jobs


def on_curve(c: Curve, pt) -> bool:
    if pt is None:
        return False
    x, y = pt
    if not (0 <= x < c.p and 0 <= y < c.p):
        return False
    return (y * y - (x * x * x + c.a * x + c.b)) % c.p == 0


def affine_add(c: Curve, p1, p2):
    if p1 is None:
        return p2
    if p2 is None:
        return p1
    x1, y1 = p1
    x2, y2 = p2
    if x1 == x2:
        if (y1 + y2) % c.p == 0:
            return None
        lam = (3 * x1 * x1 + c.a) * pow(2 * y1, -1, c.p) % c.p
    else:
        lam = (y2 - y1) * pow(x2 - x1, -1, c.p) % c.p
    x3 = (lam * lam - x1 - x2) % c.p
    return x3, (lam * (x1 - x3) - y1) % c.p


def affine_mul(c: Curve, k: int, pt):
    acc = None
    add = pt
    while k:
        if k & 1:
            acc = affine_add(c, acc, add)
        add = affine_add(c, add, add)
        k >>= 1
    return acc


# ---------------------------------------------------------------------------------------------
# Jacobian arithmetic (X, Y, Z) ~ (X/Z^2, Y/Z^3); infinity = Z == 0


def _jdbl(c: Curve, P):
    X1, Y1, Z1 = P
    if Z1 == 0 or Y1 == 0:
        return (1, 1, 0)
    p = c.p
    delta = Z1 * Z1 % p
    gamma = Y1 * Y1 % p
    beta = X1 * gamma % p
    alpha = 3 * (X1 - delta) * (X1 + delta) % p
    X3 = (alpha * alpha - 8 * beta) % p
    Z3 = ((Y1 + Z1) * (Y1 + Z1) - gamma - delta) % p
    Y3 = (alpha * (4 * beta - X3) - 8 * gamma * gamma) % p
    return (X3, Y3, Z3)


def _jadd_affine(c: Curve, P, q):
    """P (Jacobian) + q (affine, not infinity)."""
    X1, Y1, Z1 = P
    x2, y2 = q
    if Z1 == 0:
        return (x2, y2, 1)
    p = c.p
    Z1Z1 = Z1 * Z1 % p
    U2 = x2 * Z1Z1 % p
    S2 = y2 * Z1 * Z1Z1 % p
    H = (U2 - X1) % p
    R = (S2 - Y1) % p
    if H == 0:
        if R == 0:
            return _jdbl(c, P)
        return (1, 1, 0)
    H2 = H * H % p
    H3 = H * H2 % p
    V = X1 * H2 % p
    X3 = (R * R - H3 - 2 * V) % p
    Y3 = (R * (V - X3) - Y1 * H3) % p
    Z3 = Z1 * H % p
    return (X3, Y3, Z3)


def _to_affine(c: Curve, P):
    X, Y, Z = P
    if Z == 0:
        return None
    zi = pow(Z, -1, c.p)
    zi2 = zi * zi % c.p
    return (X * zi2 % c.p, Y * zi2 * zi % c.p)


def mul(c: Curve, k: int, pt):
    """k * pt (affine in, affine out)."""
    k %= c.n
    if pt is None or k == 0:
        return None
    acc = (1, 1, 0)
    for i in range(k.bit_length() - 1, -1, -1):
        acc = _jdbl(c, acc)
        if (k >> i) & 1:
            acc = _jadd_affine(c, acc, pt)
    return _to_affine(c, acc)


def mul2(c: Curve, u1: int, u2: int, q):
    """u1*G + u2*q by simultaneous double-and-add (Straus/Shamir)."""
    g = c.g
    gq = affine_add(c, g, q)  # may be None when q == -G
    acc = (1, 1, 0)
    for i in range(max(u1.bit_length(), u2.bit_length()) - 1, -1, -1):
        acc = _jdbl(c, acc)
        b1 = (u1 >> i) & 1
        b2 = (u2 >> i) & 1
        if b1 and b2:
            if gq is not None:
                acc = _jadd_affine(c, acc, gq)
        elif b1:
            acc = _jadd_affine(c, acc, g)
        elif b2:
            acc = _jadd_affine(c, acc, q)
    return _to_affine(c, acc)


# ---------------------------------------------------------------------------------------------
# ECDSA


def bits2int(c: Curve, digest: bytes) -> int:
    """Leftmost min(hlen, nbits) bits of the digest as an integer (FIPS 186-4 6.4, SEC 1 4.1.3 step 5)."""
    e = int.from_bytes(digest, "big")
    extra = 8 * len(digest) - c.nbits
    if extra > 0:
        e >>= extra
    return e


def verify_digest(c: Curve, q, digest: bytes, r: int, s: int) -> bool:
    if not on_curve(c, q):
        return False
    if not (1 <= r < c.n and 1 <= s < c.n):
        return False
    e = bits2int(c, digest)
    w = pow(s, -1, c.n)
    u1 = e * w % c.n
    u2 = r * w % c.n
    R = mul2(c, u1, u2, q)
    if R is None:
        return False
    return R[0] % c.n == r


def verify(c: Curve, q, hash_name: str, msg: bytes, r: int, s: int) -> bool:
    return verify_digest(c, q, hashlib.new(hash_name, msg).digest(), r, s)


def split_raw(c: Curve, sig: bytes) -> Optional[tuple[int, int]]:
    """Fixed-width r||s (the 'NXP'/IEEE P1363 form)."""
    if len(sig) != 2 * c.size:
        return None
    return int.from_bytes(sig[:c.size], "big"), int.from_bytes(sig[c.size:], "big")


def split_der(sig: bytes) -> Optional[tuple[int, int]]:
    try:
        return der.decode_ecdsa_sig(sig)
    except der.DerError:
        return None


def verify_sig(c: Curve, q, digest: bytes, sig: bytes, encoding: str) -> bool:
    """encoding 'raw' | 'der' — the caller states what the bytes are meant to be."""
    rs = split_raw(c, sig) if encoding == "raw" else split_der(sig)
    if rs is None:
        return False
    return verify_digest(c, q, digest, rs[0], rs[1])


def sign_digest(c: Curve, d: int, k: int, digest: bytes) -> Optional[tuple[int, int]]:
    """ECDSA signature with a caller-chosen nonce (for constructing oracle inputs); None if r or s = 0."""
    R = mul(c, k, c.g)
    if R is None:
        return None
    r = R[0] % c.n
    if r == 0:
        return None
    s = pow(k, -1, c.n) * (bits2int(c, digest) + r * d) % c.n
    if s == 0:
        return None
    return r, s


# ---------------------------------------------------------------------------------------------


def _is_prime(n: int) -> bool:
    if n < 2:
        return False
    small = (2, 3, 5, 7, 11, 13, 17, 19, 23, 29, 31, 37, 41, 43, 47, 53)
    for q in small:
        if n % q == 0:
            return n == q
    d = n - 1
    r = 0
    while d % 2 == 0:
        d //= 2
        r += 1
    for a in small:  # deterministic bases: a proof for n < 3.3e24, a 2^-32+ test beyond; enough for known constants
        x = pow(a, d, n)
        if x in (1, n - 1):
            continue
        for _ in range(r - 1):
            x = x * x % n
            if x == n - 1:
                break
        else:
            return False
    return True


# RFC 6979 appendix A.2.5 / A.2.6 / A.2.7: (curve, private key, Ux, Uy, [(hash, message, k, r, s)])
_RFC6979 = [
    (P256,
     0xC9AFA9D845BA75166B5C215767B1D6934E50C3DB36E89B127B8A622B120F6721,
     0x60FED4BA255A9D31C961EB74C6356D68C049B8923B61FA6CE669622E60F29FB6,
     0x7903FE1008B8BC99A41AE9E95628BC64F2F1B20C2D7E9F5177A3C294D4462299,
     [("sha256", b"sample",
       0xA6E3C57DD01ABE90086538398355DD4C3B17AA873382B0F24D6129493D8AAD60,
       0xEFD48B2AACB6A8FD1140DD9CD45E81D69D2C877B56AAF991C34D0EA84EAF3716,
       0xF7CB1C942D657C41D436C7A1B6E29F65F3E900DBB9AFF4064DC4AB2F843ACDA8),
      ("sha256", b"test",
       0xD16B6AE827F17175E040871A1C7EC3500192C4C92677336EC2537ACAEE0008E0,
       0xF1ABB023518351CD71D881567B1EA663ED3EFCF6C5132B354F28D3B0B7D38367,
       0x019F4113742A2B14BD25926B49C649155F267E60D3814B4C0CC84250E46F0083)]),
    (P384,
     0x6B9D3DAD2E1B8C1C05B19875B6659F4DE23C3B667BF297BA9AA47740787137D896D5724E4C70A825F872C9EA60D2EDF5,
     0xEC3A4E415B4E19A4568618029F427FA5DA9A8BC4AE92E02E06AAE5286B300C64DEF8F0EA9055866064A254515480BC13,
     0x8015D9B72D7D57244EA8EF9AC0C621896708A59367F9DFB9F54CA84B3F1C9DB1288B231C3AE0D4FE7344FD2533264720,
     [("sha384", b"sample",
       0x94ED910D1A099DAD3254E9242AE85ABDE4BA15168EAF0CA87A555FD56D10FBCA2907E3E83BA95368623B8C4686915CF9,
       0x94EDBB92A5ECB8AAD4736E56C691916B3F88140666CE9FA73D64C4EA95AD133C81A648152E44ACF96E36DD1E80FABE46,
       0x99EF4AEB15F178CEA1FE40DB2603138F130E740A19624526203B6351D0A3A94FA329C145786E679E7B82C71A38628AC8)]),
]


def selftest(fast: bool = False) -> None:
    for c in CURVES.values():
        assert _is_prime(c.p) and _is_prime(c.n), c
        assert on_curve(c, c.g), c
        assert mul(c, c.n - 1, c.g) == (c.g[0], c.p - c.g[1]), c
        assert affine_add(c, mul(c, c.n - 1, c.g), c.g) is None, c
        # Hasse bound: |n - (p+1)| <= 2 sqrt(p)  (cofactor 1)
        assert (c.n - c.p - 1) ** 2 <= 4 * c.p, c
        # Jacobian vs affine code on small and awkward scalars
        for k in (1, 2, 3, 4, 5, 0xFFFF, c.n - 2, (1 << (c.nbits - 1)) + 12345):
            assert mul(c, k, c.g) == affine_mul(c, k, c.g), (c, k)
        q = mul(c, 0x1234567, c.g)
        for u1, u2 in ((1, 1), (0, 5), (5, 0), (c.n - 1, 1), (0xABCDEF, c.n - 0x1234567)):
            exp = affine_add(c, affine_mul(c, u1, c.g), affine_mul(c, u2, q))
            assert mul2(c, u1, u2, q) == exp, (c, u1, u2)
        # q == -G exercises the G+Q = O branch; q == G the doubling branch of the precomputation
        assert mul2(c, 7, 3, (c.g[0], c.p - c.g[1])) == affine_mul(c, 4, c.g)
        assert mul2(c, 7, 3, c.g) == affine_mul(c, 10, c.g)
    for c, d, ux, uy, vecs in _RFC6979:
        assert mul(c, d, c.g) == (ux, uy), ("RFC 6979 public key", c)
        for h, msg, k, r, s in vecs:
            dg = hashlib.new(h, msg).digest()
            assert sign_digest(c, d, k, dg) == (r, s), ("RFC 6979 signature", c, msg)
            assert verify(c, (ux, uy), h, msg, r, s)
            assert not verify(c, (ux, uy), h, msg + b"x", r, s)
            assert not verify(c, (ux, uy), h, msg, r, s ^ 1)
            assert not verify(c, (ux, uy), h, msg, r ^ 1, s)
            assert not verify(c, (ux, uy), h, msg, 0, s) and not verify(c, (ux, uy), h, msg, r, c.n)
            # truncation of a longer hash (bits2int): sign with sha512 and check
            dg2 = hashlib.sha512(msg).digest()
            rs = sign_digest(c, d, k, dg2)
            assert rs and verify_digest(c, (ux, uy), dg2, *rs)
            if c is not P521:
                # bits beyond nbits must not matter, bits inside must
                dg3 = dg2[:-1] + bytes([dg2[-1] ^ 1])
                assert verify_digest(c, (ux, uy), dg3, *rs)
                dg4 = bytes([dg2[0] ^ 0x80]) + dg2[1:]
                assert not verify_digest(c, (ux, uy), dg4, *rs)
    # P-521 bits2int: 512-bit digest is not truncated; a 66-byte "digest" would lose 7 bits
    assert bits2int(P521, b"\xff" * 64) == 2**512 - 1
    assert bits2int(P521, b"\xff" * 66) == 2**521 - 1
    assert bits2int(P256, b"\x80" + b"\0" * 63) == 1 << 255
    if not fast:
        _selftest_openssl_vectors()


def _selftest_openssl_vectors() -> None:
    """Signatures made by OpenSSL (fixture certificates, self-signed with the pool's ECC keys): the
    public key comes from the fixture numbers, tbs/signature from the own DER reader."""
    import json
    import os

    fx = os.path.join(os.path.dirname(os.path.dirname(os.path.dirname(os.path.abspath(__file__)))), "fixtures")
    idx = json.load(open(os.path.join(fx, "keys", "index.json")))
    n = 0
    for name, k in sorted(idx.items()):
        if k["type"] != "ecc":
            continue
        c = CURVES[k["curve"]]
        q = (int(k["x"], 16), int(k["y"], 16))
        assert mul(c, int(k["d"], 16), c.g) == q, ("fixture public key", name)
        path = os.path.join(fx, "certs", f"{name}_selfsigned.der")
        if not os.path.exists(path):
            continue
        cert = der.parse_certificate(open(path, "rb").read())
        assert cert["sig_alg"][0] == "ecdsa"
        assert (cert["spki"]["x"], cert["spki"]["y"]) == q
        dg = hashlib.new(cert["sig_alg"][1], cert["tbs"]).digest()
        assert verify_sig(c, q, dg, cert["signature"], "der"), ("OpenSSL-made certificate signature", name)
        bad = bytearray(cert["tbs"])
        bad[-1] ^= 1
        assert not verify_sig(c, q, hashlib.new(cert["sig_alg"][1], bytes(bad)).digest(), cert["signature"], "der")
        n += 1
    assert n >= 12, n


if __name__ == "__main__":
    import time

    t = time.time()
    selftest()
    print(f"ecdsa selftest ok ({time.time() - t:.2f}s)")
    for c in CURVES.values():
        q = mul(c, 12345, c.g)
        t = time.time()
        for i in range(20):
            verify_digest(c, q, b"\x55" * 32, 5 + i, 7)
        print(c.name, f"{(time.time() - t) / 20 * 1000:.2f} ms/verify")
