"""Reference model of a tree of binary images (oracle of C16).  No spsdk imports.

Written from the property text and the class/constructor docstrings of `BinaryImage`:

* an image has an offset inside its parent, an optional explicit size, an alignment "of the
  result image", optional own binary content (placed at the image start) and an optional fill
  pattern (no pattern = zeros);
* length rule: the explicit size wins, otherwise the largest of own binary and sub-image ends;
  either way rounded **up** to the alignment - alignment only ever extends the end, never moves
  the start;
* memory picture: a dict address -> byte, painted parent first (fill, then own binary), then the
  sub-images on top, recursively, each at parent start + its offset;
* layout predicate: a sub-image sticks out of its parent (offset + length > parent length) or two
  siblings share at least one byte;
* add keeps the sub-images ordered by offset, append places the new image at the current length.

Everything is deliberately boring: small recursive functions over `Node` objects.
"""
from __future__ import annotations

from typing import Iterator, Optional

PATTERNS = (None, "zeros", "ones", "0xA5", "inc")


class Node:
    __slots__ = ("offset", "size", "alignment", "binary", "pattern", "children", "parent", "tag")

    def __init__(self, offset: int = 0, size: int = 0, alignment: int = 1,
                 binary: Optional[bytes] = None, pattern: Optional[str] = None, tag=None):
        self.offset = offset
        self.size = size  # explicit size as requested by the user; 0 = derive
        self.alignment = alignment
        self.binary = binary
        self.pattern = pattern
        self.children: list["Node"] = []
        self.parent: Optional["Node"] = None
        self.tag = tag


def round_up(n: int, a: int) -> int:
    r = n % a
    return n if r == 0 else n + (a - r)


def fill_byte(pattern: Optional[str], i: int) -> int:
    """Byte number i (counted from the start of the image that owns the pattern)."""
    if pattern is None or pattern == "zeros":
        return 0x00
    if pattern == "ones":
        return 0xFF
    if pattern == "inc":
        return i % 256
    if pattern.lower().startswith("0x") and len(pattern) == 4:
        return int(pattern[2:], 16)
    raise ValueError(f"pattern {pattern!r} is outside the model")


def length(n: Node) -> int:
    if n.size:
        return round_up(n.size, n.alignment)
    end = len(n.binary) if n.binary else 0
    for c in n.children:
        e = c.offset + length(c)
        if e > end:
            end = e
    return round_up(end, n.alignment)


def abs_address(n: Node) -> int:
    a = n.offset
    p = n.parent
    while p is not None:
        a += p.offset
        p = p.parent
    return a


def walk(n: Node) -> Iterator[Node]:
    yield n
    for c in n.children:
        yield from walk(c)


def oversize_nodes(n: Node) -> list[Node]:
    """Nodes whose own binary is longer than the length they report (only possible with an
    explicit size): the picture of such a node is not defined by the property - an implementation
    has to refuse it or keep the content inside the reported length."""
    return [x for x in walk(n) if x.binary and len(x.binary) > length(x)]


# ---------------------------------------------------------------------------------------------
# construction steps


def add(parent: Node, child: Node) -> None:
    child.parent = parent
    i = 0
    while i < len(parent.children) and parent.children[i].offset <= child.offset:
        i += 1
    parent.children.insert(i, child)


def append(parent: Node, child: Node) -> None:
    child.offset = length(parent)
    add(parent, child)


# ---------------------------------------------------------------------------------------------
# layout predicate


def layout_errors(n: Node) -> list[tuple]:
    """All reasons why the tree under n is an illegal layout (empty list = legal)."""
    out: list[tuple] = []
    ln = length(n)
    kids = n.children
    for c in kids:
        out.extend(layout_errors(c))
        if c.offset + length(c) > ln:
            out.append(("sticks-out", c.tag, n.tag))
    for i in range(len(kids)):
        a0 = kids[i].offset
        a1 = a0 + length(kids[i])
        for j in range(i + 1, len(kids)):
            b0 = kids[j].offset
            b1 = b0 + length(kids[j])
            if max(a0, b0) < min(a1, b1):
                out.append(("overlap", kids[i].tag, kids[j].tag))
    return out


def empty_inside_sibling(n: Node) -> bool:
    """An image of length 0 positioned strictly inside a sibling: shares no byte with it, so the
    predicate says 'legal', but whether an empty image may sit there is not fixed by the
    property.  The check treats the verdict on such trees as a don't-care."""
    for x in walk(n):
        kids = x.children
        for a in kids:
            if length(a) != 0:
                continue
            for b in kids:
                if b is not a and b.offset < a.offset < b.offset + length(b):
                    return True
    return False


# ---------------------------------------------------------------------------------------------
# memory picture


def paint(n: Node, base: int, mem: dict[int, int]) -> None:
    ln = length(n)
    p = n.pattern
    for i in range(ln):
        mem[base + i] = fill_byte(p, i)
    if n.binary:
        for i, b in enumerate(n.binary):
            mem[base + i] = b
    for c in n.children:
        paint(c, base + c.offset, mem)


def picture(root: Node, base: Optional[int] = None) -> dict[int, int]:
    """address -> byte of the whole tree; addresses start at `base` (default: root offset)."""
    mem: dict[int, int] = {}
    paint(root, root.offset if base is None else base, mem)
    return mem


def flat(n: Node) -> bytes:
    """The picture of n as a buffer of its own length (addresses relative to n's start).  Only
    meaningful for legal layouts (nothing is painted outside [0, length))."""
    mem: dict[int, int] = {}
    paint(n, 0, mem)
    return bytes(mem[i] for i in range(length(n)))


def stated_addresses(n: Node, base: int, out: set[int]) -> None:
    """Addresses whose value is *stated* by the tree: own binaries and explicit patterns.
    The implicit zero fill of a pattern-less image is 'absent' data: a sparse file format (HEX,
    S-record) is free to leave those addresses out (it must not put anything else there)."""
    if n.pattern is not None:
        out.update(range(base, base + length(n)))
    if n.binary:
        out.update(range(base, base + len(n.binary)))
    for c in n.children:
        stated_addresses(c, base + c.offset, out)


# ---------------------------------------------------------------------------------------------
# queries and whole-tree operations


def lookup(root: Node, address: int) -> Optional[Node]:
    """Deepest image that contains the absolute address (None: outside of the root)."""

    def rec(n: Node, base: int) -> Optional[Node]:
        if not base <= address < base + length(n):
            return None
        for c in n.children:
            r = rec(c, base + c.offset)
            if r is not None:
                return r
        return n

    return rec(root, root.offset)


def join(n: Node) -> None:
    data = flat(n)
    n.children = []
    n.binary = data


def shift_to_first_child(n: Node) -> int:
    """update_offsets: the offset of the first sub-image moves into the image's own offset, so
    that every sub-image keeps its absolute address."""
    m = min(c.offset for c in n.children)
    for c in n.children:
        c.offset -= m
    n.offset += m
    return m


def canon(n: Node) -> tuple:
    """Order-insensitive (among equal offsets) canonical form of the tree; explicit size is the
    aligned value (what the image reports)."""
    return (n.offset, round_up(n.size, n.alignment) if n.size else 0, n.alignment,
            n.binary or b"", n.pattern or "", tuple(sorted(canon(c) for c in n.children)))
