"""Independent model of the boot ROM's Secure Binary 3.1 loader.

Works on bytes + the part-common key (PCK) + the root public keys (trust anchor) only.  Written from the format
description (DESIGN §28 "SB 3.1", "Cert block v2.1"; LPC55S3x/MCXN ROM "SB3.1 file format" chapters); uses
`hashlib`, the `cryptography` ECDSA primitive and a raw AES-ECB core from `cryptography`; CMAC (SP 800-38B), the
SP 800-108 counter-mode KDF, CBC chaining, the layout walk and the decoder of the 14 commands are written here.
No spsdk imports.

File layout
-----------
block 0:   header (60 B) | H(data block 1) | certificate block v2.1 | ECDSA signature r || s over everything before it
header     `<4s2H3LQ4L16s`: "sbv3" | minor 1 | major 3 | flags | block count | block size | timestamp u64
           | firmware version | total length of block 0 | image type (6 = normal, 7 = NXP container)
           | certificate block offset (= 60 + hash size) | description (16 B)
           block size = 4 + 256 + hash size, hash = SHA-256 (signing key on P-256) or SHA-384 (P-384)
data block i (1..n), `block size` bytes each, contiguous after block 0 up to the end of the file:
           u32 i | H(data block i+1) (zeros in the last block) | AES-CBC(key_i, IV = 0, 256-byte chunk)
keys       KDK   = KDF(PCK, constant = timestamp,    mode KDK)
           key_i = KDF(KDK, constant = block number, mode BLK)
           KDF(K, c, mode) = CMAC(K, D(1)) [|| CMAC(K, D(2)) for 256-bit keys]
           D(j) = LE96(c) | 0^8 | (rights << 6) | (01 for KDK, 10 for BLK) | 00 | (20 for 128, 21 for 256 bit)
                  | BE32(key bits) | BE32(j)
           key bits = 128 with SHA-256 blocks, 256 with SHA-384 blocks
plain stream = chunk 1 | chunk 2 | ... = section header `<4L` (uid 1, type 1, length of the commands, 0) | commands
           | zero padding up to the 256-byte chunk boundary
command    range header `<4L`: 0x55AAAA55 | start address | length | command tag, then per command (see decode_command):
           erase / fillMemory: + 16 B block (memory id | pattern, 3 reserved words); copy: + 16 B block (destination,
           memory id from, memory id to, reserved); load / loadCMAC / loadHashLocking: + 16 B memory-id block + data
           padded to 16 (+ 64 B hash area for loadHashLocking); programFuses (length = number of 32-bit words) /
           programIFR: + data padded to 16; loadKeyBlob: address word = offset (low half) | key-wrap id (high half),
           + blob padded to 16; configureMemory: address word = memory id, length word = configuration address;
           checkFwVersion: address word = value, length word = counter id; execute / call / reset: header only.
"""
from __future__ import annotations

import hashlib
import struct
from typing import Any, Optional

from cryptography.hazmat.primitives.ciphers import Cipher, algorithms, modes

from vf.ref import certblock_v21 as cb21

HDR_FMT = "<4s2H3LQ4L16s"
HDR_SIZE = struct.calcsize(HDR_FMT)
assert HDR_SIZE == 60
CHUNK = 256
CMD_MAGIC = 0x55AAAA55
MODE_KDK = 1
MODE_BLK = 2

CMD_NAMES = {1: "erase", 2: "load", 3: "execute", 4: "call", 5: "programFuses", 6: "programIFR", 7: "loadCMAC",
             8: "copy", 9: "loadHashLocking", 0xA: "loadKeyBlob", 0xB: "configureMemory", 0xC: "fillMemory",
             0xD: "checkFwVersion", 0xE: "reset"}


class RomReject(Exception):
    """The ROM would refuse the file at `stage`."""

    def __init__(self, stage: str, msg: str = ""):
        super().__init__(f"{stage}: {msg}")
        self.stage = stage
        self.msg = msg


# ---------------------------------------------------------------------------------------------
# primitives: AES-ECB core (library), CMAC / KDF / CBC (here)


class _Ecb:
    def __init__(self, key: bytes):
        if len(key) not in (16, 32):
            raise RomReject("key", f"AES key of {len(key)} bytes")
        c = Cipher(algorithms.AES(key), modes.ECB())  # nosec - raw block primitive, the modes are written below
        self._e = c.encryptor()
        self._d = c.decryptor()

    def enc(self, block: bytes) -> bytes:
        return self._e.update(block)

    def dec(self, blocks: bytes) -> bytes:
        return self._d.update(blocks)


def _xor(a: bytes, b: bytes) -> bytes:
    return (int.from_bytes(a, "big") ^ int.from_bytes(b, "big")).to_bytes(len(a), "big")


def _dbl(b: bytes) -> bytes:
    v = int.from_bytes(b, "big") << 1
    if v >> 128:
        v = (v & ((1 << 128) - 1)) ^ 0x87
    return v.to_bytes(16, "big")


def cmac(key: bytes, msg: bytes) -> bytes:
    """AES-CMAC, NIST SP 800-38B."""
    e = _Ecb(key)
    k1 = _dbl(e.enc(bytes(16)))
    k2 = _dbl(k1)
    nblk = max(1, (len(msg) + 15) // 16)
    last = msg[16 * (nblk - 1):]
    if len(last) == 16:
        last = _xor(last, k1)
    else:
        last = _xor(last + b"\x80" + bytes(15 - len(last)), k2)
    x = bytes(16)
    for i in range(nblk - 1):
        x = e.enc(_xor(x, msg[16 * i:16 * i + 16]))
    return e.enc(_xor(x, last))


def kdf_data(constant: int, rights: int, mode: int, bits: int, iteration: int) -> bytes:
    if not 0 <= constant < 1 << 96:
        raise RomReject("kdf", "derivation constant outside 96 bits")
    if rights not in (0, 1, 2, 3) or bits not in (128, 256) or mode not in (MODE_KDK, MODE_BLK):
        raise RomReject("kdf", "outside the KDF domain")
    return (constant.to_bytes(12, "little") + bytes(8) + bytes([rights << 6, 0x01 if mode == MODE_KDK else 0x10, 0x00,
                                                                 0x20 if bits == 128 else 0x21])
            + struct.pack(">LL", bits, iteration))


def kdf(key: bytes, constant: int, rights: int, mode: int, bits: int) -> bytes:
    out = cmac(key, kdf_data(constant, rights, mode, bits, 1))
    if bits == 256:
        out += cmac(key, kdf_data(constant, rights, mode, bits, 2))
    return out


def cbc_decrypt_zero_iv(key: bytes, data: bytes) -> bytes:
    if len(data) % 16:
        raise RomReject("block-size", "ciphertext is not a multiple of 16")
    plain = _Ecb(key).dec(data)
    prev = bytes(16) + data[:-16]
    return _xor(plain, prev) if data else b""


def _selftest() -> None:
    # SP 800-38B D.1 (AES-128) examples 1..3, D.3 (AES-256) example 2
    k = bytes.fromhex("2b7e151628aed2a6abf7158809cf4f3c")
    m = bytes.fromhex("6bc1bee22e409f96e93d7e117393172aae2d8a571e03ac9c9eb76fac45af8e5130c81c46a35ce411")
    assert cmac(k, b"").hex() == "bb1d6929e95937287fa37d129b756746"
    assert cmac(k, m[:16]).hex() == "070a16b46b4d4144f79bdd9dd04a287c"
    assert cmac(k, m).hex() == "dfa66747de9ae63030ca32611497c827"
    k256 = bytes.fromhex("603deb1015ca71be2b73aef0857d77811f352c073b6108d72d9810a30914dff4")
    assert cmac(k256, m[:16]).hex() == "28a7023f452e8f82bd4bf28d8c37c35c"
    # SP 800-38A F.2.1 CBC-AES128 with the IV folded in: decrypting with a zero IV gives P1 xor IV
    iv = bytes.fromhex("000102030405060708090a0b0c0d0e0f")
    ct = bytes.fromhex("7649abac8119b246cee98e9b12e9197d5086cb9b507219ee95db113a917678b2")
    pt = cbc_decrypt_zero_iv(k, ct)
    assert _xor(pt[:16], iv).hex() == "6bc1bee22e409f96e93d7e117393172a" and pt[16:].hex() == "ae2d8a571e03ac9c9eb76fac45af8e51"


_selftest()


# ---------------------------------------------------------------------------------------------
# command decoder (own, 14 cases).  Every decoder returns (dict, bytes consumed).


def _pad16(n: int) -> int:
    return (n + 15) & ~15


class _Cur:
    def __init__(self, stream: bytes, pos: int, notes: list, index: int):
        self.s = stream
        self.pos = pos
        self.notes = notes
        self.index = index

    def take(self, n: int, what: str) -> bytes:
        if n < 0 or self.pos + n > len(self.s):
            raise RomReject("cmd-truncated", f"command {self.index}: {what} ({n} B at {self.pos}) runs past the section end "
                                              f"({len(self.s)} B)")
        b = self.s[self.pos:self.pos + n]
        self.pos += n
        return b

    def words4(self, what: str) -> tuple:
        return struct.unpack("<4L", self.take(16, what))

    def data(self, n: int, what: str) -> bytes:
        d = self.take(n, what)
        pad = self.take(_pad16(n) - n, what + " padding")
        if any(pad):
            self.notes.append(f"cmd{self.index}:data-padding-nonzero")
        return d


def _reserved(cur: _Cur, name: str, *words: int) -> None:
    if any(words):
        cur.notes.append(f"cmd{cur.index}:{name}:reserved-nonzero")


def decode_command(stream: bytes, pos: int, notes: list, index: int) -> tuple:
    cur = _Cur(stream, pos, notes, index)
    raw = cur.take(16, "range header")
    magic, w1, w2, tag = struct.unpack("<4L", raw)
    if magic != CMD_MAGIC:
        raise RomReject("cmd-magic", f"command {index} at stream offset {pos}: tag word {magic:#010x}")
    name = CMD_NAMES.get(tag)
    if name is None:
        raise RomReject("cmd-tag", f"command {index}: unknown command tag {tag:#x}")
    c: dict[str, Any] = {"cmd": name}
    if name == "erase":  # range header + memory-id block
        mem, p0, p1, p2 = cur.words4("memory-id block")
        _reserved(cur, name, p0, p1, p2)
        c.update(address=w1, length=w2, memory_id=mem)
    elif name in ("load", "loadCMAC", "loadHashLocking"):  # range header + memory-id block + data padded to 16
        mem, p0, p1, p2 = cur.words4("memory-id block")
        _reserved(cur, name, p0, p1, p2)
        c.update(address=w1, memory_id=mem, data=cur.data(w2, "load data"))
        if name == "loadHashLocking":  # followed by 64 bytes the ROM overwrites with the computed hash
            c["hash_area"] = cur.take(64, "hash-locking area")
    elif name in ("execute", "call"):
        c.update(address=w1, length_word=w2)
    elif name == "programFuses":  # length counts 32-bit fuse words; the words follow the range header
        d = cur.data(4 * w2, "fuse words")
        c.update(address=w1, words=list(struct.unpack(f"<{w2}L", d)))
    elif name == "programIFR":
        c.update(address=w1, data=cur.data(w2, "IFR data"))
    elif name == "copy":
        dst, mfrom, mto, p0 = cur.words4("copy block")
        _reserved(cur, name, p0)
        c.update(address=w1, length=w2, destination=dst, memory_id_from=mfrom, memory_id_to=mto)
    elif name == "loadKeyBlob":  # the start-address word is split: low half = offset, high half = key-wrap id
        c.update(offset=w1 & 0xFFFF, key_wrap_id=w1 >> 16, data=cur.data(w2, "key blob"))
    elif name == "configureMemory":  # start-address word = memory id, length word = address of the configuration
        c.update(memory_id=w1, address=w2)
    elif name == "fillMemory":
        pat, p0, p1, p2 = cur.words4("pattern block")
        _reserved(cur, name, p0, p1, p2)
        c.update(address=w1, length=w2, pattern=pat)
    elif name == "checkFwVersion":  # start-address word = value, length word = counter id
        c.update(value=w1, counter_id=w2)
    elif name == "reset":
        c.update(address_word=w1, length_word=w2)
    c["raw"] = stream[pos:cur.pos]
    return c, cur.pos - pos


def decode_commands(stream: bytes, notes: Optional[list] = None) -> list:
    notes = notes if notes is not None else []
    out = []
    pos = 0
    while pos < len(stream):
        c, n = decode_command(stream, pos, notes, len(out))
        out.append(c)
        pos += n
    return out


# ---------------------------------------------------------------------------------------------
# the loader


def _hash(hlen: int):
    return hashlib.sha256 if hlen == 32 else hashlib.sha384


def analyze(data: bytes, pck: Optional[bytes], root_keys: Optional[list] = None, rkth: Optional[bytes] = None,
            kdk_access_rights: int = 0, encrypted: bool = True) -> tuple:
    """Walk the file as the ROM does.  Returns (result, problems); `problems` = [(stage, message)] in the order met.

    The walk goes on after a problem wherever the rest of the file can still be located, so that independent
    defects are reported independently; `process` raises at the first problem.
    `root_keys` (X || Y of every root, in table order) or `rkth` is the trust anchor."""
    problems: list = []
    notes: list = []

    def bad(stage: str, msg: str) -> None:
        problems.append((stage, msg))

    res: dict[str, Any] = {"notes": notes, "regions": [], "commands": None}
    if len(data) < HDR_SIZE:
        bad("header-size", f"{len(data)} bytes")
        return res, problems
    (magic, minor, major, flags, nblocks, bsize, ts, fwv, total_len, itype, cert_off, desc) = struct.unpack_from(HDR_FMT, data)
    res["header"] = {"flags": flags, "block_count": nblocks, "block_size": bsize, "timestamp": ts, "firmware_version": fwv,
                     "total_length": total_len, "image_type": itype, "cert_block_offset": cert_off, "description": desc}
    if magic != b"sbv3":
        bad("header-magic", repr(magic))
        return res, problems
    if (major, minor) != (3, 1):
        bad("header-version", f"{major}.{minor}")
        return res, problems
    if bsize not in (4 + CHUNK + 32, 4 + CHUNK + 48):
        bad("header-block-size", str(bsize))
        return res, problems
    hlen = bsize - 4 - CHUNK
    H = _hash(hlen)
    res["hash_len"] = hlen
    if itype not in (6, 7):
        bad("header-image-type", str(itype))
    if nblocks < 1:
        bad("header-block-count", "no data block")
    if cert_off != HDR_SIZE + hlen:
        bad("header-cert-offset", f"{cert_off}, expected {HDR_SIZE + hlen}")
        cert_off = HDR_SIZE + hlen
    regions = res["regions"]
    regions.append(("header", 0, HDR_SIZE))
    regions.append(("header-hash", HDR_SIZE, HDR_SIZE + hlen))
    # ---- certificate block, trust anchor
    try:
        cert = cb21.read(data, cert_off, verify=True)
    except cb21.CertReject as e:
        bad(e.stage, e.msg)
        return res, problems
    res["cert"] = cert
    regions += cert["regions"]
    want_rkth = rkth if rkth is not None else (cb21.rkth_of(root_keys) if root_keys else None)
    if want_rkth is not None and cert["rkth"] != want_rkth:
        bad("cert-rkth", "root key table hash of the file differs from the device's")
    sig_len = cert["sig_len"]
    if sig_len != 2 * hlen:
        bad("header-hash-type", f"block hash of {hlen} bytes with a signing key of {sig_len // 2} byte coordinates")
    # ---- block 0 length and signature
    sig_start = cert["end"]
    block0_len = sig_start + sig_len
    if total_len != block0_len:
        bad("header-total-length", f"header says block 0 is {total_len} bytes, header + hash + certificate block + "
                                   f"signature is {block0_len}")
    if block0_len > len(data):
        bad("signature-truncated", "file ends inside the signature")
        return res, problems
    regions.append(("signature", sig_start, block0_len))
    if not cb21.ecdsa_verify(cert["sign_pub"], cert["sign_curve"], bytes(data[sig_start:block0_len]), bytes(data[:sig_start])):
        bad("signature", "ECDSA signature of block 0 does not verify under the " + ("ISK" if cert["isk"] else "root") + " key")
    # ---- the chain
    avail = (len(data) - block0_len) // bsize
    if len(data) != block0_len + nblocks * bsize:
        bad("file-length", f"file is {len(data)} bytes, block 0 ({block0_len}) + {nblocks} blocks of {bsize} is "
                           f"{block0_len + nblocks * bsize}")
    want = bytes(data[HDR_SIZE:HDR_SIZE + hlen])
    chunks = []
    walk = min(nblocks, avail)
    for i in range(1, walk + 1):
        a = block0_len + (i - 1) * bsize
        blk = bytes(data[a:a + bsize])
        regions += [(f"block{i}-number", a, a + 4), (f"block{i}-next-hash", a + 4, a + 4 + hlen),
                    (f"block{i}-data", a + 4 + hlen, a + bsize)]
        if H(blk).digest() != want:
            bad("chain-hash", f"hash of data block {i} is not the one its predecessor carries")
        (num,) = struct.unpack_from("<L", blk)
        if num != i:
            bad("block-number", f"block at position {i} is numbered {num}")
        want = blk[4:4 + hlen]
        chunks.append(blk[4 + hlen:])
    if walk == nblocks and nblocks >= 1 and any(want):
        bad("chain-last-hash", "the last data block carries a non-zero next-block hash")
    if walk < nblocks or not chunks:
        return res, problems
    # ---- decryption
    if encrypted:
        if pck is None:
            bad("key", "no PCK")
            return res, problems
        bits = 128 if hlen == 32 else 256
        try:
            kdk = kdf(pck, ts, kdk_access_rights, MODE_KDK, bits)
            plain = b"".join(cbc_decrypt_zero_iv(kdf(kdk, i, kdk_access_rights, MODE_BLK, bits), ch)
                             for i, ch in enumerate(chunks, start=1))
        except RomReject as e:
            bad(e.stage, e.msg)
            return res, problems
        res["kdk"] = kdk
    else:
        plain = b"".join(chunks)
    res["plain"] = plain
    # ---- section header + commands
    uid, stype, slen, spad = struct.unpack_from("<4L", plain)
    res["section"] = {"uid": uid, "type": stype, "length": slen}
    if (uid, stype) != (1, 1) or spad:
        bad("section-header", f"uid {uid}, type {stype}, reserved {spad}")
        return res, problems
    end = 16 + slen
    if end > len(plain) or len(plain) - end >= CHUNK:
        bad("section-length", f"section of {slen} bytes in {nblocks} blocks")
        return res, problems
    if any(plain[end:]):
        notes.append("stream-padding-nonzero")
    try:
        res["commands"] = decode_commands(plain[16:end], notes)
    except RomReject as e:
        bad(e.stage, e.msg)
    return res, problems


def process(data: bytes, pck: Optional[bytes], root_keys: Optional[list] = None, rkth: Optional[bytes] = None,
            kdk_access_rights: int = 0, encrypted: bool = True) -> dict:
    res, problems = analyze(data, pck, root_keys, rkth, kdk_access_rights, encrypted)
    if problems:
        raise RomReject(problems[0][0], problems[0][1])
    return res
