"""Independent reader/verifier of the NXP certificate block v1 (RSA), as a boot ROM sees it.

Written from the layout description (DESIGN §28 "Cert block v1"), on bytes only; X.509 handling
and RSA verification through `cryptography` directly.  No spsdk imports.

Layout:  header `<4s2H6I` = "cert", major, minor, header length (32), flags, build number,
image length, certificate count, certificate table length; then per certificate a u32 length
followed by the DER certificate (length already padded to 4); then 4 x 32 byte table of
SHA-256(n || e) (big-endian, minimal length) of the root keys, unused entries zero;
RKTH = SHA-256(table).  The block is padded with zeros to `alignment` when embedded.
"""
from __future__ import annotations

import hashlib
import struct
from typing import Optional

from cryptography import x509
from cryptography.exceptions import InvalidSignature
from cryptography.hazmat.primitives import hashes
from cryptography.hazmat.primitives.asymmetric import padding, rsa

HDR_FMT = "<4s2H6I"
HDR_SIZE = struct.calcsize(HDR_FMT)  # 32
RKH_TABLE_SIZE = 4 * 32


class CertBlockError(Exception):
    def __init__(self, stage: str, msg: str):
        super().__init__(f"{stage}: {msg}")
        self.stage = stage
        self.msg = msg


def _hash_alg(cert: x509.Certificate):
    alg = cert.signature_hash_algorithm
    if alg is None:
        raise CertBlockError("chain", "certificate without signature hash algorithm")
    return alg


def rsa_key_hash(pub: rsa.RSAPublicKey) -> bytes:
    """SHA-256(n || e), both big-endian minimal length."""
    nums = pub.public_numbers()
    n = nums.n.to_bytes((nums.n.bit_length() + 7) // 8, "big")
    e = nums.e.to_bytes((nums.e.bit_length() + 7) // 8, "big")
    return hashlib.sha256(n + e).digest()


def _is_ca(cert: x509.Certificate) -> bool:
    try:
        bc = cert.extensions.get_extension_for_class(x509.BasicConstraints).value
        return bool(bc.ca)
    except x509.ExtensionNotFound:
        return False


def read(data: bytes, offset: int = 0, alignment: int = 16, max_len: Optional[int] = None) -> dict:
    """Parse + verify a certificate block v1 that starts at `offset`.

    Returns dict(size (aligned), raw_len, header fields, certs (DER list), rkh (4 entries),
    rkth, root_index, pubkey (cryptography key of the last certificate), sig_len).
    Raises CertBlockError when the ROM would refuse the block."""
    end = len(data) if max_len is None else min(len(data), offset + max_len)
    if offset + HDR_SIZE > end:
        raise CertBlockError("cert-header", "truncated")
    (sig, major, minor, hlen, flags, build, image_length, cert_count, table_len) = struct.unpack_from(
        HDR_FMT, data, offset)
    if sig != b"cert":
        raise CertBlockError("cert-header", f"signature {sig!r}")
    if (major, minor) != (1, 0):
        raise CertBlockError("cert-header", f"version {major}.{minor}")
    if hlen != HDR_SIZE:
        raise CertBlockError("cert-header", f"header length {hlen}")
    if not 1 <= cert_count <= 4:
        raise CertBlockError("cert-header", f"certificate count {cert_count}")
    pos = offset + HDR_SIZE
    tbl_end = pos + table_len
    if tbl_end + RKH_TABLE_SIZE > end:
        raise CertBlockError("cert-header", "certificate table exceeds the data")
    ders = []
    for i in range(cert_count):
        if pos + 4 > tbl_end:
            raise CertBlockError("cert-table", f"certificate {i}: length word outside the table")
        (ln,) = struct.unpack_from("<I", data, pos)
        pos += 4
        if ln % 4 or pos + ln > tbl_end:
            raise CertBlockError("cert-table", f"certificate {i}: length {ln}")
        ders.append(bytes(data[pos:pos + ln]))
        pos += ln
    if pos != tbl_end:
        raise CertBlockError("cert-table", f"table length {table_len} does not match the certificates")
    rkh = [bytes(data[pos + 32 * i: pos + 32 * (i + 1)]) for i in range(4)]
    pos += RKH_TABLE_SIZE
    raw_len = pos - offset
    size = (raw_len + alignment - 1) // alignment * alignment
    if offset + size > end:
        raise CertBlockError("cert-header", "alignment padding exceeds the data")
    # certificates: DER may be followed by zero padding to 4 inside its slot
    certs = []
    for i, der in enumerate(ders):
        try:
            true_len = _der_len(der)
            if true_len > len(der):
                raise ValueError("DER length exceeds the slot")
            certs.append(x509.load_der_x509_certificate(der[:true_len]))
        except Exception as e:  # noqa
            raise CertBlockError("cert-x509", f"certificate {i}: {type(e).__name__}: {e}")
    pubs = []
    for i, c in enumerate(certs):
        pk = c.public_key()
        if not isinstance(pk, rsa.RSAPublicKey):
            raise CertBlockError("cert-x509", f"certificate {i}: not an RSA key")
        pubs.append(pk)
    # chain: certificate 0 self-signed, certificate i signed by certificate i-1
    for i, c in enumerate(certs):
        issuer_pub = pubs[0] if i == 0 else pubs[i - 1]
        try:
            issuer_pub.verify(c.signature, c.tbs_certificate_bytes, padding.PKCS1v15(), _hash_alg(c))
        except InvalidSignature:
            raise CertBlockError("chain", f"certificate {i} is not signed by its parent")
    # CA rules: a single certificate is not a CA; otherwise all but the last are CAs
    if _is_ca(certs[-1]):
        raise CertBlockError("chain", "last certificate is a CA")
    for i, c in enumerate(certs[:-1]):
        if not _is_ca(c):
            raise CertBlockError("chain", f"certificate {i} is not a CA")
    root_hash = rsa_key_hash(pubs[0])
    if root_hash not in rkh:
        raise CertBlockError("rkh", "root key hash is not in the RKH table")
    return {
        "offset": offset, "size": size, "raw_len": raw_len, "flags": flags, "build_number": build,
        "image_length": image_length, "cert_count": cert_count, "table_len": table_len,
        "certs": ders, "rkh": rkh, "rkth": hashlib.sha256(b"".join(rkh)).digest(),
        "root_index": rkh.index(root_hash), "pubkey": pubs[-1],
        "sig_len": (pubs[-1].key_size + 7) // 8,
        "padding": bytes(data[offset + raw_len: offset + size]),
        # byte regions relative to the file (for tamper sweeps)
        "regions": _regions(offset, ders, raw_len, size),
    }


def _regions(offset: int, ders: list, raw_len: int, size: int) -> list:
    out = [("cert-header", offset, offset + HDR_SIZE)]
    pos = offset + HDR_SIZE
    for i, der in enumerate(ders):
        out.append((f"cert{i}-len", pos, pos + 4))
        true_len = _der_len(der)
        out.append((f"cert{i}-der", pos + 4, pos + 4 + true_len))
        if true_len < len(der):
            out.append((f"cert{i}-pad", pos + 4 + true_len, pos + 4 + len(der)))
        pos += 4 + len(der)
    out.append(("rkh-table", pos, pos + RKH_TABLE_SIZE))
    if size > raw_len:
        out.append(("cert-align-pad", offset + raw_len, offset + size))
    return out


def _der_len(der: bytes) -> int:
    """Total length of the outer DER TLV."""
    if len(der) < 2 or der[0] != 0x30:
        raise ValueError("not a DER SEQUENCE")
    b = der[1]
    if b < 0x80:
        return 2 + b
    n = b & 0x7F
    if n == 0 or n > 4 or len(der) < 2 + n:
        raise ValueError("bad DER length")
    return 2 + n + int.from_bytes(der[2:2 + n], "big")


def verify_signature(block: dict, signature: bytes, signed: bytes) -> bool:
    """RSASSA-PKCS1-v1_5 / SHA-256 by the last certificate's key."""
    try:
        block["pubkey"].verify(signature, signed, padding.PKCS1v15(), hashes.SHA256())
        return True
    except InvalidSignature:
        return False
