"""Independent reader / acceptance model of a Master Boot Image, as a boot ROM sees it.

Works on the exported *bytes only*.  Written from the format crib (DESIGN §28 "MBI", "Cert block
v1", "Cert block v2.1"), the option descriptions of the MBI configuration schema and the golden
images of the repository (calibration: `vf.props.c02` feeds every golden it can describe through
`read()` before a run is trusted).  Crypto through hashlib / hmac / `cryptography` directly.
No spsdk import.

What the ROM of a device *knows* and the image cannot tell is passed in `dev`:

    tz_size       size in bytes of the TrustZone preset block of this device (None: no TrustZone)
    cert          "v1" (RSA, X.509 chain) | "v21" (ECDSA, root key record + ISK) | None
    hmac_hdr      True: load-to-RAM image types 1 and 3 carry HMAC-SHA256 (+ optional key store)
                  at offset 0x40 (RT5xx / RT6xx)
    manifest_crc  True: the v2.1 manifest ends with a CRC-32/MPEG-2 word (MCX N)
    kind          "ivt" (default) | "bca-dsc" (MC56F81xxx: BCA/FCF header, no IVT words)

and the provisioning of the device in `keys`:

    user_key      32-byte user / master key (HMAC key derivation, image encryption)
    key_source    "otp" (image key = AES-ECB(master key, 01 0^15 02 0^15)) | "keystore" (image key
                  = user key)
    rkth          expected root-key-table hash (optional; compared when given)

`policy` is the authentication class the device is configured to demand ("plain", "crc", "signed",
"nxp_signed", "encrypted"): an image of another class is refused, as a ROM with secure boot
enabled refuses a plain image.

`read()` returns a description (header words, regions with their authentication status, recovered
application / TrustZone / certificate block / plaintext) or raises `Reject(stage, msg)`.
"""
from __future__ import annotations

import hashlib
import hmac as _hmac
import struct
from typing import Any, Optional

from cryptography import x509
from cryptography.exceptions import InvalidSignature
from cryptography.hazmat.primitives import hashes
from cryptography.hazmat.primitives.asymmetric import ec, padding, rsa
from cryptography.hazmat.primitives.asymmetric.utils import encode_dss_signature
from cryptography.hazmat.primitives.ciphers import Cipher, algorithms, modes

# image types (low 6 bits of the flags word)
T_PLAIN, T_SIGNED_RAM, T_CRC_RAM, T_ENC_RAM, T_SIGNED_XIP, T_CRC_XIP, T_SIGNED_XIP_NXP = 0, 1, 2, 3, 4, 5, 8
TYPE_CLASS = {T_PLAIN: "plain", T_SIGNED_RAM: "signed", T_CRC_RAM: "crc", T_ENC_RAM: "encrypted",
              T_SIGNED_XIP: "signed", T_CRC_XIP: "crc", T_SIGNED_XIP_NXP: "nxp_signed"}

F_IMG_VER = 0x400
F_RELOC = 0x800
F_HWKEY = 0x1000
F_KEYSTORE = 0x8000
TZ_ENABLED, TZ_CUSTOM, TZ_DISABLED = 0, 1, 2

HMAC_OFF, HMAC_LEN, KEYSTORE_LEN = 0x40, 32, 1424
RELOC_MARKER = 0x4C54424C  # "LBTL"
MIN_IMAGE = 0x38


class Reject(Exception):
    def __init__(self, stage: str, msg: str = ""):
        super().__init__(f"{stage}: {msg}")
        self.stage = stage
        self.msg = msg


# ---------------------------------------------------------------------------------------------
# primitives

_CRC_TAB = []
for _i in range(256):
    _r = _i << 24
    for _ in range(8):
        _r = ((_r << 1) ^ 0x04C11DB7) & 0xFFFFFFFF if _r & 0x80000000 else (_r << 1) & 0xFFFFFFFF
    _CRC_TAB.append(_r)


def crc32_mpeg2(data: bytes, reg: int = 0xFFFFFFFF) -> int:
    """CRC-32/MPEG-2: poly 04C11DB7, init FFFFFFFF, no reflection, no final xor."""
    tab = _CRC_TAB
    for b in data:
        reg = ((reg << 8) & 0xFFFFFFFF) ^ tab[(reg >> 24) ^ b]
    return reg


assert crc32_mpeg2(b"123456789") == 0x0376E6E7


def aes_ecb_block(key: bytes, block: bytes) -> bytes:
    enc = Cipher(algorithms.AES(key), modes.ECB()).encryptor()
    return enc.update(block) + enc.finalize()


def aes_ctr(key: bytes, iv: bytes, data: bytes) -> bytes:
    """AES-CTR with a 128-bit big-endian counter block starting at `iv` (own counter logic)."""
    ctr = int.from_bytes(iv, "big")
    enc = Cipher(algorithms.AES(key), modes.ECB()).encryptor()
    nblk = (len(data) + 15) // 16
    stream = enc.update(b"".join(((ctr + i) % (1 << 128)).to_bytes(16, "big") for i in range(nblk)))
    return bytes(a ^ b for a, b in zip(data, stream))


def hmac_key_of(user_key: bytes) -> bytes:
    """HMAC key = AES_ENCRYPT(user/master key, 0^16)  (schema text of outputImageEncryptionKeyFile)."""
    return aes_ecb_block(user_key, bytes(16))


def image_key_of(user_key: bytes, key_source: str) -> bytes:
    if key_source == "keystore":
        return user_key
    return aes_ecb_block(user_key, bytes([1] + [0] * 15 + [2] + [0] * 15))


# ---------------------------------------------------------------------------------------------
# header words


def header(data: bytes) -> dict:
    if len(data) < MIN_IMAGE:
        raise Reject("header", f"image shorter than the vector table ({len(data)})")
    total, flags, w28 = struct.unpack_from("<3I", data, 0x20)
    (load,) = struct.unpack_from("<I", data, 0x34)
    return {
        "total_len": total, "flags": flags, "word28": w28, "load_addr": load,
        "type": flags & 0x3F, "subtype": (flags >> 6) & 3, "has_version": bool(flags & F_IMG_VER),
        "reloc": bool(flags & F_RELOC), "hwkey": bool(flags & F_HWKEY), "tz_type": (flags >> 13) & 3,
        "keystore": bool(flags & F_KEYSTORE), "image_version": (flags >> 16) & 0xFFFF,
        "reserved_bits": flags & 0x0300,
    }


def split_reloc(app_region: bytes) -> dict:
    """app ‖ images ‖ entries ‖ header(LBTL, 0, n, ptr-to-entries); entries (src, dst, len, flags)."""
    if len(app_region) < 16:
        raise Reject("reloc", "no room for the table header")
    marker, ver, n, ptr = struct.unpack_from("<4I", app_region, len(app_region) - 16)
    if marker != RELOC_MARKER or ver != 0:
        raise Reject("reloc", f"no relocation table header at the end (marker {marker:#x}, version {ver})")
    if n < 1 or ptr + 16 * n != len(app_region) - 16:
        raise Reject("reloc", f"entries pointer {ptr:#x} / count {n} do not end at the header")
    entries = []
    first = ptr
    pos_expected = None
    for i in range(n):
        src, dst, ln, fl = struct.unpack_from("<4I", app_region, ptr + 16 * i)
        if src + ln > ptr:
            raise Reject("reloc", f"entry {i}: image {src:#x}+{ln:#x} overlaps the entries")
        if pos_expected is not None and src != pos_expected:
            raise Reject("reloc", f"entry {i}: source {src:#x} does not follow the previous image")
        pos_expected = src + (ln + 3) // 4 * 4
        first = min(first, src)
        entries.append({"src": src, "dst": dst, "len": ln, "flags": fl,
                        "image": bytes(app_region[src:src + ln])})
    if pos_expected != ptr:
        raise Reject("reloc", "images do not end at the entries")
    return {"app": bytes(app_region[:first]), "entries": entries, "start": first, "table_ptr": ptr}


# ---------------------------------------------------------------------------------------------
# certificate block v1 (RSA, X.509)


def _der_total_len(der: bytes) -> int:
    if len(der) < 2 or der[0] != 0x30:
        raise ValueError("not a DER SEQUENCE")
    b = der[1]
    if b < 0x80:
        return 2 + b
    n = b & 0x7F
    if not 1 <= n <= 4 or len(der) < 2 + n:
        raise ValueError("bad DER length")
    return 2 + n + int.from_bytes(der[2:2 + n], "big")


def _is_ca(cert: x509.Certificate) -> bool:
    try:
        return bool(cert.extensions.get_extension_for_class(x509.BasicConstraints).value.ca)
    except x509.ExtensionNotFound:
        return False


def rsa_key_hash(pub: rsa.RSAPublicKey) -> bytes:
    nums = pub.public_numbers()
    n = nums.n.to_bytes((nums.n.bit_length() + 7) // 8, "big")
    e = nums.e.to_bytes((nums.e.bit_length() + 7) // 8, "big")
    return hashlib.sha256(n + e).digest()


def read_cert_v1(data: bytes, off: int, verify: bool = True) -> dict:
    if off + 32 > len(data):
        raise Reject("cert-header", "certificate block offset outside the image")
    sig, major, minor, hlen, flags, build, image_length, count, table_len = struct.unpack_from(
        "<4s2H6I", data, off)
    if sig != b"cert":
        raise Reject("cert-header", f"offset {off:#x} does not point at a 'cert' header ({sig!r})")
    if (major, minor) != (1, 0) or hlen != 32:
        raise Reject("cert-header", f"version {major}.{minor}, header length {hlen}")
    if not 1 <= count <= 4:
        raise Reject("cert-header", f"certificate count {count}")
    pos = off + 32
    tbl_end = pos + table_len
    if tbl_end + 128 > len(data):
        raise Reject("cert-header", "certificate table exceeds the image")
    regions = [("cert-header", off, off + 32)]
    certs, pubs = [], []
    for i in range(count):
        if pos + 4 > tbl_end:
            raise Reject("cert-table", f"certificate {i}: length word outside the table")
        (ln,) = struct.unpack_from("<I", data, pos)
        if ln % 4 or pos + 4 + ln > tbl_end:
            raise Reject("cert-table", f"certificate {i}: length {ln}")
        der = bytes(data[pos + 4:pos + 4 + ln])
        try:
            tl = _der_total_len(der)
            if tl > ln:
                raise ValueError("DER longer than its slot")
            c = x509.load_der_x509_certificate(der[:tl])
            pk = c.public_key()
        except Exception as e:  # noqa
            raise Reject("cert-x509", f"certificate {i}: {type(e).__name__}: {e}")
        if any(der[tl:]):
            raise Reject("cert-table", f"certificate {i}: non-zero slot padding")
        if not isinstance(pk, rsa.RSAPublicKey):
            raise Reject("cert-x509", f"certificate {i}: not an RSA key")
        regions.append((f"cert{i}-len", pos, pos + 4))
        regions.append((f"cert{i}-der", pos + 4, pos + 4 + tl))
        if tl < ln:
            regions.append((f"cert{i}-pad", pos + 4 + tl, pos + 4 + ln))
        certs.append(c)
        pubs.append(pk)
        pos += 4 + ln
    if pos != tbl_end:
        raise Reject("cert-table", "certificate table length does not match the certificates")
    for i, c in enumerate(certs if verify else []):
        issuer = pubs[0] if i == 0 else pubs[i - 1]
        alg = c.signature_hash_algorithm
        try:
            issuer.verify(c.signature, c.tbs_certificate_bytes, padding.PKCS1v15(), alg)
        except (InvalidSignature, Exception) as e:  # noqa
            raise Reject("cert-chain", f"certificate {i} is not signed by its parent ({type(e).__name__})")
    if verify and _is_ca(certs[-1]):
        raise Reject("cert-chain", "the last certificate is a CA")
    for i, c in enumerate(certs[:-1] if verify else []):
        if not _is_ca(c):
            raise Reject("cert-chain", f"certificate {i} is not a CA")
    rkh = [bytes(data[pos + 32 * i:pos + 32 * i + 32]) for i in range(4)]
    regions.append(("rkh-table", pos, pos + 128))
    pos += 128
    root_hash = rsa_key_hash(pubs[0])
    if root_hash not in rkh:
        if verify:
            raise Reject("rkh", "hash of the root key is not in the RKH table")
        rkh_index = None
    else:
        rkh_index = rkh.index(root_hash)
    raw_len = pos - off
    size = (raw_len + 3) // 4 * 4
    if size > raw_len:
        regions.append(("cert-align-pad", off + raw_len, off + size))
    return {"offset": off, "size": size, "flags": flags, "build_number": build,
            "image_length": image_length, "count": count, "rkh": rkh,
            "rkth": hashlib.sha256(b"".join(rkh)).digest(), "root_index": rkh_index,
            "pubkey": pubs[-1], "sig_len": (pubs[-1].key_size + 7) // 8, "regions": regions,
            "bytes": bytes(data[off:off + size])}


# ---------------------------------------------------------------------------------------------
# certificate block v2.1 (ECDSA)

_CURVES = {1: (ec.SECP256R1(), 32, hashes.SHA256(), hashlib.sha256),
           2: (ec.SECP384R1(), 48, hashes.SHA384(), hashlib.sha384)}


def _ec_pub(curve_id: int, xy: bytes, what: str):
    curve, n, _, _ = _CURVES[curve_id]
    if len(xy) != 2 * n:
        raise Reject("cert21", f"{what}: truncated public key")
    try:
        return ec.EllipticCurvePublicNumbers(int.from_bytes(xy[:n], "big"), int.from_bytes(xy[n:], "big"),
                                             curve).public_key()
    except Exception as e:  # noqa
        raise Reject("cert21", f"{what}: not a point of the curve ({e})")


def _ecdsa_ok(pub, curve_id: int, sig: bytes, msg: bytes) -> bool:
    _, n, h, _ = _CURVES[curve_id]
    if len(sig) != 2 * n:
        return False
    r, s = int.from_bytes(sig[:n], "big"), int.from_bytes(sig[n:], "big")
    try:
        pub.verify(encode_dss_signature(r, s), msg, ec.ECDSA(h))
        return True
    except InvalidSignature:
        return False


def read_cert_v21(data: bytes, off: int, verify: bool = True) -> dict:
    if off + 16 > len(data):
        raise Reject("cert21-header", "certificate block offset outside the image")
    magic, minor, major, size = struct.unpack_from("<4s2HL", data, off)
    if magic != b"chdr":
        raise Reject("cert21-header", f"offset {off:#x} does not point at a 'chdr' header ({magic!r})")
    if (major, minor) != (2, 1):
        raise Reject("cert21-header", f"version {major}.{minor}")
    if off + size > len(data) or size < 16:
        raise Reject("cert21-header", f"block size {size}")
    end = off + size
    regions = [("cert21-header", off, off + 12)]
    pos = off + 12
    (flags,) = struct.unpack_from("<L", data, pos)
    ca = bool(flags & 0x80000000)
    used = (flags >> 8) & 0xF
    count = (flags >> 4) & 0xF
    curve_id = flags & 0xF
    if curve_id not in _CURVES:
        raise Reject("cert21-root", f"curve id {curve_id}")
    if flags & 0x7FFFF000:
        raise Reject("cert21-root", f"reserved flag bits set ({flags:#x})")
    if not 1 <= count <= 4 or used >= count:
        raise Reject("cert21-root", f"root count {count}, used root {used}")
    _, n, _, hfn = _CURVES[curve_id]
    hlen = hfn().digest_size
    rec_start = pos
    pos += 4
    table = b""
    if count > 1:
        table = bytes(data[pos:pos + hlen * count])
        if len(table) != hlen * count:
            raise Reject("cert21-root", "CTRK table truncated")
        regions.append(("ctrk-table", pos, pos + hlen * count))
        pos += hlen * count
    root_xy = bytes(data[pos:pos + 2 * n])
    root_pub = _ec_pub(curve_id, root_xy, "root key")
    regions.append(("root-key", pos, pos + 2 * n))
    pos += 2 * n
    regions.insert(1, ("root-flags", rec_start, rec_start + 4))
    root_hash = hfn(root_xy).digest()
    if count > 1:
        if verify and table[hlen * used:hlen * (used + 1)] != root_hash:
            raise Reject("cert21-ctrk", "hash of the root key is not at the used index of the CTRK table")
        rkth = hfn(table).digest()
    else:
        rkth = root_hash
    record = bytes(data[rec_start:pos])
    out: dict[str, Any] = {"offset": off, "size": size, "ca": ca, "used_root": used, "root_count": count,
                           "root_curve": curve_id, "rkth": rkth, "isk": None}
    if ca:
        if pos != end:
            raise Reject("cert21-header", "block size does not end after the root key record")
        out.update(sign_pub=root_pub, sign_curve=curve_id)
    else:
        if pos + 12 > end:
            raise Reject("cert21-isk", "ISK certificate truncated")
        sig_off, constraints, iflags = struct.unpack_from("<3L", data, pos)
        icurve = iflags & 0xF
        if icurve not in _CURVES:
            raise Reject("cert21-isk", f"ISK curve id {icurve}")
        if iflags & 0x7FFFFFF0:
            raise Reject("cert21-isk", f"reserved ISK flag bits set ({iflags:#x})")
        _, m, _, _ = _CURVES[icurve]
        isk_xy = bytes(data[pos + 12:pos + 12 + 2 * m])
        isk_pub = _ec_pub(icurve, isk_xy, "ISK key")
        has_ud = bool(iflags & 0x80000000)
        ud_start = pos + 12 + 2 * m
        sig_start = pos + sig_off
        if sig_start < ud_start or sig_start + 2 * n != end:
            raise Reject("cert21-isk", f"signature offset {sig_off} inconsistent with the block size")
        user_data = bytes(data[ud_start:sig_start])
        if bool(user_data) != has_ud:
            raise Reject("cert21-isk", "user-data flag does not match the user data length")
        isk_sig = bytes(data[sig_start:end])
        signed = record + bytes(data[pos:sig_start])
        if verify and not _ecdsa_ok(root_pub, curve_id, isk_sig, signed):
            raise Reject("cert21-isk-sig", "ISK certificate signature does not verify under the used root key")
        regions += [("isk-header", pos, pos + 12), ("isk-key", pos + 12, ud_start)]
        if user_data:
            regions.append(("isk-user-data", ud_start, sig_start))
        regions.append(("isk-signature", sig_start, end))
        out.update(sign_pub=isk_pub, sign_curve=icurve,
                   isk={"constraints": constraints, "user_data": user_data, "key": isk_xy})
    out["regions"] = regions
    out["sig_len"] = 2 * _CURVES[out["sign_curve"]][1]
    out["bytes"] = bytes(data[off:end])
    return out


# ---------------------------------------------------------------------------------------------
# the images


def _common(data: bytes, dev: dict, policy: Optional[str]) -> dict:
    h = header(data)
    cls = TYPE_CLASS.get(h["type"])
    if cls is None:
        raise Reject("type", f"unknown image type {h['type']}")
    if policy is not None and cls != policy:
        raise Reject("policy", f"image of class {cls}, device demands {policy}")
    if h["reserved_bits"]:
        raise Reject("flags", f"reserved flag bits {h['reserved_bits']:#x}")
    if h["tz_type"] == 3:
        raise Reject("flags", "TrustZone type 3")
    if h["tz_type"] == TZ_CUSTOM and not dev.get("tz_size"):
        raise Reject("flags", "custom TrustZone data on a device without TrustZone preset")
    if h["image_version"] and not h["has_version"]:
        raise Reject("flags", "image version bits without the version flag")
    return h


def _check_total(h: dict, data: bytes, allow_zero: bool) -> None:
    if h["total_len"] == len(data):
        return
    if allow_zero and h["total_len"] == 0:
        return
    raise Reject("length", f"total length word {h['total_len']:#x}, image has {len(data):#x} bytes")


def read(data: bytes, dev: dict, keys: Optional[dict] = None, policy: Optional[str] = None,
         verify: bool = True) -> dict:
    """Acceptance (verify=True) or structural reading only (verify=False: layout, lengths, offsets,
    flags are still checked; CRC, HMAC, certificate chain, signatures and digests are not).

    A ROM never 'crashes' on a damaged image: anything the parsers below cannot digest (damaged DER,
    unknown algorithm identifiers, truncated structures) is a refusal with stage 'malformed'."""
    try:
        return _read(data, dev, keys, policy, verify)
    except Reject:
        raise
    except Exception as e:  # noqa
        raise Reject("malformed", f"{type(e).__name__}: {e}")


def _read(data: bytes, dev: dict, keys: Optional[dict], policy: Optional[str], verify: bool) -> dict:
    data = bytes(data)
    keys = keys or {}
    h = _common(data, dev, policy)
    cls = TYPE_CLASS[h["type"]]
    out: dict[str, Any] = {"hdr": h, "class": cls, "len": len(data)}
    tz_len = dev["tz_size"] if h["tz_type"] == TZ_CUSTOM else 0

    if cls in ("plain", "crc"):
        if h["keystore"]:
            raise Reject("flags", "key store flag on a plain/CRC image")
        _check_total(h, data, allow_zero=(cls == "plain"))
        if len(data) < MIN_IMAGE + tz_len:
            raise Reject("length", "no room for the TrustZone block")
        if cls == "crc":
            crc = crc32_mpeg2(data[0x2C:], crc32_mpeg2(data[:0x28]))
            out["crc_computed"] = crc
            if verify and crc != h["word28"]:
                raise Reject("crc", f"CRC word {h['word28']:#010x}, computed {crc:#010x}")
        elif h["word28"] != 0:
            raise Reject("word28", "plain image with a non-zero CRC / certificate offset word")
        app_end = len(data) - tz_len
        out.update(app_region=data[:app_end], tz=data[app_end:], body=data,
                   regions=[("ivt", 0, min(0x40, app_end), cls == "crc"), ("app", 0x40, app_end, cls == "crc"),
                            ("tz", app_end, len(data), cls == "crc")])
        return _finish(out)

    # ---- signed / encrypted ------------------------------------------------------------------
    _check_total(h, data, allow_zero=False)
    hm = bool(dev.get("hmac_hdr")) and h["type"] in (T_SIGNED_RAM, T_ENC_RAM)
    shift = 0
    regions = []
    if hm:
        shift = HMAC_LEN + (KEYSTORE_LEN if h["keystore"] else 0)
        if len(data) < HMAC_OFF + shift:
            raise Reject("hmac", "image too short for HMAC / key store")
        mac = data[HMAC_OFF:HMAC_OFF + HMAC_LEN]
        if verify and "user_key" in keys:
            exp = _hmac.new(hmac_key_of(keys["user_key"]), data[:HMAC_OFF], hashlib.sha256).digest()
            if not _hmac.compare_digest(mac, exp):
                raise Reject("hmac", "HMAC over the first 64 bytes does not verify")
            out["hmac_checked"] = True
        regions.append(("hmac", HMAC_OFF, HMAC_OFF + HMAC_LEN, True))
        if h["keystore"]:
            regions.append(("key-store", HMAC_OFF + HMAC_LEN, HMAC_OFF + shift, False))
            out["key_store"] = data[HMAC_OFF + HMAC_LEN:HMAC_OFF + shift]
        body = data[:HMAC_OFF] + data[HMAC_OFF + shift:]
    else:
        if h["keystore"]:
            raise Reject("flags", "key store flag on an image type without HMAC header")
        body = data
    out["body"] = body

    def fpos(p: int) -> int:  # body offset -> file offset
        return p + shift if p >= HMAC_OFF else p

    coff = h["word28"]
    if coff < MIN_IMAGE or coff % 4 or coff >= len(body):
        raise Reject("cert-offset", f"certificate block offset {coff:#x}")
    kind = dev.get("cert")
    if kind == "v1":
        cb = read_cert_v1(body, coff, verify)
        sig_len = cb["sig_len"]
        enc = cls == "encrypted"
        extra = 56 + 16 if enc else 0
        after = coff + cb["size"]
        exp_len = after + extra + tz_len + sig_len
        if len(body) != exp_len:
            raise Reject("layout", f"image body has {len(body):#x} bytes, layout needs {exp_len:#x}")
        signed = body[:len(body) - sig_len]
        sig = body[len(body) - sig_len:]
        if cb["image_length"] != len(signed):
            raise Reject("cert-image-length", f"certificate block image length {cb['image_length']:#x}, "
                                              f"signed part has {len(signed):#x}")
        if verify:
            try:
                cb["pubkey"].verify(sig, signed, padding.PKCS1v15(), hashes.SHA256())
            except InvalidSignature:
                raise Reject("signature", "RSA signature does not verify over the bytes that precede it")
            if "rkth" in keys and keys["rkth"] != cb["rkth"]:
                raise Reject("rkth", "root key table hash differs from the fuses")
        regions.append(("ivt", 0, min(0x40, coff), True))
        regions.append(("app", fpos(0x40), fpos(coff), True))
        regions += [(n, fpos(a), fpos(b), True) for n, a, b in cb["regions"]]
        p = after
        if enc:
            regions.append(("enc-ivt-copy", fpos(p), fpos(p + 56), True))
            regions.append(("ctr-iv", fpos(p + 56), fpos(p + 72), True))
            p += 72
        if tz_len:
            regions.append(("tz", fpos(p), fpos(p + tz_len), True))
        regions.append(("signature", fpos(len(signed)), fpos(len(body)), True))
        out.update(cert=cb, signed_len=len(signed), sig_len=sig_len, regions=regions)
        if enc:
            iv = body[after + 56:after + 72]
            ct = body[after:after + 56] + body[56:coff] + body[after + 72:after + 72 + tz_len]
            out.update(iv=iv, ciphertext=ct)
            if "user_key" in keys:
                key = image_key_of(keys["user_key"], keys.get("key_source", "otp"))
                pt = aes_ctr(key, iv, ct)
                out.update(plaintext=pt, app_region=pt[:coff], tz=pt[coff:])
                # the four words the ROM reads are stored in clear in the leading vector table
        else:
            out.update(app_region=body[:coff], tz=body[after:after + tz_len])
        return _finish(out)

    if kind == "v21":
        if cls == "encrypted":
            raise Reject("type", "encrypted image on a certificate-block-v2.1 device")
        cb = read_cert_v21(body, coff, verify)
        mpos = coff + cb["size"]
        if mpos + 20 > len(body):
            raise Reject("manifest", "no room for the manifest")
        magic, fmt, fwver, mlen, mflags = struct.unpack_from("<4s4L", body, mpos)
        if magic != b"imgm" or fmt != 0x00010000:
            raise Reject("manifest", f"magic {magic!r}, format version {fmt:#x}")
        crc_len = 4 if dev.get("manifest_crc") else 0
        tz_here = mlen - 20 - crc_len
        if tz_here != tz_len:
            raise Reject("manifest", f"manifest length {mlen}: {tz_here} bytes of TrustZone data, flags "
                                     f"word announces {tz_len}")
        digest_len = 0
        dig_fn = None
        if mflags & 0x80000000:
            alg = mflags & 0xF
            if alg not in (1, 2, 3) or dev.get("manifest_crc"):
                raise Reject("manifest", f"digest flag with algorithm id {alg}")
            dig_fn = {1: hashlib.sha256, 2: hashlib.sha384, 3: hashlib.sha512}[alg]
            digest_len = dig_fn().digest_size
            if mflags & 0x7FFFFFF0:
                raise Reject("manifest", f"reserved manifest flag bits ({mflags:#x})")
        elif mflags:
            raise Reject("manifest", f"manifest flags {mflags:#x} without the digest bit")
        sig_len = cb["sig_len"]
        sig_start = mpos + mlen
        if len(body) != sig_start + sig_len + digest_len:
            raise Reject("layout", f"image has {len(body):#x} bytes, layout needs "
                                   f"{sig_start + sig_len + digest_len:#x}")
        if crc_len and verify:
            (mcrc,) = struct.unpack_from("<L", body, sig_start - 4)
            if crc32_mpeg2(body[:sig_start - 4]) != mcrc:
                raise Reject("manifest-crc", "manifest CRC does not match the image up to the CRC word")
        signed = body[:sig_start]
        sig = body[sig_start:sig_start + sig_len]
        if verify and not _ecdsa_ok(cb["sign_pub"], cb["sign_curve"], sig, signed):
            raise Reject("signature", "ECDSA signature does not verify over the bytes that precede it")
        if verify and digest_len:
            if dig_fn(signed).digest() != body[sig_start + sig_len:]:
                raise Reject("manifest-digest", "appended digest is not the hash of the signed bytes")
        if verify and "rkth" in keys and keys["rkth"] != cb["rkth"]:
            raise Reject("rkth", "root key table hash differs from the fuses")
        regions += [("ivt", 0, min(0x40, coff), True), ("app", 0x40, coff, True)]
        regions += [(n, a, b, True) for n, a, b in cb["regions"]]
        regions.append(("manifest", mpos, mpos + 20, True))
        if tz_len:
            regions.append(("tz", mpos + 20, mpos + 20 + tz_len, True))
        if crc_len:
            regions.append(("manifest-crc", sig_start - 4, sig_start, True))
        regions.append(("signature", sig_start, sig_start + sig_len, True))
        if digest_len:
            regions.append(("digest", sig_start + sig_len, len(body), True))
        out.update(cert=cb, signed_len=len(signed), sig_len=sig_len, regions=regions,
                   app_region=body[:coff], tz=body[mpos + 20:mpos + 20 + tz_len],
                   manifest={"fw_version": fwver, "length": mlen, "flags": mflags,
                             "digest_len": digest_len, "digest_alg": (mflags & 0xF) if digest_len else 0,
                             # id of the hash the ROM uses for the image signature (curve of the signing key)
                             "signature_hash_alg": cb["sign_curve"]})
        return _finish(out)

    raise Reject("device", f"signed image on a device without certificate block support ({kind})")


def _finish(out: dict) -> dict:
    h = out["hdr"]
    if "app_region" in out:
        if h["reloc"]:
            out["reloc"] = split_reloc(out["app_region"])
            out["app"] = out["reloc"]["app"]
        else:
            out["app"] = out["app_region"]
    # drop empty regions
    out["regions"] = [r for r in out.get("regions", []) if r[2] > r[1]]
    return out


# ---------------------------------------------------------------------------------------------
# MC56F81xxx (DSC) images: BCA / FCF header instead of IVT words


def read_bca_dsc(data: bytes, policy: str, verify: bool = True) -> dict:
    """MC56F81xxx image.  Areas: vector table [0, 0x360), image digest [0x360, 0x380), ECDSA signature
    [0x380, 0x3C0), BCA [0x3C0, 0x400), FCF [0x400, 0x410), ISK certificate [0x410, 0x498), ISK hash
    [0x4A0, 0x4B0), application from 0xC00.

    crc:    BCA words +4/+8/+0xC = crcStartAddress, crcByteCount, crcExpectedValue; CRC-32/MPEG-2 over
            image[start : start + count], which has to be the application area.
    signed: signed data = image[:0x360] ‖ BCA ‖ image[0xC00:]; BCA +0x20 = its length; digest =
            SHA-256(signed data); signature = ECDSA-P256/SHA-256 r‖s under the ISK key; ISK certificate
            = <HHI> 0x4D43, 1, constraints ‖ X‖Y ‖ r‖s over the preceding 72 bytes (constraints 1:
            self-signed); ISK hash = SHA-256(certificate)[:16] or erased."""
    data = bytes(data)
    if len(data) < 0xC00:
        raise Reject("length", "image shorter than the DSC header area")
    out: dict[str, Any] = {"len": len(data), "class": policy, "regions": []}
    if policy == "crc":
        start, count, exp = struct.unpack_from("<3I", data, 0x3C0 + 4)
        if start != 0xC00 or start + count != len(data):
            raise Reject("bca-crc", f"CRC range {start:#x}+{count:#x} is not the application area")
        if verify and crc32_mpeg2(data[start:start + count]) != exp:
            raise Reject("bca-crc", "CRC in the BCA does not match the application area")
        out["regions"] = [("bca-crc-fields", 0x3C4, 0x3D0, True), ("app-data", 0xC00, len(data), True)]
    elif policy == "signed":
        signed = data[:0x360] + data[0x3C0:0x400] + data[0xC00:]
        (blen, fwver) = struct.unpack_from("<2I", data, 0x3C0 + 0x20)
        if blen != len(signed):
            raise Reject("bca-length", f"BCA image length {blen:#x}, signed data has {len(signed):#x} bytes")
        magic, ver, constraints = struct.unpack_from("<HHI", data, 0x410)
        if magic != 0x4D43 or ver != 1:
            raise Reject("isk-lite", f"ISK certificate magic {magic:#x} version {ver}")
        isk_xy = data[0x418:0x458]
        isk_pub = _ec_pub(1, isk_xy, "ISK key")
        if verify:
            if constraints == 1 and not _ecdsa_ok(isk_pub, 1, data[0x458:0x498], data[0x410:0x458]):
                raise Reject("isk-lite-sig", "self-signed ISK certificate does not verify")
            if hashlib.sha256(signed).digest() != data[0x360:0x380]:
                raise Reject("digest", "image digest is not SHA-256 of the signed data")
            if not _ecdsa_ok(isk_pub, 1, data[0x380:0x3C0], signed):
                raise Reject("signature", "ECDSA signature does not verify over the signed data")
            ih = data[0x4A0:0x4B0]
            if ih != b"\xff" * 16 and ih != hashlib.sha256(data[0x410:0x498]).digest()[:16]:
                raise Reject("isk-hash", "ISK hash is neither erased nor the hash of the certificate")
        out["fw_version"] = fwver
        out["regions"] = [("vectors", 0, 0x360, True), ("digest", 0x360, 0x380, True),
                          ("signature", 0x380, 0x3C0, True), ("bca", 0x3C0, 0x400, True),
                          ("isk-cert", 0x410, 0x458, True), ("isk-signature", 0x458, 0x498, True),
                          ("isk-hash", 0x4A0, 0x4B0, True), ("app-data", 0xC00, len(data), True)]
    return out
