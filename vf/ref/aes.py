"""Independent pure-Python reference: AES-128/192/256 (FIPS-197), modes ECB/CBC/CTR (SP 800-38A),
XTS (IEEE 1619), CCM (RFC 3610 / SP 800-38C), key wrap (RFC 3394), CMAC (SP 800-38B / RFC 4493),
SM4 (GB/T 32907) + CBC.

Shares no code with spsdk/ nor with `cryptography`/OpenSSL.  All AES tables are *computed* at
import from the field arithmetic of FIPS-197 (nothing hard-coded that a typo could spoil); the
only literal table is the SM4 S-box, which `selftest()` checks for bijectivity, against its
algebraic definition (affine - inversion - affine over GF(2^8) mod x^8+x^7+x^6+x^5+x^4+x^2+1) and
against the GB/T 32907 example.  `selftest()` runs published vectors of every construction.
Speed: ~2-4*10^4 blocks/s; it is an oracle, not a product.
"""
from __future__ import annotations

from typing import Optional

# ---------------------------------------------------------------------------------------------
# GF(2^8) arithmetic, modulus x^8+x^4+x^3+x+1 (FIPS-197 sec. 4)


def _xtime(a: int) -> int:
    a <<= 1
    return (a ^ 0x11B) if a & 0x100 else a


def _gmul(a: int, b: int) -> int:
    r = 0
    while b:
        if b & 1:
            r ^= a
        a = _xtime(a)
        b >>= 1
    return r


def _ginv(a: int) -> int:
    if a == 0:
        return 0
    # a^254 by square and multiply
    r, p, e = 1, a, 254
    while e:
        if e & 1:
            r = _gmul(r, p)
        p = _gmul(p, p)
        e >>= 1
    return r


def _rotl8(x: int, n: int) -> int:
    return ((x << n) | (x >> (8 - n))) & 0xFF


def _make_sbox() -> list:
    s = []
    for x in range(256):
        b = _ginv(x)
        s.append(b ^ _rotl8(b, 1) ^ _rotl8(b, 2) ^ _rotl8(b, 3) ^ _rotl8(b, 4) ^ 0x63)
    return s


SBOX = _make_sbox()
INV_SBOX = [0] * 256
for _i, _v in enumerate(SBOX):
    INV_SBOX[_v] = _i


def _ror32(w: int, n: int) -> int:
    return ((w >> n) | (w << (32 - n))) & 0xFFFFFFFF


# column tables: contribution of the byte in row r to a MixColumns / InvMixColumns output column
_TE0 = [(_gmul(s, 2) << 24) | (s << 16) | (s << 8) | _gmul(s, 3) for s in SBOX]
_TE1 = [_ror32(w, 8) for w in _TE0]
_TE2 = [_ror32(w, 16) for w in _TE0]
_TE3 = [_ror32(w, 24) for w in _TE0]
_U0 = [(_gmul(x, 14) << 24) | (_gmul(x, 9) << 16) | (_gmul(x, 13) << 8) | _gmul(x, 11) for x in range(256)]
_U1 = [_ror32(w, 8) for w in _U0]
_U2 = [_ror32(w, 16) for w in _U0]
_U3 = [_ror32(w, 24) for w in _U0]


class AES:
    """FIPS-197 cipher (straightforward cipher / inverse cipher, word-oriented)."""

    block_size = 16

    def __init__(self, key: bytes):
        if len(key) not in (16, 24, 32):
            raise ValueError("AES key must be 16, 24 or 32 bytes")
        nk = len(key) // 4
        self.nr = nk + 6
        w = [int.from_bytes(key[4 * i:4 * i + 4], "big") for i in range(nk)]
        rcon = 1
        for i in range(nk, 4 * (self.nr + 1)):
            t = w[i - 1]
            if i % nk == 0:
                t = ((t << 8) | (t >> 24)) & 0xFFFFFFFF  # RotWord
                t = (SBOX[t >> 24] << 24) | (SBOX[(t >> 16) & 255] << 16) | (SBOX[(t >> 8) & 255] << 8) | SBOX[t & 255]
                t ^= rcon << 24
                rcon = _xtime(rcon)
            elif nk > 6 and i % nk == 4:
                t = (SBOX[t >> 24] << 24) | (SBOX[(t >> 16) & 255] << 16) | (SBOX[(t >> 8) & 255] << 8) | SBOX[t & 255]
            w.append(w[i - nk] ^ t)
        self.w = w

    def encrypt_block(self, block: bytes) -> bytes:
        if len(block) != 16:
            raise ValueError("block must be 16 bytes")
        w = self.w
        x = int.from_bytes(block, "big")
        s0 = (x >> 96) ^ w[0]
        s1 = ((x >> 64) & 0xFFFFFFFF) ^ w[1]
        s2 = ((x >> 32) & 0xFFFFFFFF) ^ w[2]
        s3 = (x & 0xFFFFFFFF) ^ w[3]
        k = 4
        for _ in range(self.nr - 1):
            t0 = _TE0[s0 >> 24] ^ _TE1[(s1 >> 16) & 255] ^ _TE2[(s2 >> 8) & 255] ^ _TE3[s3 & 255] ^ w[k]
            t1 = _TE0[s1 >> 24] ^ _TE1[(s2 >> 16) & 255] ^ _TE2[(s3 >> 8) & 255] ^ _TE3[s0 & 255] ^ w[k + 1]
            t2 = _TE0[s2 >> 24] ^ _TE1[(s3 >> 16) & 255] ^ _TE2[(s0 >> 8) & 255] ^ _TE3[s1 & 255] ^ w[k + 2]
            t3 = _TE0[s3 >> 24] ^ _TE1[(s0 >> 16) & 255] ^ _TE2[(s1 >> 8) & 255] ^ _TE3[s2 & 255] ^ w[k + 3]
            s0, s1, s2, s3 = t0, t1, t2, t3
            k += 4
        S = SBOX
        t0 = ((S[s0 >> 24] << 24) | (S[(s1 >> 16) & 255] << 16) | (S[(s2 >> 8) & 255] << 8) | S[s3 & 255]) ^ w[k]
        t1 = ((S[s1 >> 24] << 24) | (S[(s2 >> 16) & 255] << 16) | (S[(s3 >> 8) & 255] << 8) | S[s0 & 255]) ^ w[k + 1]
        t2 = ((S[s2 >> 24] << 24) | (S[(s3 >> 16) & 255] << 16) | (S[(s0 >> 8) & 255] << 8) | S[s1 & 255]) ^ w[k + 2]
        t3 = ((S[s3 >> 24] << 24) | (S[(s0 >> 16) & 255] << 16) | (S[(s1 >> 8) & 255] << 8) | S[s2 & 255]) ^ w[k + 3]
        return ((t0 << 96) | (t1 << 64) | (t2 << 32) | t3).to_bytes(16, "big")

    def decrypt_block(self, block: bytes) -> bytes:
        if len(block) != 16:
            raise ValueError("block must be 16 bytes")
        w = self.w
        x = int.from_bytes(block, "big")
        k = 4 * self.nr
        s0 = (x >> 96) ^ w[k]
        s1 = ((x >> 64) & 0xFFFFFFFF) ^ w[k + 1]
        s2 = ((x >> 32) & 0xFFFFFFFF) ^ w[k + 2]
        s3 = (x & 0xFFFFFFFF) ^ w[k + 3]
        I = INV_SBOX
        for rnd in range(self.nr - 1, -1, -1):
            k = 4 * rnd
            # InvShiftRows + InvSubBytes + AddRoundKey
            t0 = ((I[s0 >> 24] << 24) | (I[(s3 >> 16) & 255] << 16) | (I[(s2 >> 8) & 255] << 8) | I[s1 & 255]) ^ w[k]
            t1 = ((I[s1 >> 24] << 24) | (I[(s0 >> 16) & 255] << 16) | (I[(s3 >> 8) & 255] << 8) | I[s2 & 255]) ^ w[k + 1]
            t2 = ((I[s2 >> 24] << 24) | (I[(s1 >> 16) & 255] << 16) | (I[(s0 >> 8) & 255] << 8) | I[s3 & 255]) ^ w[k + 2]
            t3 = ((I[s3 >> 24] << 24) | (I[(s2 >> 16) & 255] << 16) | (I[(s1 >> 8) & 255] << 8) | I[s0 & 255]) ^ w[k + 3]
            if rnd:  # InvMixColumns
                s0 = _U0[t0 >> 24] ^ _U1[(t0 >> 16) & 255] ^ _U2[(t0 >> 8) & 255] ^ _U3[t0 & 255]
                s1 = _U0[t1 >> 24] ^ _U1[(t1 >> 16) & 255] ^ _U2[(t1 >> 8) & 255] ^ _U3[t1 & 255]
                s2 = _U0[t2 >> 24] ^ _U1[(t2 >> 16) & 255] ^ _U2[(t2 >> 8) & 255] ^ _U3[t2 & 255]
                s3 = _U0[t3 >> 24] ^ _U1[(t3 >> 16) & 255] ^ _U2[(t3 >> 8) & 255] ^ _U3[t3 & 255]
            else:
                s0, s1, s2, s3 = t0, t1, t2, t3
        return ((s0 << 96) | (s1 << 64) | (s2 << 32) | s3).to_bytes(16, "big")


# ---------------------------------------------------------------------------------------------
# SM4 (GB/T 32907-2016)

SM4_SBOX = bytes.fromhex(
    "d690e9fecce13db716b614c228fb2c05"
    "2b679a762abe04c3aa44132649860699"
    "9c4250f491ef987a33540b43edcfac62"
    "e4b31ca9c908e89580df94fa758f3fa6"
    "4707a7fcf37317ba83593c19e6854fa8"
    "686b81b27164da8bf8eb0f4b70569d35"
    "1e240e5e6358d1a225227c3b01217887"
    "d40046579fd327524c3602e7a0c4c89e"
    "eabf8ad240c738b5a3f7f2cef96115a1"
    "e0ae5da49b341a55ad933230f58cb1e3"
    "1df6e22e8266ca60c02923ab0d534e6f"
    "d5db3745defd8e2f03ff6a726d6c5b51"
    "8d1baf92bbddbc7f11d95c411f105ad8"
    "0ac13188a5cd7bbd2d74d012b8e5b4b0"
    "8969974a0c96777e65b9f109c56ec684"
    "18f07dec3adc4d2079ee5f3ed7cb3948"
)
_SM4_FK = (0xA3B1BAC6, 0x56AA3350, 0x677D9197, 0xB27022DC)
_SM4_CK = [int.from_bytes(bytes(((4 * i + j) * 7) & 0xFF for j in range(4)), "big") for i in range(32)]


def _rotl32(x: int, n: int) -> int:
    return ((x << n) | (x >> (32 - n))) & 0xFFFFFFFF


def _sm4_tau(a: int) -> int:
    s = SM4_SBOX
    return (s[a >> 24] << 24) | (s[(a >> 16) & 255] << 16) | (s[(a >> 8) & 255] << 8) | s[a & 255]


class SM4:
    block_size = 16

    def __init__(self, key: bytes):
        if len(key) != 16:
            raise ValueError("SM4 key must be 16 bytes")
        k = [int.from_bytes(key[4 * i:4 * i + 4], "big") ^ _SM4_FK[i] for i in range(4)]
        rk = []
        for i in range(32):
            b = _sm4_tau(k[i + 1] ^ k[i + 2] ^ k[i + 3] ^ _SM4_CK[i])
            k.append(k[i] ^ b ^ _rotl32(b, 13) ^ _rotl32(b, 23))
            rk.append(k[i + 4])
        self.rk = rk

    def _crypt(self, block: bytes, rks) -> bytes:
        if len(block) != 16:
            raise ValueError("block must be 16 bytes")
        x = [int.from_bytes(block[4 * i:4 * i + 4], "big") for i in range(4)]
        for r in rks:
            b = _sm4_tau(x[1] ^ x[2] ^ x[3] ^ r)
            x = [x[1], x[2], x[3],
                 x[0] ^ b ^ _rotl32(b, 2) ^ _rotl32(b, 10) ^ _rotl32(b, 18) ^ _rotl32(b, 24)]
        return b"".join(v.to_bytes(4, "big") for v in reversed(x))

    def encrypt_block(self, block: bytes) -> bytes:
        return self._crypt(block, self.rk)

    def decrypt_block(self, block: bytes) -> bytes:
        return self._crypt(block, reversed(self.rk))


# ---------------------------------------------------------------------------------------------
# modes (generic over a cipher object with encrypt_block/decrypt_block, 16-byte blocks)


def _xor(a: bytes, b: bytes) -> bytes:
    return (int.from_bytes(a, "big") ^ int.from_bytes(b, "big")).to_bytes(len(a), "big") if a else b""


def _blocks(data: bytes):
    if len(data) % 16:
        raise ValueError("data length is not a multiple of the block size")
    return [data[i:i + 16] for i in range(0, len(data), 16)]


def ecb_encrypt(c, data: bytes) -> bytes:
    return b"".join(c.encrypt_block(b) for b in _blocks(data))


def ecb_decrypt(c, data: bytes) -> bytes:
    return b"".join(c.decrypt_block(b) for b in _blocks(data))


def cbc_encrypt(c, iv: bytes, data: bytes) -> bytes:
    if len(iv) != 16:
        raise ValueError("IV must be 16 bytes")
    out = []
    prev = iv
    for b in _blocks(data):
        prev = c.encrypt_block(_xor(b, prev))
        out.append(prev)
    return b"".join(out)


def cbc_decrypt(c, iv: bytes, data: bytes) -> bytes:
    if len(iv) != 16:
        raise ValueError("IV must be 16 bytes")
    out = []
    prev = iv
    for b in _blocks(data):
        out.append(_xor(c.decrypt_block(b), prev))
        prev = b
    return b"".join(out)


def ctr_crypt(c, counter_block: bytes, data: bytes) -> bytes:
    """SP 800-38A CTR with the standard incrementing function over the whole 128-bit block
    (big-endian, wraps modulo 2^128) - the function OpenSSL's CTR mode implements."""
    if len(counter_block) != 16:
        raise ValueError("counter block must be 16 bytes")
    ctr = int.from_bytes(counter_block, "big")
    out = []
    for i in range(0, len(data), 16):
        ks = c.encrypt_block(ctr.to_bytes(16, "big"))
        chunk = data[i:i + 16]
        out.append(_xor(chunk, ks[:len(chunk)]))
        ctr = (ctr + 1) & ((1 << 128) - 1)
    return b"".join(out)


def _xts_mul_alpha(t: bytes) -> bytes:
    """Multiply the tweak by alpha: the 16 bytes are a little-endian polynomial (IEEE 1619 5.2)."""
    v = int.from_bytes(t, "little") << 1
    if v >> 128:
        v = (v & ((1 << 128) - 1)) ^ 0x87
    return v.to_bytes(16, "little")


def _xts(key: bytes, tweak: bytes, data: bytes, enc: bool) -> bytes:
    if len(key) not in (32, 64):
        raise ValueError("XTS key must be 32 or 64 bytes")
    if len(tweak) != 16:
        raise ValueError("tweak must be 16 bytes")
    if len(data) < 16:
        raise ValueError("XTS needs at least one full block")
    k1, k2 = AES(key[:len(key) // 2]), AES(key[len(key) // 2:])
    f = k1.encrypt_block if enc else k1.decrypt_block
    t = k2.encrypt_block(tweak)
    m, b = divmod(len(data), 16)
    out = []
    full = m if b == 0 else m - 1
    for j in range(full):
        blk = data[16 * j:16 * j + 16]
        out.append(_xor(f(_xor(blk, t)), t))
        t = _xts_mul_alpha(t)
    if b:
        t_m1, t_m = t, _xts_mul_alpha(t)
        last_full = data[16 * (m - 1):16 * m]
        tail = data[16 * m:]
        ta, tb = (t_m1, t_m) if enc else (t_m, t_m1)
        cc = _xor(f(_xor(last_full, ta)), ta)
        pp = tail + cc[b:]
        out.append(_xor(f(_xor(pp, tb)), tb))
        out.append(cc[:b])
    return b"".join(out)


def xts_encrypt(key: bytes, tweak: bytes, data: bytes) -> bytes:
    return _xts(key, tweak, data, True)


def xts_decrypt(key: bytes, tweak: bytes, data: bytes) -> bytes:
    return _xts(key, tweak, data, False)


class InvalidTag(Exception):
    pass


def _ccm_mac_and_stream(c, nonce: bytes, aad: bytes, plain_len: int, tag_len: int):
    if not 7 <= len(nonce) <= 13:
        raise ValueError("CCM nonce must be 7..13 bytes")
    if tag_len not in (4, 6, 8, 10, 12, 14, 16):
        raise ValueError("CCM tag length must be an even number 4..16")
    L = 15 - len(nonce)
    if plain_len >= 1 << (8 * L):
        raise ValueError("message too long for this nonce length")
    flags = (0x40 if aad else 0) | (((tag_len - 2) // 2) << 3) | (L - 1)
    b0 = bytes([flags]) + nonce + plain_len.to_bytes(L, "big")
    if not aad:
        enc_a = b""
    elif len(aad) < 0xFF00:
        enc_a = len(aad).to_bytes(2, "big") + aad
    elif len(aad) < 1 << 32:
        enc_a = b"\xff\xfe" + len(aad).to_bytes(4, "big") + aad
    else:
        enc_a = b"\xff\xff" + len(aad).to_bytes(8, "big") + aad
    enc_a += bytes(-len(enc_a) % 16)

    def ctr_block(i: int) -> bytes:
        return bytes([L - 1]) + nonce + i.to_bytes(L, "big")

    return b0, enc_a, ctr_block


def _cbc_mac(c, data: bytes) -> bytes:
    x = bytes(16)
    for b in _blocks(data):
        x = c.encrypt_block(_xor(x, b))
    return x


def ccm_encrypt(c, nonce: bytes, plain: bytes, aad: bytes = b"", tag_len: int = 16) -> bytes:
    """RFC 3610; returns ciphertext || encrypted tag."""
    b0, enc_a, ctr_block = _ccm_mac_and_stream(c, nonce, aad, len(plain), tag_len)
    t = _cbc_mac(c, b0 + enc_a + plain + bytes(-len(plain) % 16))[:tag_len]
    out = []
    for i in range(0, len(plain), 16):
        ks = c.encrypt_block(ctr_block(i // 16 + 1))
        chunk = plain[i:i + 16]
        out.append(_xor(chunk, ks[:len(chunk)]))
    u = _xor(t, c.encrypt_block(ctr_block(0))[:tag_len])
    return b"".join(out) + u


def ccm_decrypt(c, nonce: bytes, data: bytes, aad: bytes = b"", tag_len: int = 16) -> bytes:
    if len(data) < tag_len:
        raise InvalidTag("shorter than the tag")
    ct, u = data[:len(data) - tag_len], data[len(data) - tag_len:]
    b0, enc_a, ctr_block = _ccm_mac_and_stream(c, nonce, aad, len(ct), tag_len)
    out = []
    for i in range(0, len(ct), 16):
        ks = c.encrypt_block(ctr_block(i // 16 + 1))
        chunk = ct[i:i + 16]
        out.append(_xor(chunk, ks[:len(chunk)]))
    plain = b"".join(out)
    t = _cbc_mac(c, b0 + enc_a + plain + bytes(-len(plain) % 16))[:tag_len]
    if _xor(t, c.encrypt_block(ctr_block(0))[:tag_len]) != u:
        raise InvalidTag("CCM tag mismatch")
    return plain


_KW_IV = bytes.fromhex("A6A6A6A6A6A6A6A6")


class InvalidUnwrap(Exception):
    pass


def key_wrap(c, plain: bytes) -> bytes:
    """RFC 3394 2.2.1 (index based)."""
    if len(plain) % 8 or len(plain) < 16:
        raise ValueError("key data must be n*8 bytes, n >= 2")
    n = len(plain) // 8
    a = _KW_IV
    r = [plain[8 * i:8 * i + 8] for i in range(n)]
    for j in range(6):
        for i in range(n):
            b = c.encrypt_block(a + r[i])
            a = (int.from_bytes(b[:8], "big") ^ (n * j + i + 1)).to_bytes(8, "big")
            r[i] = b[8:]
    return a + b"".join(r)


def key_unwrap(c, wrapped: bytes) -> bytes:
    if len(wrapped) % 8 or len(wrapped) < 24:
        raise ValueError("wrapped data must be (n+1)*8 bytes, n >= 2")
    n = len(wrapped) // 8 - 1
    a = wrapped[:8]
    r = [wrapped[8 * (i + 1):8 * (i + 2)] for i in range(n)]
    for j in range(5, -1, -1):
        for i in range(n - 1, -1, -1):
            t = (int.from_bytes(a, "big") ^ (n * j + i + 1)).to_bytes(8, "big")
            b = c.decrypt_block(t + r[i])
            a, r[i] = b[:8], b[8:]
    if a != _KW_IV:
        raise InvalidUnwrap("integrity check failed")
    return b"".join(r)


def _dbl(b: bytes) -> bytes:
    v = int.from_bytes(b, "big") << 1
    if v >> 128:
        v = (v & ((1 << 128) - 1)) ^ 0x87
    return v.to_bytes(16, "big")


def cmac(c, data: bytes) -> bytes:
    """SP 800-38B, full 128-bit tag."""
    k1 = _dbl(c.encrypt_block(bytes(16)))
    k2 = _dbl(k1)
    n = max(1, (len(data) + 15) // 16)
    head, last = data[:16 * (n - 1)], data[16 * (n - 1):]
    if len(last) == 16:
        last = _xor(last, k1)
    else:
        last = _xor(last + b"\x80" + bytes(15 - len(last)), k2)
    x = bytes(16)
    for b in _blocks(head):
        x = c.encrypt_block(_xor(x, b))
    return c.encrypt_block(_xor(x, last))


# convenience wrappers taking key bytes ---------------------------------------------------------


def aes_ecb_encrypt(key, data):
    return ecb_encrypt(AES(key), data)


def aes_ecb_decrypt(key, data):
    return ecb_decrypt(AES(key), data)


def aes_cbc_encrypt(key, iv, data):
    return cbc_encrypt(AES(key), iv, data)


def aes_cbc_decrypt(key, iv, data):
    return cbc_decrypt(AES(key), iv, data)


def aes_ctr(key, counter_block, data):
    return ctr_crypt(AES(key), counter_block, data)


def aes_ccm_encrypt(key, nonce, plain, aad=b"", tag_len=16):
    return ccm_encrypt(AES(key), nonce, plain, aad, tag_len)


def aes_ccm_decrypt(key, nonce, data, aad=b"", tag_len=16):
    return ccm_decrypt(AES(key), nonce, data, aad, tag_len)


def aes_key_wrap(kek, plain):
    return key_wrap(AES(kek), plain)


def aes_key_unwrap(kek, wrapped):
    return key_unwrap(AES(kek), wrapped)


def aes_cmac(key, data):
    return cmac(AES(key), data)


def sm4_cbc_encrypt(key, iv, data):
    return cbc_encrypt(SM4(key), iv, data)


def sm4_cbc_decrypt(key, iv, data):
    return cbc_decrypt(SM4(key), iv, data)


# ---------------------------------------------------------------------------------------------
# self-test on published vectors


def _sm4_sbox_algebraic() -> Optional[bytes]:
    """SM4 S-box from its published algebraic form S(x) = A*inv(A*x + c) + c over
    GF(2^8) mod 0x1F5, A the circulant bit matrix with first row 0xD3 (bits MSB first), c = 0xD3.
    Returned for comparison with the literal table."""

    def mul(a, b):
        r = 0
        while b:
            if b & 1:
                r ^= a
            a <<= 1
            if a & 0x100:
                a ^= 0x1F5
            b >>= 1
        return r

    def inv(a):
        if a == 0:
            return 0
        r, p, e = 1, a, 254
        while e:
            if e & 1:
                r = mul(r, p)
            p = mul(p, p)
            e >>= 1
        return r

    def affine(x):
        # row i of the circulant matrix = 0xD3 rotated right by i; output bit (7-i) = parity(row_i & x)
        y = 0
        for i in range(8):
            row = ((0xD3 >> i) | (0xD3 << (8 - i))) & 0xFF
            y |= (bin(row & x).count("1") & 1) << (7 - i)
        return y ^ 0xD3

    return bytes(affine(inv(affine(x))) for x in range(256))


def selftest() -> None:
    h = bytes.fromhex
    # FIPS-197 S-box spot values and Appendix C
    assert SBOX[0] == 0x63 and SBOX[0x53] == 0xED and SBOX[0xFF] == 0x16 and sorted(SBOX) == list(range(256))
    pt = h("00112233445566778899aabbccddeeff")
    for key, ct in (
        ("000102030405060708090a0b0c0d0e0f", "69c4e0d86a7b0430d8cdb78070b4c55a"),
        ("000102030405060708090a0b0c0d0e0f1011121314151617", "dda97ca4864cdfe06eaf70a0ec0d7191"),
        ("000102030405060708090a0b0c0d0e0f101112131415161718191a1b1c1d1e1f", "8ea2b7ca516745bfeafc49904b496089"),
    ):
        a = AES(h(key))
        assert a.encrypt_block(pt) == h(ct), "FIPS-197 C encrypt"
        assert a.decrypt_block(h(ct)) == pt, "FIPS-197 C decrypt"
    # FIPS-197 Appendix B
    assert AES(h("2b7e151628aed2a6abf7158809cf4f3c")).encrypt_block(h("3243f6a8885a308d313198a2e0370734")) == \
        h("3925841d02dc09fbdc118597196a0b32")
    # SP 800-38A
    k128 = h("2b7e151628aed2a6abf7158809cf4f3c")
    k192 = h("8e73b0f7da0e6452c810f32b809079e562f8ead2522c6b7b")
    k256 = h("603deb1015ca71be2b73aef0857d77811f352c073b6108d72d9810a30914dff4")
    p4 = h("6bc1bee22e409f96e93d7e117393172aae2d8a571e03ac9c9eb76fac45af8e51"
           "30c81c46a35ce411e5fbc1191a0a52eff69f2445df4f9b17ad2b417be66c3710")
    iv = h("000102030405060708090a0b0c0d0e0f")
    ctr0 = h("f0f1f2f3f4f5f6f7f8f9fafbfcfdfeff")
    vec = [
        ("ecb", k128, "3ad77bb40d7a3660a89ecaf32466ef97f5d3d58503b9699de785895a96fdbaaf"
                      "43b1cd7f598ece23881b00e3ed0306887b0c785e27e8ad3f8223207104725dd4"),
        ("ecb", k192, "bd334f1d6e45f25ff712a214571fa5cc974104846d0ad3ad7734ecb3ecee4eef"
                      "ef7afd2270e2e60adce0ba2face6444e9a4b41ba738d6c72fb16691603c18e0e"),
        ("ecb", k256, "f3eed1bdb5d2a03c064b5a7e3db181f8591ccb10d410ed26dc5ba74a31362870"
                      "b6ed21b99ca6f4f9f153e7b1beafed1d23304b7a39f9f3ff067d8d8f9e24ecc7"),
        ("cbc", k128, "7649abac8119b246cee98e9b12e9197d5086cb9b507219ee95db113a917678b2"
                      "73bed6b8e3c1743b7116e69e222295163ff1caa1681fac09120eca307586e1a7"),
        ("cbc", k192, "4f021db243bc633d7178183a9fa071e8b4d9ada9ad7dedf4e5e738763f69145a"
                      "571b242012fb7ae07fa9baac3df102e008b0e27988598881d920a9e64f5615cd"),
        ("cbc", k256, "f58c4c04d6e5f1ba779eabfb5f7bfbd69cfc4e967edb808d679f777bc6702c7d"
                      "39f23369a9d9bacfa530e26304231461b2eb05e2c39be9fcda6c19078c6a9d1b"),
        ("ctr", k128, "874d6191b620e3261bef6864990db6ce9806f66b7970fdff8617187bb9fffdff"
                      "5ae4df3edbd5d35e5b4f09020db03eab1e031dda2fbe03d1792170a0f3009cee"),
        ("ctr", k192, "1abc932417521ca24f2b0459fe7e6e0b090339ec0aa6faefd5ccc2c6f4ce8e94"
                      "1e36b26bd1ebc670d1bd1d665620abf74f78a7f6d29809585a97daec58c6b050"),
        ("ctr", k256, "601ec313775789a5b7a7f504bbf3d228f443e3ca4d62b59aca84e990cacaf5c5"
                      "2b0930daa23de94ce87017ba2d84988ddfc9c58db67aada613c2dd08457941a6"),
    ]
    for mode, key, ct in vec:
        ct = h(ct)
        if mode == "ecb":
            assert aes_ecb_encrypt(key, p4) == ct and aes_ecb_decrypt(key, ct) == p4, "38A ECB"
        elif mode == "cbc":
            assert aes_cbc_encrypt(key, iv, p4) == ct and aes_cbc_decrypt(key, iv, ct) == p4, "38A CBC"
        else:
            assert aes_ctr(key, ctr0, p4) == ct and aes_ctr(key, ctr0, ct) == p4, "38A CTR"
            assert aes_ctr(key, ctr0, p4[:37]) == ct[:37], "CTR partial block"
    # IEEE 1619-2007 Annex B: vectors 1, 2, 3 (XTS-AES-128, 32 bytes), 15-18 (ciphertext stealing),
    xv = [
        ("00" * 32, "00" * 16, "00" * 32,
         "917cf69ebd68b2ec9b9fe9a3eadda692cd43d2f59598ed858c02c2652fbf922e"),
        ("11" * 16 + "22" * 16, "3333333333" + "00" * 11, "44" * 32,
         "c454185e6a16936e39334038acef838bfb186fff7480adc4289382ecd6d394f0"),
        ("fffefdfcfbfaf9f8f7f6f5f4f3f2f1f0" + "22" * 16, "3333333333" + "00" * 11, "44" * 32,
         "af85336b597afc1a900b2eb21ec949d292df4c047e0b21532186a5971a227a89"),
        ("fffefdfcfbfaf9f8f7f6f5f4f3f2f1f0bfbebdbcbbbab9b8b7b6b5b4b3b2b1b0", "9a78563412" + "00" * 11,
         "000102030405060708090a0b0c0d0e0f10", "6c1625db4671522d3d7599601de7ca09ed"),
        ("fffefdfcfbfaf9f8f7f6f5f4f3f2f1f0bfbebdbcbbbab9b8b7b6b5b4b3b2b1b0", "9a78563412" + "00" * 11,
         "000102030405060708090a0b0c0d0e0f1011", "d069444b7a7e0cab09e24447d24deb1fedbf"),
        ("fffefdfcfbfaf9f8f7f6f5f4f3f2f1f0bfbebdbcbbbab9b8b7b6b5b4b3b2b1b0", "9a78563412" + "00" * 11,
         "000102030405060708090a0b0c0d0e0f101112", "e5df1351c0544ba1350b3363cd8ef4beedbf9d"),
        ("fffefdfcfbfaf9f8f7f6f5f4f3f2f1f0bfbebdbcbbbab9b8b7b6b5b4b3b2b1b0", "9a78563412" + "00" * 11,
         "000102030405060708090a0b0c0d0e0f10111213", "9d84c813f719aa2c7be3f66171c7c5c2edbf9dac"),
    ]
    for key, tw, p, c in xv:
        assert xts_encrypt(h(key), h(tw), h(p)) == h(c), f"IEEE 1619 encrypt {c[:8]}"
        assert xts_decrypt(h(key), h(tw), h(c)) == h(p), f"IEEE 1619 decrypt {c[:8]}"
    # IEEE 1619 vector 10 (XTS-AES-256, 512 bytes): first and last 16 bytes of the ciphertext
    k = h("2718281828459045235360287471352662497757247093699959574966967627"
          "3141592653589793238462643383279502884197169399375105820974944592")
    p = bytes(range(256)) * 2
    c = xts_encrypt(k, h("ff" + "00" * 15), p)
    assert c[:16] == h("1c3b3a102f770386e4836c99e370cf9b") and xts_decrypt(k, h("ff" + "00" * 15), c) == p, "IEEE 1619 v10"
    # RFC 3610 packet vectors 1, 2, 3 (M = 8) and 7 (M = 10)
    ck = h("c0c1c2c3c4c5c6c7c8c9cacbcccdcecf")
    pkt = bytes(range(0x21))
    cv = [
        ("00000003020100a0a1a2a3a4a5", 8, 0x1F, 8,
         "588c979a61c663d2f066d0c2c0f989806d5f6b61dac38417e8d12cfdf926e0"),
        ("00000004030201a0a1a2a3a4a5", 8, 0x20, 8,
         "72c91a36e135f8cf291ca894085c87e3cc15c439c9e43a3ba091d56e10400916"),
        ("00000005040302a0a1a2a3a4a5", 8, 0x21, 8,
         "51b1e5f44a197d1da46b0f8e2d282ae871e838bb64da8596574adaa76fbd9fb0c5"),
        ("00000009080706a0a1a2a3a4a5", 8, 0x1F, 10,
         "0135d1b2c95f41d5d1d4fec185d166b8094e999dfed96c048c56602c97acbb7490"),
    ]
    for nonce, alen, total, m, out in cv:
        aad, msg = pkt[:alen], pkt[alen:total]
        assert aes_ccm_encrypt(ck, h(nonce), msg, aad, m) == h(out), f"RFC 3610 {nonce[6:8]}"
        assert aes_ccm_decrypt(ck, h(nonce), h(out), aad, m) == msg
        bad = bytearray(h(out))
        bad[-1] ^= 1
        try:
            aes_ccm_decrypt(ck, h(nonce), bytes(bad), aad, m)
            raise AssertionError("CCM tamper accepted")
        except InvalidTag:
            pass
    # SP 800-38C example 1 (Klen 128, Tlen 32, Nlen 56, Alen 64, Plen 32)
    assert aes_ccm_encrypt(h("404142434445464748494a4b4c4d4e4f"), h("10111213141516"), h("20212223"),
                           h("0001020304050607"), 4) == h("7162015b4dac255d")
    # RFC 3394 4.1 - 4.6
    kd = "00112233445566778899aabbccddeeff"
    kek = "000102030405060708090a0b0c0d0e0f101112131415161718191a1b1c1d1e1f"
    kv = [
        (kek[:32], kd, "1fa68b0a8112b447aef34bd8fb5a7b829d3e862371d2cfe5"),
        (kek[:48], kd, "96778b25ae6ca435f92b5b97c050aed2468ab8a17ad84e5d"),
        (kek, kd, "64e8c3f9ce0f5ba263e9777905818a2a93c8191e7d6e8ae7"),
        (kek[:48], kd + "0001020304050607", "031d33264e15d33268f24ec260743edce1c6c7ddee725a936ba814915c6762d2"),
        (kek, kd + "0001020304050607", "a8f9bc1612c68b3ff6e6f4fbe30e71e4769c8b80a32cb8958cd5d17d6b254da1"),
        (kek, kd + "000102030405060708090a0b0c0d0e0f",
         "28c9f404c4b810f4cbccb35cfb87f8263f5786e2d80ed326cbc7f0e71a99f43bfb988b9b7a02dd21"),
    ]
    for k_, d_, w_ in kv:
        assert aes_key_wrap(h(k_), h(d_)) == h(w_), "RFC 3394 wrap"
        assert aes_key_unwrap(h(k_), h(w_)) == h(d_), "RFC 3394 unwrap"
    try:
        aes_key_unwrap(h(kek), h("28c9f404c4b810f4cbccb35cfb87f8263f5786e2d80ed326cbc7f0e71a99f43bfb988b9b7a02dd20"))
        raise AssertionError("tampered wrap accepted")
    except InvalidUnwrap:
        pass
    # RFC 4493 / SP 800-38B examples
    mv = [
        (k128, 0, "bb1d6929e95937287fa37d129b756746"),
        (k128, 16, "070a16b46b4d4144f79bdd9dd04a287c"),
        (k128, 40, "dfa66747de9ae63030ca32611497c827"),
        (k128, 64, "51f0bebf7e3b9d92fc49741779363cfe"),
        (k192, 0, "d17ddf46adaacde531cac483de7a9367"),
        (k192, 16, "9e99a7bf31e710900662f65e617c5184"),
        (k192, 64, "a1d5df0eed790f794d77589659f39a11"),
        (k256, 0, "028962f61b7bf89efc6b551f4667d983"),
        (k256, 16, "28a7023f452e8f82bd4bf28d8c37c35c"),
        (k256, 64, "e1992190549f6ed5696a2c056c315410"),
    ]
    for k_, n_, t_ in mv:
        assert aes_cmac(k_, p4[:n_]) == h(t_), f"CMAC {len(k_)} {n_}"
    # GB/T 32907 example 1, SM4 S-box structure
    assert sorted(SM4_SBOX) == list(range(256)), "SM4 S-box is not a permutation"
    assert _sm4_sbox_algebraic() == SM4_SBOX, "SM4 S-box differs from its algebraic definition"
    sk = h("0123456789abcdeffedcba9876543210")
    s = SM4(sk)
    assert s.encrypt_block(sk) == h("681edf34d206965e86b3e94f536e4246"), "GB/T 32907 example 1"
    assert s.decrypt_block(h("681edf34d206965e86b3e94f536e4246")) == sk
    # draft-ribose-cfrg-sm4 A.2.2.1 (SM4-CBC)
    sp = h("aaaaaaaabbbbbbbbccccccccddddddddeeeeeeeeffffffffaaaaaaaabbbbbbbb")
    sc = h("78ebb11cc40b0a48312aaeb2040244cb4cb7016951909226979b0d15dc6a8f6d")
    assert sm4_cbc_encrypt(sk, iv, sp) == sc and sm4_cbc_decrypt(sk, iv, sc) == sp, "SM4-CBC example"


if __name__ == "__main__":
    import time

    t0 = time.time()
    selftest()
    print("selftest ok", round(time.time() - t0, 3), "s")
    a = AES(bytes(16))
    t0 = time.time()
    b = bytes(16)
    for _ in range(20000):
        b = a.encrypt_block(b)
    print("enc blocks/s", int(20000 / (time.time() - t0)))
    t0 = time.time()
    for _ in range(20000):
        b = a.decrypt_block(b)
    print("dec blocks/s", int(20000 / (time.time() - t0)), b.hex())
